//! C25 workload: one WebSocket session = the REAL `async_graphql::http::WebSocket`
//! stream polled by a root task of `vsched`, a client input stream fed by the
//! script, harness-controlled subscription streams / keep-alive timer /
//! on_connection_init callback that all wait on `Sched` gates, and a `Chooser`
//! that applies one script symbol per quiescent point.

use std::collections::{BTreeSet, VecDeque};
use std::future::Future;
use std::pin::Pin;
use std::sync::atomic::{AtomicBool, AtomicU32, AtomicUsize, Ordering};
use std::sync::{Arc, Mutex};
use std::task::{Context as TaskCx, Poll, Waker};
use std::time::Duration;

use async_graphql::futures_util::future::BoxFuture;
use async_graphql::futures_util::{FutureExt, Stream};
use async_graphql::http::{WebSocket, WebSocketProtocols, WsMessage};
use async_graphql::{Context, Data, EmptyMutation, Object, Schema, SimpleObject, Subscription};
use vh_core::Rng;
use vh_core::serde_json::{self, Value as J};
use vh_core::vsched::{self, Armed, Chooser, Gate, Sched};

use crate::monitor::{CMsg, Ev, Monitor, OpKind, Out, Proto};

// ---------------------------------------------------------------- symbols

#[derive(Clone, Copy, PartialEq, Eq, Hash, Debug, PartialOrd, Ord)]
pub enum Sym {
    // client
    Init,
    SubA,
    SubB,
    SubDup,
    SubQuery,
    SubInvalid,
    CompA,
    CompB,
    Ping,
    Pong,
    Terminate,
    BadJson,
    Unknown,
    Eof,
    // environment
    YieldA,
    YieldB,
    EndA,
    EndB,
    Timer,
    InitOk,
    InitFail,
}

pub const CLIENT_SYMS: [Sym; 14] = [
    Sym::Init,
    Sym::SubA,
    Sym::SubB,
    Sym::SubDup,
    Sym::SubQuery,
    Sym::SubInvalid,
    Sym::CompA,
    Sym::CompB,
    Sym::Ping,
    Sym::Pong,
    Sym::Terminate,
    Sym::BadJson,
    Sym::Unknown,
    Sym::Eof,
];
pub const ENV_SYMS: [Sym; 7] =
    [Sym::YieldA, Sym::YieldB, Sym::EndA, Sym::EndB, Sym::Timer, Sym::InitOk, Sym::InitFail];

/// Names of the counters that must all be non-zero (every symbol used).
pub const CLIENT_COUNTERS: [&str; 15] = [
    "sym_init",
    "sym_init_again",
    "sym_subscribe_a",
    "sym_subscribe_b",
    "sym_subscribe_dup",
    "sym_subscribe_query",
    "sym_subscribe_invalid",
    "sym_complete_a",
    "sym_complete_b",
    "sym_ping",
    "sym_pong",
    "sym_terminate",
    "sym_invalid_json",
    "sym_unknown_type",
    "sym_end_of_input",
];
pub const ENV_COUNTERS: [&str; 7] =
    ["env_yield_a", "env_yield_b", "env_end_a", "env_end_b", "env_timer", "env_init_ok", "env_init_fail"];

impl Sym {
    pub fn name(self) -> &'static str {
        match self {
            Sym::Init => "init",
            Sym::SubA => "subscribe_a",
            Sym::SubB => "subscribe_b",
            Sym::SubDup => "subscribe_dup",
            Sym::SubQuery => "subscribe_query",
            Sym::SubInvalid => "subscribe_invalid",
            Sym::CompA => "complete_a",
            Sym::CompB => "complete_b",
            Sym::Ping => "ping",
            Sym::Pong => "pong",
            Sym::Terminate => "terminate",
            Sym::BadJson => "invalid_json",
            Sym::Unknown => "unknown_type",
            Sym::Eof => "end_of_input",
            Sym::YieldA => "yield_a",
            Sym::YieldB => "yield_b",
            Sym::EndA => "end_a",
            Sym::EndB => "end_b",
            Sym::Timer => "timer",
            Sym::InitOk => "init_ok",
            Sym::InitFail => "init_fail",
        }
    }
    pub fn parse(s: &str) -> Option<Sym> {
        CLIENT_SYMS.iter().chain(ENV_SYMS.iter()).copied().find(|x| x.name() == s)
    }
    pub fn is_client(self) -> bool {
        CLIENT_SYMS.contains(&self)
    }
}

/// The script alphabet of a protocol (`terminate` exists only in the legacy protocol).
pub fn alphabet(proto: Proto) -> Vec<Sym> {
    CLIENT_SYMS
        .iter()
        .chain(ENV_SYMS.iter())
        .copied()
        .filter(|s| !(proto == Proto::Gtws && *s == Sym::Terminate))
        .collect()
}

#[derive(Clone, Copy, PartialEq, Eq, Debug, Hash)]
pub struct Step {
    pub sym: Sym,
    /// client symbol glued to the following symbol: no quiescent point in
    /// between (a burst of frames, or a frame arriving at the same instant as an
    /// environment event)
    pub glue: bool,
}

impl Step {
    pub fn of(sym: Sym) -> Step {
        Step { sym, glue: false }
    }
}

pub fn script_to_strings(s: &[Step]) -> Vec<String> {
    s.iter().map(|x| format!("{}{}", x.sym.name(), if x.glue { "+" } else { "" })).collect()
}

pub fn script_from_json(v: &J) -> Option<Vec<Step>> {
    let mut out = vec![];
    for x in v.as_array()? {
        let s = x.as_str()?;
        let (name, glue) = match s.strip_suffix('+') {
            Some(n) => (n, true),
            None => (s, false),
        };
        out.push(Step { sym: Sym::parse(name)?, glue });
    }
    Some(out)
}

#[derive(Clone, Copy, PartialEq, Eq, Debug, Hash)]
pub struct Cfg {
    pub proto: Proto,
    /// on_connection_init waits for the environment (init_ok / init_fail gates);
    /// otherwise it resolves at once
    pub gated_init: bool,
}

impl Cfg {
    pub fn init_mode(&self) -> &'static str {
        if self.gated_init { "gated" } else { "immediate" }
    }
}

/// Generator features (true = enabled). Only the graphql-transport-ws oracle
/// has known findings, so only that protocol's workload is ever restricted.
#[derive(Clone, Copy, Debug)]
pub struct Features {
    pub subscribe_before_ack: bool,
    pub duplicate_id: bool,
    pub invalid_message: bool,
}

impl Features {
    pub const ALL: Features = Features { subscribe_before_ack: true, duplicate_id: true, invalid_message: true };
}

pub enum Source {
    Fixed(Vec<Step>),
    Random { rng: Rng, max_len: usize },
}

// ---------------------------------------------------------------- schema

#[derive(SimpleObject, Clone)]
pub struct Item {
    inst: i32,
    seq: i32,
}

pub struct Query;

#[Object]
impl Query {
    async fn value(&self) -> i32 {
        10
    }
}

pub struct Sub;

#[Subscription]
impl Sub {
    async fn a(&self, ctx: &Context<'_>) -> impl Stream<Item = Item> + use<> {
        HStream::new(ctx.data_unchecked::<SessH>().0.clone(), 'a')
    }
    async fn b(&self, ctx: &Context<'_>) -> impl Stream<Item = Item> + use<> {
        HStream::new(ctx.data_unchecked::<SessH>().0.clone(), 'b')
    }
}

pub type WsSchema = Schema<Query, EmptyMutation, Sub>;

pub fn build_schema() -> WsSchema {
    Schema::build(Query, EmptyMutation, Sub).finish()
}

// ---------------------------------------------------------------- session state

struct InQ {
    queue: VecDeque<(usize, Option<String>)>,
    waker: Option<Waker>,
    eof: bool,
}

pub struct Sess {
    sched: Sched,
    log: Mutex<Vec<Ev>>,
    pos: AtomicUsize,
    next_inst: AtomicU32,
    kinds: Mutex<Vec<char>>, // kinds[inst-1]
    inq: Mutex<InQ>,
    stop: AtomicBool,
    root_waker: Mutex<Option<Waker>>,
    gated_init: bool,
}

struct SessH(Arc<Sess>);

impl Sess {
    fn pos(&self) -> usize {
        self.pos.load(Ordering::SeqCst)
    }
    fn push(&self, e: Ev) {
        self.log.lock().unwrap().push(e);
    }
    fn kind_of(&self, inst: u32) -> Option<char> {
        self.kinds.lock().unwrap().get(inst as usize - 1).copied()
    }
}

/// Harness-controlled subscription stream: yields (inst, seq) when gate
/// `yield#<inst>` opens, ends when gate `end#<inst>` opens.
struct HStream {
    sess: Arc<Sess>,
    inst: u32,
    seq: u32,
    yield_gate: Gate,
    end_gate: Gate,
    done: bool,
}

impl HStream {
    fn new(sess: Arc<Sess>, kind: char) -> HStream {
        let inst = sess.next_inst.fetch_add(1, Ordering::SeqCst) + 1;
        sess.kinds.lock().unwrap().push(kind);
        sess.push(Ev::Started { pos: sess.pos(), inst, kind });
        let yield_gate = sess.sched.gate(format!("yield#{inst}"));
        let end_gate = sess.sched.gate(format!("end#{inst}"));
        HStream { sess, inst, seq: 0, yield_gate, end_gate, done: false }
    }
}

impl Stream for HStream {
    type Item = Item;
    fn poll_next(mut self: Pin<&mut Self>, cx: &mut TaskCx<'_>) -> Poll<Option<Item>> {
        let this = &mut *self;
        if this.done {
            return Poll::Ready(None);
        }
        // race the two gates; both stay armed while pending
        let y = Pin::new(&mut this.yield_gate).poll(cx);
        if y.is_ready() {
            this.seq += 1;
            this.yield_gate = this.sess.sched.gate(format!("yield#{}", this.inst));
            this.sess.push(Ev::Yielded { pos: this.sess.pos(), inst: this.inst, seq: this.seq });
            return Poll::Ready(Some(Item { inst: this.inst as i32, seq: this.seq as i32 }));
        }
        let e = Pin::new(&mut this.end_gate).poll(cx);
        if e.is_ready() {
            this.done = true;
            this.sess.push(Ev::StreamEnd { pos: this.sess.pos(), inst: this.inst });
            return Poll::Ready(None);
        }
        Poll::Pending
    }
}

impl Drop for HStream {
    fn drop(&mut self) {
        self.sess.push(Ev::Dropped { pos: self.sess.pos(), inst: self.inst });
    }
}

/// Client side of the socket: frames queued by the script, read by the server.
struct InputStream(Arc<Sess>);

impl Stream for InputStream {
    type Item = String;
    fn poll_next(self: Pin<&mut Self>, cx: &mut TaskCx<'_>) -> Poll<Option<String>> {
        let sess = &self.0;
        let mut q = sess.inq.lock().unwrap();
        if let Some((n, item)) = q.queue.pop_front() {
            if item.is_none() {
                q.eof = true;
            }
            drop(q);
            sess.push(Ev::Recv { pos: sess.pos(), n });
            return Poll::Ready(item);
        }
        if q.eof {
            return Poll::Ready(None);
        }
        q.waker = Some(cx.waker().clone());
        Poll::Pending
    }
}

/// Virtual time: the keep-alive delay is a gate.
struct VTimer(Arc<Sess>);

impl async_graphql::runtime::Timer for VTimer {
    fn delay(&self, _d: Duration) -> BoxFuture<'static, ()> {
        self.0.sched.gate("timer").boxed()
    }
}

/// Resolves to true when `ok` opens first, false when `fail` opens first.
struct Race2 {
    ok: Gate,
    fail: Gate,
}

impl Future for Race2 {
    type Output = bool;
    fn poll(mut self: Pin<&mut Self>, cx: &mut TaskCx<'_>) -> Poll<bool> {
        let this = &mut *self;
        if Pin::new(&mut this.ok).poll(cx).is_ready() {
            return Poll::Ready(true);
        }
        if Pin::new(&mut this.fail).poll(cx).is_ready() {
            return Poll::Ready(false);
        }
        Poll::Pending
    }
}

/// Root task: what a web integration does with the WebSocket stream.
struct Root {
    ws: Option<Pin<Box<dyn Stream<Item = WsMessage> + Send>>>,
    sess: Arc<Sess>,
    /// a Close frame is being flushed by the transport (gate "sink"): the
    /// consumer polls the session again only after the schedule lets it, so
    /// environment events (the keep-alive timer) can fall between the Close
    /// and the next poll
    sink: Option<Pin<Box<dyn Future<Output = ()> + Send>>>,
}

impl Future for Root {
    type Output = ();
    fn poll(mut self: Pin<&mut Self>, cx: &mut TaskCx<'_>) -> Poll<()> {
        let this = &mut *self;
        if this.sess.stop.load(Ordering::SeqCst) {
            this.ws = None;
            return Poll::Ready(());
        }
        *this.sess.root_waker.lock().unwrap() = Some(cx.waker().clone());
        loop {
            if let Some(sink) = this.sink.as_mut() {
                match sink.as_mut().poll(cx) {
                    Poll::Ready(()) => this.sink = None,
                    Poll::Pending => return Poll::Pending,
                }
            }
            let Some(ws) = this.ws.as_mut() else {
                return Poll::Pending;
            };
            match ws.as_mut().poll_next(cx) {
                Poll::Ready(Some(m)) => {
                    let msg = match m {
                        WsMessage::Text(t) => Out::Text(t),
                        WsMessage::Close(c, r) => {
                            this.sink = Some(Box::pin(this.sess.sched.gate("sink")));
                            Out::Close(c, r)
                        }
                    };
                    this.sess.push(Ev::Out { pos: this.sess.pos(), msg });
                }
                Poll::Ready(None) => {
                    this.sess.push(Ev::OutEnd { pos: this.sess.pos() });
                    // an integration drops the connection object here
                    this.ws = None;
                }
                Poll::Pending => return Poll::Pending,
            }
        }
    }
}

// ---------------------------------------------------------------- driver

pub struct Driver {
    cfg: Cfg,
    feats: Features,
    force: bool,
    sess: Arc<Sess>,
    source: Source,
    idx: usize,
    pub applied_script: Vec<Step>,
    pub monitor: Monitor,
    // client's own view
    sent_init: bool,
    sent_eof: bool,
    /// ids that will be live once the server has consumed everything sent so far
    client_live: BTreeSet<String>,
    sent: Vec<(usize, CMsg)>,
    next_msg: usize,
    pending_multi: Option<(&'static str, char, u32, String)>,
    /// counters `sym_*` / `env_*` of symbols that took effect
    pub used: Vec<&'static str>,
    pub skipped: usize,
    pub last_effective: bool,
    pub timer_unarmed_skips: usize,
    /// the keep-alive timer was already offered after the session closed
    post_close_timer_done: bool,
}

fn gate_inst(label: &str, prefix: &str) -> Option<u32> {
    label.strip_prefix(prefix)?.parse().ok()
}

impl Driver {
    fn sync(&mut self) {
        {
            let log = self.sess.log.lock().unwrap();
            self.monitor.catch_up(&log);
        }
        // The ids a protocol-abiding client must treat as live: the model's live
        // operations plus the effect of frames the server has not consumed yet.
        let mut live: BTreeSet<String> = self.monitor.live_ids().into_iter().collect();
        let consumed = self.monitor.consumed;
        self.sent.retain(|(n, _)| *n >= consumed);
        for (_, m) in &self.sent {
            match m {
                CMsg::Subscribe { id, .. } => {
                    live.insert(id.clone());
                }
                CMsg::Complete { id } => {
                    live.remove(id);
                }
                _ => {}
            }
        }
        self.client_live = live;
    }

    fn stop(&mut self, tick: usize) -> usize {
        self.sess.stop.store(true, Ordering::SeqCst);
        if let Some(w) = self.sess.root_waker.lock().unwrap().take() {
            w.wake();
        }
        tick
    }

    fn skip(&mut self, sym: Sym, why: &str) {
        self.skipped += 1;
        self.last_effective = false;
        self.sess.push(Ev::Skip { pos: self.idx, sym: sym.name().to_string(), why: why.to_string() });
    }

    /// What the client would send for `sym` (None: not applicable now).
    fn client_message(&self, sym: Sym) -> Option<(CMsg, Option<String>, &'static str)> {
        let gtws = self.cfg.proto == Proto::Gtws;
        let sub = if gtws { "subscribe" } else { "start" };
        let comp = if gtws { "complete" } else { "stop" };
        let subscribe = |id: &str, kind: OpKind| {
            let q = match kind {
                OpKind::Stream(k) => format!("subscription {{ {k} {{ inst seq }} }}"),
                OpKind::Query => "{ value }".to_string(),
                OpKind::Invalid => "subscription { nope }".to_string(),
            };
            let text = serde_json::json!({"type": sub, "id": id, "payload": {"query": q}}).to_string();
            (CMsg::Subscribe { id: id.to_string(), kind }, Some(text))
        };
        let complete = |id: &str| {
            let text = serde_json::json!({"type": comp, "id": id}).to_string();
            (CMsg::Complete { id: id.to_string() }, Some(text))
        };
        Some(match sym {
            Sym::Init => {
                let (m, t) = (CMsg::Init, Some(r#"{"type":"connection_init","payload":{}}"#.to_string()));
                (m, t, if self.sent_init { "sym_init_again" } else { "sym_init" })
            }
            Sym::SubA => {
                let (m, t) = subscribe("a", OpKind::Stream('a'));
                (m, t, "sym_subscribe_a")
            }
            Sym::SubB => {
                let (m, t) = subscribe("b", OpKind::Stream('b'));
                (m, t, "sym_subscribe_b")
            }
            Sym::SubDup => {
                // re-send the subscribe of the lowest id the client still considers live
                let id = self.client_live.iter().next()?.clone();
                let kind = match id.as_str() {
                    "a" => OpKind::Stream('a'),
                    "b" => OpKind::Stream('b'),
                    "q" => OpKind::Query,
                    _ => OpKind::Invalid,
                };
                let (m, t) = subscribe(&id, kind);
                (m, t, "sym_subscribe_dup")
            }
            Sym::SubQuery => {
                let (m, t) = subscribe("q", OpKind::Query);
                (m, t, "sym_subscribe_query")
            }
            Sym::SubInvalid => {
                let (m, t) = subscribe("v", OpKind::Invalid);
                (m, t, "sym_subscribe_invalid")
            }
            Sym::CompA => {
                let (m, t) = complete("a");
                (m, t, "sym_complete_a")
            }
            Sym::CompB => {
                let (m, t) = complete("b");
                (m, t, "sym_complete_b")
            }
            Sym::Ping => (CMsg::Ping, Some(r#"{"type":"ping"}"#.to_string()), "sym_ping"),
            Sym::Pong => (CMsg::Pong, Some(r#"{"type":"pong"}"#.to_string()), "sym_pong"),
            Sym::Terminate => {
                (CMsg::Terminate, Some(r#"{"type":"connection_terminate"}"#.to_string()), "sym_terminate")
            }
            Sym::BadJson => (CMsg::Invalid, Some(r#"{"type":"subscribe","id":"#.to_string()), "sym_invalid_json"),
            Sym::Unknown => (CMsg::Invalid, Some(r#"{"type":"bogus","id":"a"}"#.to_string()), "sym_unknown_type"),
            Sym::Eof => (CMsg::Eof, None, "sym_end_of_input"),
            _ => return None,
        })
    }

    /// Which known-finding feature (if any) a client message would trigger now.
    fn excluded_feature(&self, msg: &CMsg) -> Option<&'static str> {
        if self.cfg.proto != Proto::Gtws || self.force {
            return None;
        }
        match msg {
            CMsg::Subscribe { id, .. } => {
                if !self.sent_init && !self.feats.subscribe_before_ack {
                    Some("gtws_subscribe_before_ack")
                } else if self.client_live.contains(id) && !self.feats.duplicate_id {
                    Some("gtws_duplicate_id")
                } else {
                    None
                }
            }
            CMsg::Invalid if !self.feats.invalid_message => Some("gtws_invalid_message"),
            _ => None,
        }
    }

    /// Send one client symbol. Returns false when it was skipped.
    fn apply_client(&mut self, sym: Sym) -> bool {
        if self.sent_eof {
            self.skip(sym, "client already closed its side");
            return false;
        }
        let Some((msg, text, counter)) = self.client_message(sym) else {
            self.skip(sym, "no live id to reuse");
            return false;
        };
        if let Some(f) = self.excluded_feature(&msg) {
            self.skip(sym, &format!("generator feature {f} is excluded by a known finding"));
            return false;
        }
        match &msg {
            CMsg::Init => self.sent_init = true,
            CMsg::Eof => self.sent_eof = true,
            _ => {}
        }
        let n = self.next_msg;
        self.next_msg += 1;
        self.sent.push((n, msg.clone()));
        let name = match counter {
            "sym_init_again" => "init_again".to_string(),
            _ => sym.name().to_string(),
        };
        self.sess.push(Ev::In { pos: self.idx, n, sym: name, msg, text: text.clone() });
        // the monitor records the (state, symbol) pair at send time
        self.sync();
        let mut q = self.sess.inq.lock().unwrap();
        q.queue.push_back((n, text));
        if let Some(w) = q.waker.take() {
            w.wake();
        }
        drop(q);
        self.used.push(counter);
        self.last_effective = true;
        true
    }

    /// Open the environment gate of `sym` if it is armed.
    fn apply_env(&mut self, sym: Sym, armed: &[Armed]) -> Option<usize> {
        let find = |label: &str| armed.iter().position(|a| a.label == label);
        let (counter, hit): (&'static str, Option<usize>) = match sym {
            Sym::Timer => ("env_timer", find("timer")),
            Sym::InitOk => ("env_init_ok", find("init_ok")),
            Sym::InitFail => ("env_init_fail", find("init_fail")),
            Sym::YieldA | Sym::YieldB | Sym::EndA | Sym::EndB => {
                let (prefix, kind, counter) = match sym {
                    Sym::YieldA => ("yield#", 'a', "env_yield_a"),
                    Sym::YieldB => ("yield#", 'b', "env_yield_b"),
                    Sym::EndA => ("end#", 'a', "env_end_a"),
                    _ => ("end#", 'b', "env_end_b"),
                };
                let hit = self.next_inst_gate(prefix, kind, 0, armed);
                if let Some((i, inst)) = hit {
                    // should several instances of this kind be alive, all get the event
                    self.pending_multi = Some((prefix, kind, inst, sym.name().to_string()));
                    (counter, Some(i))
                } else {
                    (counter, None)
                }
            }
            _ => return None,
        };
        match hit {
            Some(i) => {
                self.sess.push(Ev::Env { pos: self.idx, sym: sym.name().to_string(), label: armed[i].label.clone() });
                self.used.push(counter);
                self.last_effective = true;
                Some(i)
            }
            None => {
                if sym == Sym::Timer {
                    self.timer_unarmed_skips += 1;
                }
                self.skip(sym, "gate not armed");
                None
            }
        }
    }

    fn next_inst_gate(&self, prefix: &str, kind: char, after: u32, armed: &[Armed]) -> Option<(usize, u32)> {
        let mut best: Option<(usize, u32)> = None;
        for (i, a) in armed.iter().enumerate() {
            if let Some(inst) = gate_inst(&a.label, prefix) {
                if inst > after && self.sess.kind_of(inst) == Some(kind) && best.map(|b| inst < b.1).unwrap_or(true) {
                    best = Some((i, inst));
                }
            }
        }
        best
    }

    fn armed_for(&self, sym: Sym, armed: &[Armed]) -> bool {
        match sym {
            Sym::Timer => armed.iter().any(|a| a.label == "timer"),
            Sym::InitOk => armed.iter().any(|a| a.label == "init_ok"),
            Sym::InitFail => armed.iter().any(|a| a.label == "init_fail"),
            Sym::YieldA => self.next_inst_gate("yield#", 'a', 0, armed).is_some(),
            Sym::YieldB => self.next_inst_gate("yield#", 'b', 0, armed).is_some(),
            Sym::EndA => self.next_inst_gate("end#", 'a', 0, armed).is_some(),
            Sym::EndB => self.next_inst_gate("end#", 'b', 0, armed).is_some(),
            _ => false,
        }
    }

    /// Adaptive random step: mostly symbols that can have an effect now, fatal
    /// ones rarely so that scripts get long.
    fn random_step(&mut self, armed: &[Armed]) -> Option<Step> {
        let alpha = alphabet(self.cfg.proto);
        let mut w: Vec<u32> = Vec::with_capacity(alpha.len());
        for &s in &alpha {
            let mut x: u32 = match s {
                Sym::Init => if self.sent_init { 1 } else { 30 },
                Sym::SubA | Sym::SubB => {
                    let id = if s == Sym::SubA { "a" } else { "b" };
                    if !self.sent_init { 1 } else if self.client_live.contains(id) { 2 } else { 10 }
                }
                Sym::SubDup => if self.client_live.is_empty() { 0 } else { 2 },
                Sym::SubQuery | Sym::SubInvalid => if self.sent_init { 3 } else { 1 },
                Sym::CompA => if self.client_live.contains("a") { 5 } else { 1 },
                Sym::CompB => if self.client_live.contains("b") { 5 } else { 1 },
                Sym::Ping => 3,
                Sym::Pong => 2,
                Sym::Terminate | Sym::BadJson | Sym::Unknown | Sym::Eof => 1,
                Sym::YieldA | Sym::YieldB => if self.armed_for(s, armed) { 12 } else { 0 },
                Sym::EndA | Sym::EndB => if self.armed_for(s, armed) { 4 } else { 0 },
                Sym::Timer => if self.armed_for(s, armed) { 1 } else { 0 },
                Sym::InitOk => if self.armed_for(s, armed) { 30 } else { 0 },
                Sym::InitFail => if self.armed_for(s, armed) { 1 } else { 0 },
            };
            if s.is_client() {
                if self.sent_eof {
                    x = 0;
                } else if let Some((m, _, _)) = self.client_message(s) {
                    if self.excluded_feature(&m).is_some() {
                        x = 0;
                    }
                }
            }
            w.push(x);
        }
        if w.iter().all(|&x| x == 0) {
            return None;
        }
        let Source::Random { rng, .. } = &mut self.source else { return None };
        let sym = alpha[rng.weighted(&w)];
        let glue = sym.is_client() && sym != Sym::Eof && rng.chance(1, 6);
        Some(Step { sym, glue })
    }

    fn next_step(&mut self, armed: &[Armed]) -> Option<Step> {
        let step = match &self.source {
            Source::Fixed(v) => v.get(self.idx).copied(),
            Source::Random { max_len, .. } => {
                if self.idx >= *max_len {
                    None
                } else {
                    self.random_step(armed)
                }
            }
        }?;
        self.idx += 1;
        self.sess.pos.store(self.idx, Ordering::SeqCst);
        self.applied_script.push(step);
        Some(step)
    }
}

impl Chooser for Driver {
    fn choose(&mut self, armed: &[Armed]) -> usize {
        let tick = armed.iter().position(|a| a.label == "tick").expect("ticker gate is always armed");
        self.sess.push(Ev::Quiescent { pos: self.idx });
        self.sync();
        loop {
            if self.monitor.over() || self.monitor.closed {
                // After a close the session must stay silent whatever the environment does. The Close frame is
                // still being flushed (gate "sink"): let the keep-alive interval elapse first, then let the
                // consumer poll again; W1 of the monitor judges anything that comes out.
                if !self.post_close_timer_done {
                    self.post_close_timer_done = true;
                    if let Some(i) = armed.iter().position(|a| a.label == "timer") {
                        self.sess.push(Ev::Env { pos: self.idx, sym: "timer".to_string(), label: "timer".to_string() });
                        self.used.push("env_timer_after_close");
                        return i;
                    }
                }
                if let Some(i) = armed.iter().position(|a| a.label == "sink") {
                    self.used.push("polls_after_close");
                    return i;
                }
                return self.stop(tick);
            }
            if let Some((prefix, kind, after, name)) = self.pending_multi.take() {
                if let Some((i, inst)) = self.next_inst_gate(prefix, kind, after, armed) {
                    self.pending_multi = Some((prefix, kind, inst, name.clone()));
                    self.sess.push(Ev::Env { pos: self.idx, sym: name, label: armed[i].label.clone() });
                    return i;
                }
            }
            let Some(step) = self.next_step(armed) else {
                return self.stop(tick);
            };
            if step.sym.is_client() {
                let mut cur = step;
                let mut any = false;
                loop {
                    any |= self.apply_client(cur.sym);
                    if !cur.glue {
                        break;
                    }
                    // glued: the next symbol happens before the server runs again —
                    // another client frame (a burst), or an environment event that
                    // becomes ready at the same instant as the queued frame(s)
                    let Some(nx) = self.next_step(armed) else { break };
                    if nx.sym.is_client() {
                        cur = nx;
                        continue;
                    }
                    if let Some(i) = self.apply_env(nx.sym, armed) {
                        return i;
                    }
                    break;
                }
                if any {
                    return tick;
                }
            } else if let Some(i) = self.apply_env(step.sym, armed) {
                return i;
            }
        }
    }
}

// ---------------------------------------------------------------- one session

pub struct SessionResult {
    pub cfg: Cfg,
    pub script: Vec<Step>,
    pub log: Vec<Ev>,
    pub monitor: Monitor,
    pub used: Vec<&'static str>,
    pub skipped: usize,
    /// the last symbol of the script took effect
    pub last_effective: bool,
    /// the session was still running when the script ended
    pub open_after: bool,
    pub timer_unarmed_skips: usize,
    pub sched_outcome: Option<vsched::Outcome>,
    pub panic: Option<String>,
}

pub fn run_session(schema: &WsSchema, cfg: Cfg, source: Source, feats: Features, force: bool) -> SessionResult {
    let sched = Sched::new();
    let sess = Arc::new(Sess {
        sched: sched.clone(),
        log: Mutex::new(Vec::with_capacity(64)),
        pos: AtomicUsize::new(0),
        next_inst: AtomicU32::new(0),
        kinds: Mutex::new(vec![]),
        inq: Mutex::new(InQ { queue: VecDeque::new(), waker: None, eof: false }),
        stop: AtomicBool::new(false),
        root_waker: Mutex::new(None),
        gated_init: cfg.gated_init,
    });
    let max_len = match &source {
        Source::Fixed(v) => v.len(),
        Source::Random { max_len, .. } => *max_len,
    };
    let mut driver = Driver {
        cfg,
        feats,
        force,
        sess: sess.clone(),
        source,
        idx: 0,
        applied_script: vec![],
        monitor: Monitor::new(cfg.proto),
        sent_init: false,
        sent_eof: false,
        client_live: BTreeSet::new(),
        sent: vec![],
        next_msg: 0,
        pending_multi: None,
        used: vec![],
        skipped: 0,
        last_effective: true,
        timer_unarmed_skips: 0,
        post_close_timer_done: false,
    };

    let result = vh_core::catch(|| {
        // ticker: a gate that is always armed, so the schedule can advance when a
        // script symbol is a client frame rather than a gate
        let s2 = sched.clone();
        sched.spawn(async move {
            loop {
                s2.gate("tick").await;
            }
        });
        let protocol = match cfg.proto {
            Proto::Gtws => WebSocketProtocols::GraphQLWS,
            Proto::Legacy => WebSocketProtocols::SubscriptionsTransportWS,
        };
        let mut data = Data::default();
        data.insert(SessH(sess.clone()));
        let s_init = sess.clone();
        let s_ping = sess.clone();
        let ws = WebSocket::new(schema.clone(), InputStream(sess.clone()), protocol)
            .connection_data(data)
            .on_connection_init(move |_payload| async move {
                s_init.push(Ev::InitCalled { pos: s_init.pos() });
                let ok = if s_init.gated_init {
                    Race2 { ok: s_init.sched.gate("init_ok"), fail: s_init.sched.gate("init_fail") }.await
                } else {
                    true
                };
                s_init.push(Ev::InitResolved { pos: s_init.pos(), ok });
                if ok { Ok(Data::default()) } else { Err(async_graphql::Error::new("init refused by the harness")) }
            })
            .on_ping(move |_data, payload| {
                let s = s_ping.clone();
                async move {
                    s.push(Ev::PingCalled { pos: s.pos() });
                    Ok(payload)
                }
            })
            .keepalive_timeout(VTimer(sess.clone()), Duration::from_secs(30));
        let root = Root { ws: Some(Box::pin(ws)), sess: sess.clone(), sink: None };
        sched.run(root, &mut driver, false, max_len * 3 + 16)
    });

    let (sched_outcome, panic) = match result {
        Ok((_, rep)) => (Some(rep.outcome), None),
        Err(p) => (None, Some(p)),
    };
    driver.sync();
    let log = std::mem::take(&mut *sess.log.lock().unwrap());
    let open_after = !driver.monitor.over();
    SessionResult {
        cfg,
        script: driver.applied_script,
        log,
        used: driver.used,
        skipped: driver.skipped,
        last_effective: driver.last_effective,
        open_after,
        timer_unarmed_skips: driver.timer_unarmed_skips,
        monitor: driver.monitor,
        sched_outcome,
        panic,
    }
}
