//! Pinned witnesses: one minimal schema per known defect class of the SDL
//! exporter. Each is exported under one fixed option set and judged by the
//! same monitor as every generated case. The signature is
//! `<finding-id>|<exact wrong observation>`: the listed wrong observation is a
//! KNOWN-FINDING, any other wrong observation is a VIOLATION, a correct one is
//! a NOTE (that is what happens once the defect is repaired).

use vh_core::Run;
use vh_core::serde_json::json;

use crate::c17::{CaseResult, check_sdl};
use crate::diff::Stats;
use crate::src::*;
use crate::stat;

enum Origin {
    Dynamic(SModel),
    Static(&'static str),
}

struct Witness {
    id: &'static str,
    origin: Origin,
    opts: Opts,
    /// SDL lines containing this text are quoted in the observation
    marker: &'static str,
}

fn ty(name: &str, kind: SKind) -> SType {
    SType { name: name.into(), description: None, kind, directives: vec![], fed: Fed::default() }
}
fn fld(name: &str, t: &str) -> SField {
    SField { name: name.into(), ty: t.into(), ..Default::default() }
}
fn query(fields: Vec<SField>) -> SType {
    ty("Query", SKind::Object { implements: vec![], fields })
}
fn model(types: Vec<SType>) -> SModel {
    SModel { query: "Query".into(), types, ..Default::default() }
}
fn described_query(text: &str) -> SModel {
    let mut q = query(vec![fld("a", "Int")]);
    q.description = Some(text.to_string());
    model(vec![q])
}

fn witnesses() -> Vec<Witness> {
    let d = Opts::default_options();
    vec![
        Witness {
            id: "C17-deprecation-reason-quote",
            origin: Origin::Dynamic(model(vec![
                ty(
                    "Animal",
                    SKind::Enum {
                        values: vec![
                            SEnumValue { name: "DOG".into(), ..Default::default() },
                            SEnumValue {
                                name: "CAT".into(),
                                dep: Dep::yes(Some("use \"dog\" instead")),
                                ..Default::default()
                            },
                        ],
                    },
                ),
                query(vec![fld("pet", "Animal")]),
            ])),
            opts: d,
            marker: "CAT",
        },
        Witness {
            id: "C17-interface-directives-before-implements",
            origin: Origin::Static("interface_directive_implements"),
            opts: d,
            marker: "interface Resource",
        },
        Witness {
            id: "C17-description-triple-quote",
            origin: Origin::Dynamic(described_query("a \"\"\" b")),
            opts: d,
            marker: "a \"\"\" b",
        },
        Witness {
            id: "C17-description-backslash-single-line",
            origin: Origin::Dynamic(described_query("C:\\dir")),
            opts: Opts { prefer_single_line_descriptions: true, ..d },
            marker: "C:\\dir",
        },
        Witness {
            id: "C17-description-edge-whitespace",
            origin: Origin::Dynamic(described_query("  indented")),
            opts: d,
            marker: "indented",
        },
        Witness {
            id: "C17-description-carriage-return",
            origin: Origin::Dynamic(described_query("a\rb")),
            opts: d,
            marker: "\r",
        },
        Witness {
            id: "C17-dynamic-interface-implements",
            origin: Origin::Dynamic(model(vec![
                ty("Node", SKind::Interface { implements: vec![], fields: vec![fld("id", "ID")] }),
                ty(
                    "Resource",
                    SKind::Interface { implements: vec!["Node".into()], fields: vec![fld("id", "ID"), fld("url", "String")] },
                ),
                ty(
                    "Doc",
                    SKind::Object {
                        implements: vec!["Node".into(), "Resource".into()],
                        fields: vec![fld("id", "ID"), fld("url", "String")],
                    },
                ),
                query(vec![fld("node", "Node")]),
            ])),
            opts: d,
            marker: "interface Resource",
        },
        Witness {
            id: "C17-federation-tag-backslash",
            origin: Origin::Dynamic({
                let mut q = query(vec![fld("a", "Int")]);
                q.fed.tags = vec!["ends\\".into()];
                model(vec![q])
            }),
            opts: Opts { federation: true, ..d },
            marker: "type Query",
        },
        Witness {
            id: "C17-extension-with-description",
            origin: Origin::Dynamic({
                let mut t = ty("Doc", SKind::Object { implements: vec![], fields: vec![fld("id", "ID")] });
                t.description = Some("An extension.".into());
                t.fed.extends = true;
                model(vec![t, query(vec![fld("doc", "Doc")])])
            }),
            opts: Opts { federation: true, ..d },
            marker: "type Doc",
        },
        Witness {
            id: "C17-directive-definition-argument-description",
            origin: Origin::Static("directive_definition_argument_description"),
            opts: d,
            marker: "directive @audited",
        },
        Witness {
            id: "C17-directive-definition-argument-deprecation",
            origin: Origin::Static("directive_definition_argument_deprecation"),
            opts: d,
            marker: "directive @audited",
        },
    ]
}

/// The exact observation on a witness (positions are left out on purpose:
/// they are not part of what is wrong).
fn observe(res: &CaseResult, marker: &str) -> (bool, String) {
    let focus: Vec<String> = res.sdl.split('\n').filter(|l| l.contains(marker)).map(|l| l.trim().to_string()).collect();
    let focus = focus.join(" / ").replace('\r', "<CR>");
    let short = |e: &str| e.split(" at ").next().unwrap_or("").to_string();
    let verdict = if let Some(e) = &res.r2_error {
        format!("not a valid type-system document (R2: {})", short(e))
    } else if let Some(d) = res.r2_diffs.first() {
        d.line()
    } else if res.crate_error.is_some() {
        "the crate's own parse_schema rejects the SDL".to_string()
    } else if let Some(d) = res.crate_diffs.first() {
        format!("through the crate's own parser: {}", d.line())
    } else {
        return (true, focus);
    };
    (false, format!("{verdict} | SDL: {focus}"))
}

pub fn run_all(run: &Run) {
    let fam = stat::family();
    let mut st = Stats::default();
    for w in witnesses() {
        run.eval();
        let (model, sdl, origin_json) = match &w.origin {
            Origin::Dynamic(m) => {
                let schema = match build_dynamic(m) {
                    Ok(s) => s,
                    Err(e) => {
                        run.inconclusive(&format!("witness {}: schema does not build: {e}", w.id));
                        continue;
                    }
                };
                let sdl = match vh_core::catch(|| schema.sdl_with_options(w.opts.to_sdl())) {
                    Ok(s) => s,
                    Err(p) => {
                        run.violation(
                            &format!("{}|panic", w.id),
                            &format!("witness {}: sdl_with_options panicked: {p}", w.id),
                            json!({"origin": {"kind": "dynamic", "model": m}, "options": w.opts}),
                        );
                        continue;
                    }
                };
                (m.clone(), sdl, json!({"kind": "dynamic", "model": m}))
            }
            Origin::Static(name) => {
                let Some(s) = fam.iter().find(|s| s.name == *name) else {
                    run.inconclusive(&format!("witness {}: no static schema {name}", w.id));
                    continue;
                };
                (s.model.clone(), (s.export)(&w.opts), json!({"kind": "static", "name": name}))
            }
        };
        run.count("pinned_witnesses_run", 1);
        let res = check_sdl(&model, &w.opts, sdl, &mut st);
        let (ok, obs) = observe(&res, w.marker);
        if ok {
            run.note(&format!(
                "witness {} exports SDL that both parsers read back exactly as the source description ({obs})",
                w.id
            ));
            run.count("pinned_witnesses_correct", 1);
        } else {
            run.violation(
                &format!("{}|{obs}", w.id),
                &format!("witness {}: {obs}", w.id),
                json!({"origin": origin_json, "options": w.opts, "finding": obs, "sdl": res.sdl}),
            );
        }
    }
    // the witnesses' comparisons are not part of the workload counters
    run.count("pinned_witness_sdl_exported", st.0.get("sdl_exported").copied().unwrap_or(0));
}
