//! vh-sdl: C17.
mod c17;
mod diff;
mod nm;
mod src;
mod stat;
mod witness;

fn main() {
    let id = std::env::args().nth(1).unwrap_or_default();
    match id.as_str() {
        "C17" => c17::main(),
        other => {
            println!("INCONCLUSIVE property={other} reason=vh-sdl has no check for this property");
            std::process::exit(2);
        }
    }
}
