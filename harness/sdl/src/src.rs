//! The SOURCE description a schema is built from (the oracle's left-hand
//! side): every named type with its kind, fields, arguments, types, default
//! values, enum values, union members, interfaces, deprecations, descriptions,
//! applied directives and directive definitions — plus the export options.
//!
//! Generated descriptions reuse the structural skeleton of G1
//! (`vh_model::gen_type_system`) and decorate it here; nothing in `vh_model`
//! is changed. Serialisable, so a violation's replay file holds the complete
//! description.

use async_graphql::SDLExportOptions;
use async_graphql::dynamic as d;
use serde::{Deserialize, Serialize};
use vh_core::Rng;
use vh_model::{Kind, ScalarKind, TypeSystem, Val};

// ------------------------------------------------------------------ options

#[derive(Clone, Copy, Debug, Serialize, Deserialize, PartialEq, Eq, Hash, PartialOrd, Ord)]
pub struct Opts {
    pub sorted_fields: bool,
    pub sorted_arguments: bool,
    pub sorted_enum_items: bool,
    pub federation: bool,
    pub prefer_single_line_descriptions: bool,
    pub include_specified_by: bool,
    pub compose_directive: bool,
    pub use_space_ident: bool,
    pub indent_width: u8,
}

pub const INDENT_WIDTHS: [u8; 3] = [0, 2, 8];

impl Opts {
    pub fn from_index(i: usize) -> Opts {
        let b = |k: usize| (i >> k) & 1 == 1;
        Opts {
            sorted_fields: b(0),
            sorted_arguments: b(1),
            sorted_enum_items: b(2),
            federation: b(3),
            prefer_single_line_descriptions: b(4),
            include_specified_by: b(5),
            compose_directive: b(6),
            use_space_ident: b(7),
            indent_width: INDENT_WIDTHS[(i >> 8) % 3],
        }
    }
    /// all 2^8 boolean combinations x 3 indent widths
    pub const COUNT: usize = 256 * 3;

    pub fn default_options() -> Opts {
        Opts {
            sorted_fields: false,
            sorted_arguments: false,
            sorted_enum_items: false,
            federation: false,
            prefer_single_line_descriptions: false,
            include_specified_by: false,
            compose_directive: false,
            use_space_ident: false,
            indent_width: 2,
        }
    }

    pub fn to_sdl(&self) -> SDLExportOptions {
        let mut o = SDLExportOptions::new();
        if self.sorted_fields {
            o = o.sorted_fields();
        }
        if self.sorted_arguments {
            o = o.sorted_arguments();
        }
        if self.sorted_enum_items {
            o = o.sorted_enum_items();
        }
        if self.federation {
            o = o.federation();
        }
        if self.prefer_single_line_descriptions {
            o = o.prefer_single_line_descriptions();
        }
        if self.include_specified_by {
            o = o.include_specified_by();
        }
        if self.compose_directive {
            o = o.compose_directive();
        }
        if self.use_space_ident {
            o = o.use_space_ident();
        }
        o.indent_width(self.indent_width)
    }

    pub fn tag(&self) -> String {
        let mut s = String::new();
        for (on, c) in [
            (self.sorted_fields, 'F'),
            (self.sorted_arguments, 'A'),
            (self.sorted_enum_items, 'E'),
            (self.federation, 'D'),
            (self.prefer_single_line_descriptions, 'L'),
            (self.include_specified_by, 'S'),
            (self.compose_directive, 'C'),
            (self.use_space_ident, 'I'),
        ] {
            s.push(if on { c } else { '-' });
        }
        s.push_str(&self.indent_width.to_string());
        s
    }
}

// -------------------------------------------------------------- description

#[derive(Clone, Debug, Serialize, Deserialize, PartialEq)]
pub enum SVal {
    Null,
    Int(i64),
    Float(f64),
    Str(String),
    Bool(bool),
    Enum(String),
    List(Vec<SVal>),
    Obj(Vec<(String, SVal)>),
}

impl SVal {
    pub fn show(&self) -> String {
        match self {
            SVal::Null => "null".into(),
            SVal::Int(i) => format!("int {i}"),
            SVal::Float(f) => format!("float {f:?}"),
            SVal::Str(s) => format!("string {s:?}"),
            SVal::Bool(b) => format!("bool {b}"),
            SVal::Enum(e) => format!("enum {e}"),
            SVal::List(xs) => format!("[{}]", xs.iter().map(|x| x.show()).collect::<Vec<_>>().join(", ")),
            SVal::Obj(m) => {
                format!("{{{}}}", m.iter().map(|(k, v)| format!("{k}: {}", v.show())).collect::<Vec<_>>().join(", "))
            }
        }
    }
    pub fn to_crate(&self) -> async_graphql::Value {
        use async_graphql::Value as V;
        match self {
            SVal::Null => V::Null,
            SVal::Int(i) => V::Number((*i).into()),
            SVal::Float(f) => V::Number(async_graphql_value::Number::from_f64(*f).expect("finite")),
            SVal::Str(s) => V::String(s.clone()),
            SVal::Bool(b) => V::Boolean(*b),
            SVal::Enum(e) => V::Enum(async_graphql::Name::new(e)),
            SVal::List(xs) => V::List(xs.iter().map(|x| x.to_crate()).collect()),
            SVal::Obj(m) => V::Object(m.iter().map(|(k, v)| (async_graphql::Name::new(k), v.to_crate())).collect()),
        }
    }
    pub fn from_model(v: &Val) -> SVal {
        match v {
            Val::Null => SVal::Null,
            Val::Int(i) => SVal::Int(*i),
            Val::Float(f) => SVal::Float(*f),
            Val::Str(s) => SVal::Str(s.clone()),
            Val::Bool(b) => SVal::Bool(*b),
            Val::Enum(e) => SVal::Enum(e.clone()),
            Val::List(xs) => SVal::List(xs.iter().map(SVal::from_model).collect()),
            Val::Obj(m) => SVal::Obj(m.iter().map(|(k, v)| (k.clone(), SVal::from_model(v))).collect()),
            Val::Var(v) => SVal::Enum(format!("var_{v}")),
        }
    }
}

/// Deprecation of a field, argument, input field or enum value.
#[derive(Clone, Debug, Serialize, Deserialize, PartialEq, Default)]
pub enum Dep {
    #[default]
    No,
    Yes {
        reason: Option<String>,
    },
}

impl Dep {
    pub fn is_some(&self) -> bool {
        !matches!(self, Dep::No)
    }
    /// `None`: not deprecated. `Some(None)`: deprecated without a reason.
    pub fn get(&self) -> Option<Option<&str>> {
        match self {
            Dep::No => None,
            Dep::Yes { reason } => Some(reason.as_deref()),
        }
    }
    pub fn yes(reason: Option<&str>) -> Dep {
        Dep::Yes { reason: reason.map(|s| s.to_string()) }
    }
}

#[derive(Clone, Debug, Serialize, Deserialize, PartialEq, Default)]
pub struct SDir {
    pub name: String,
    pub args: Vec<(String, SVal)>,
}

/// Federation attributes (only printed in federation mode; never compared,
/// but they must not break the syntax).
#[derive(Clone, Debug, Serialize, Deserialize, PartialEq, Default)]
pub struct Fed {
    #[serde(default)]
    pub tags: Vec<String>,
    #[serde(default)]
    pub inaccessible: bool,
    #[serde(default)]
    pub shareable: bool,
    #[serde(default)]
    pub external: bool,
    #[serde(default)]
    pub requires: Option<String>,
    #[serde(default)]
    pub provides: Option<String>,
    #[serde(default)]
    pub override_from: Option<String>,
    #[serde(default)]
    pub keys: Vec<String>,
    #[serde(default)]
    pub extends: bool,
    #[serde(default)]
    pub interface_object: bool,
}

#[derive(Clone, Debug, Serialize, Deserialize, PartialEq, Default)]
pub struct SInput {
    pub name: String,
    pub ty: String,
    #[serde(default)]
    pub description: Option<String>,
    #[serde(default)]
    pub default: Option<SVal>,
    #[serde(default)]
    pub dep: Dep,
    #[serde(default)]
    pub directives: Vec<SDir>,
    #[serde(default)]
    pub fed: Fed,
}

#[derive(Clone, Debug, Serialize, Deserialize, PartialEq, Default)]
pub struct SField {
    pub name: String,
    pub ty: String,
    #[serde(default)]
    pub description: Option<String>,
    #[serde(default)]
    pub args: Vec<SInput>,
    #[serde(default)]
    pub dep: Dep,
    #[serde(default)]
    pub directives: Vec<SDir>,
    #[serde(default)]
    pub fed: Fed,
}

#[derive(Clone, Debug, Serialize, Deserialize, PartialEq, Default)]
pub struct SEnumValue {
    pub name: String,
    #[serde(default)]
    pub description: Option<String>,
    #[serde(default)]
    pub dep: Dep,
    #[serde(default)]
    pub directives: Vec<SDir>,
    #[serde(default)]
    pub fed: Fed,
}

#[derive(Clone, Debug, Serialize, Deserialize, PartialEq)]
pub enum SKind {
    Scalar { specified_by_url: Option<String> },
    Object { implements: Vec<String>, fields: Vec<SField> },
    Interface { implements: Vec<String>, fields: Vec<SField> },
    Union { members: Vec<String> },
    Enum { values: Vec<SEnumValue> },
    Input { fields: Vec<SInput>, oneof: bool },
}

impl SKind {
    pub fn word(&self) -> &'static str {
        match self {
            SKind::Scalar { .. } => "scalar",
            SKind::Object { .. } => "object",
            SKind::Interface { .. } => "interface",
            SKind::Union { .. } => "union",
            SKind::Enum { .. } => "enum",
            SKind::Input { .. } => "input",
        }
    }
}

#[derive(Clone, Debug, Serialize, Deserialize, PartialEq)]
pub struct SType {
    pub name: String,
    #[serde(default)]
    pub description: Option<String>,
    pub kind: SKind,
    #[serde(default)]
    pub directives: Vec<SDir>,
    #[serde(default)]
    pub fed: Fed,
}

#[derive(Clone, Debug, Serialize, Deserialize, PartialEq, Default)]
pub struct SDirDef {
    pub name: String,
    #[serde(default)]
    pub description: Option<String>,
    #[serde(default)]
    pub args: Vec<SInput>,
    #[serde(default)]
    pub repeatable: bool,
    pub locations: Vec<String>,
    #[serde(default)]
    pub composable: Option<String>,
}

#[derive(Clone, Debug, Serialize, Deserialize, PartialEq, Default)]
pub struct SModel {
    pub types: Vec<SType>,
    #[serde(default)]
    pub directive_defs: Vec<SDirDef>,
    pub query: String,
    #[serde(default)]
    pub mutation: Option<String>,
    #[serde(default)]
    pub subscription: Option<String>,
    /// the schema has the federation types (`_Any`, `_Entity`, `_Service`,
    /// `Query._service`, `Query._entities`)
    #[serde(default)]
    pub federation_enabled: bool,
    /// the subscription root is kept in federation SDL
    #[serde(default)]
    pub federation_subscription: bool,
}

impl SModel {
    /// number of descriptions / deprecations / defaults / applied directives
    pub fn decorations(&self) -> (usize, usize, usize, usize) {
        let (mut de, mut dp, mut df, mut di) = (0, 0, 0, 0);
        let inp = |i: &SInput, de: &mut usize, dp: &mut usize, df: &mut usize, di: &mut usize| {
            *de += i.description.is_some() as usize;
            *dp += i.dep.is_some() as usize;
            *df += i.default.is_some() as usize;
            *di += i.directives.len();
        };
        for t in &self.types {
            de += t.description.is_some() as usize;
            di += t.directives.len();
            match &t.kind {
                SKind::Object { fields, .. } | SKind::Interface { fields, .. } => {
                    for f in fields {
                        de += f.description.is_some() as usize;
                        dp += f.dep.is_some() as usize;
                        di += f.directives.len();
                        for a in &f.args {
                            inp(a, &mut de, &mut dp, &mut df, &mut di);
                        }
                    }
                }
                SKind::Enum { values } => {
                    for v in values {
                        de += v.description.is_some() as usize;
                        dp += v.dep.is_some() as usize;
                        di += v.directives.len();
                    }
                }
                SKind::Input { fields, .. } => {
                    for a in fields {
                        inp(a, &mut de, &mut dp, &mut df, &mut di);
                    }
                }
                _ => {}
            }
        }
        (de, dp, df, di)
    }
}

// ---------------------------------------------------------------- generator

/// Generator features. Each one names a class of source text / structure for
/// which async-graphql may be known to print wrong SDL; a class is switched
/// off only while a *known* finding excludes it (`Run::feature`).
#[derive(Clone, Debug)]
pub struct Feat {
    /// description containing `"""`
    pub desc_triple_quote: bool,
    /// single-line description containing a backslash
    pub desc_backslash_single_line: bool,
    /// description with leading/trailing blank lines, whitespace only, or every line indented
    pub desc_edge_whitespace: bool,
    /// description containing a carriage return
    pub desc_carriage_return: bool,
    /// description containing a C0 control character other than TAB/LF/CR
    pub desc_control_char: bool,
    /// deprecation reason containing `"`
    pub reason_quote: bool,
    /// deprecation reason containing a control character the printer has no escape for
    pub reason_control_char: bool,
    /// dynamic `interface B implements A`
    pub dyn_interface_implements: bool,
    /// an interface that implements an interface and carries a directive (or federation attribute)
    pub interface_directive_with_implements: bool,
    /// federation `@tag` text containing a backslash
    pub fed_tag_backslash: bool,
    /// `extends` object/interface that also has a description (federation mode)
    pub fed_extends_with_description: bool,
}

pub const FEATURE_NAMES: [&str; 13] = [
    "desc_triple_quote",
    "desc_backslash_single_line",
    "desc_edge_whitespace",
    "desc_carriage_return",
    "desc_control_char",
    "reason_quote",
    "reason_control_char",
    "dyn_interface_implements",
    "interface_directive_with_implements",
    "fed_tag_backslash",
    "fed_extends_with_description",
    "directive_definition_argument_description",
    "directive_definition_argument_deprecation",
];

impl Feat {
    pub fn from(f: impl Fn(&str) -> bool) -> Feat {
        Feat {
            desc_triple_quote: f("desc_triple_quote"),
            desc_backslash_single_line: f("desc_backslash_single_line"),
            desc_edge_whitespace: f("desc_edge_whitespace"),
            desc_carriage_return: f("desc_carriage_return"),
            desc_control_char: f("desc_control_char"),
            reason_quote: f("reason_quote"),
            reason_control_char: f("reason_control_char"),
            dyn_interface_implements: f("dyn_interface_implements"),
            interface_directive_with_implements: f("interface_directive_with_implements"),
            fed_tag_backslash: f("fed_tag_backslash"),
            fed_extends_with_description: f("fed_extends_with_description"),
        }
    }
}

const WORDS: [&str; 40] = [
    "the", "a", "value", "of", "this", "field", "is", "returned", "when", "x", "Dog", "cat's", "100%", "naïve",
    "日本語", "😀", "Ünïcödé", "#not-a-comment", "{braces}", "[list]", "(parens)", "@at", "$var", "a,b", "key:value",
    "say \"hi\"", "\"\"", "it's", "a&b", "pipe|pipe", "=", "!", "...", "tab\there", "two  spaces", "\u{2028}", "\u{feff}",
    "\u{7f}", "é", "end.",
];

fn words(r: &mut Rng, lo: usize, hi: usize) -> String {
    let n = lo + r.below(hi - lo + 1);
    (0..n).map(|_| *r.pick(&WORDS)).collect::<Vec<_>>().join(" ")
}

/// Classification of a description text (what a block string or a quoted
/// string has to be able to carry). A text can be in several classes.
pub fn desc_classes(s: &str) -> Vec<&'static str> {
    let mut v = vec![];
    if s.contains("\"\"\"") {
        v.push("desc_triple_quote");
    }
    if s.contains('\\') && !s.contains('\n') {
        v.push("desc_backslash_single_line");
    }
    if s.contains('\r') {
        v.push("desc_carriage_return");
    }
    if s.chars().any(|c| (c as u32) < 0x20 && !matches!(c, '\t' | '\n' | '\r')) {
        v.push("desc_control_char");
    }
    // what BlockStringValue() removes: leading and trailing blank lines, and the
    // common indentation of all lines (the printer starts the text on its own line)
    let lines: Vec<&str> = s.split('\n').collect();
    let blank = |l: &str| l.chars().all(|c| c == ' ' || c == '\t');
    let nonblank: Vec<&&str> = lines.iter().filter(|l| !blank(l)).collect();
    let min_indent =
        nonblank.iter().map(|l| l.chars().take_while(|c| *c == ' ' || *c == '\t').count()).min().unwrap_or(0);
    if !s.is_empty() && (blank(lines[0]) || blank(lines[lines.len() - 1]) || min_indent > 0) {
        v.push("desc_edge_whitespace");
    }
    v
}

fn plain_description(r: &mut Rng) -> String {
    if r.chance(1, 12) {
        return String::new();
    }
    let n = 1 + r.below(4);
    let mut lines: Vec<String> = vec![];
    for i in 0..n {
        let mut l = words(r, 1, 6);
        if i > 0 && i + 1 < n && r.chance(1, 5) {
            l = String::new(); // interior blank line
        } else if i > 0 && r.chance(1, 4) {
            l = format!("{}{}", *r.pick(&["  ", "\t", "    ", " \t"]), l); // indented continuation line
        }
        if r.chance(1, 6) {
            l.push_str(*r.pick(&["  ", "\t", "\""])); // trailing blanks / a trailing quote
        }
        lines.push(l);
    }
    if n > 1 && r.chance(1, 4) {
        // a backslash is harmless in a multi-line (always block) description
        let k = r.below(n);
        if !lines[k].is_empty() {
            lines[k].push_str(*r.pick(&[" C:\\dir", " \\n", " \\", " \\u0041"]));
        }
    }
    // first and last line carry text and start at column 0 (so the text is
    // exactly representable by the block form the printer chooses)
    let last = lines.len() - 1;
    if lines[last].trim_matches([' ', '\t']).is_empty() {
        lines[last] = "end".into();
    }
    let mut s = lines.join("\n");
    while s.contains("\"\"\"") {
        s = s.replace("\"\"\"", "\"\" \"");
    }
    debug_assert!(desc_classes(&s).is_empty(), "{s:?}");
    s
}

/// A description text. `class` is the hostile class it was drawn from ("plain" if none).
pub fn gen_description(r: &mut Rng, f: &Feat) -> (String, &'static str) {
    let w = r.below(20);
    let (s, class) = match w {
        0 | 1 if f.desc_triple_quote => (
            // a backslash in front of the quotes only when single-line backslashes are admitted as well
            r.pick(if f.desc_backslash_single_line {
                &["\\\"\"\"", "a \\\"\"\" b", "\"\"\"", "say \"\"\"\""][..]
            } else {
                &[
                    "\"\"\"",
                    "a \"\"\" b",
                    "say \"\"\"\"",
                    "line one\nhas \"\"\" inside\nend",
                    "line one\nhas \\\"\"\" inside\nend",
                    "\"\"\"\"\"\"",
                    "\"\"\"\"\"",
                ][..]
            })
            .to_string(),
            "desc_triple_quote",
        ),
        2 | 3 if f.desc_backslash_single_line => (
            r.pick(&["a\\", "C:\\dir\\file", "literal \\n here", "\\u0041", "\\\"", "\\\\", "regex \\d+", "\\"])
                .to_string(),
            "desc_backslash_single_line",
        ),
        4 | 5 if f.desc_edge_whitespace => (
            r.pick(&[
                "\nleading blank line",
                "trailing newline\n",
                "  every line\n  is indented",
                "  indented",
                "\tindented by a tab",
                " ",
                "\n",
                "\t",
                "a\n\n",
                "\n\na\n\nb\n\n",
                "   \nfirst line blank",
                "last line blank\n   ",
                "  a\n \n  b",
            ])
            .to_string(),
            "desc_edge_whitespace",
        ),
        6 if f.desc_carriage_return => {
            (r.pick(&["a\rb", "a\r\nb", "x\r", "\ry", "one\r\ntwo\r\nthree"]).to_string(), "desc_carriage_return")
        }
        7 if f.desc_control_char => (
            r.pick(&["nul \u{0} byte", "bell\u{7}", "\u{8}", "form\u{c}feed", "esc \u{1b}[0m", "a\u{1}\nb"])
                .to_string(),
            "desc_control_char",
        ),
        _ => (plain_description(r), "plain"),
    };
    (s, class)
}

pub fn gen_reason(r: &mut Rng, f: &Feat) -> (String, &'static str) {
    match r.below(10) {
        0 | 1 if f.reason_quote => (
            r.pick(&["use \"dog\" instead", "\"", "\"\"\"", "ends with \"", "\\\"", "a \" b \\ c"]).to_string(),
            "reason_quote",
        ),
        2 if f.reason_control_char => {
            (r.pick(&["nul \u{0}", "\u{1}", "esc \u{1b}", "bell \u{7} rings"]).to_string(), "reason_control_char")
        }
        3 | 4 => (
            r.pick(&[
                "back\\slash",
                "C:\\new\\table",
                "line one\nline two",
                "tab\there",
                "cr\rlf\r\n",
                "\u{8}\u{c}",
                "",
                " ",
                "ends with \\",
                "\\u0041",
                "it's 100% naïve 日本語 😀 \u{2028}",
                "\u{7f}\u{80}\u{9f}",
            ])
            .to_string(),
            "plain",
        ),
        _ => {
            let s: String = words(r, 1, 5).chars().filter(|c| *c != '"').collect();
            (s, "plain")
        }
    }
}

/// Arbitrary string for default values and directive arguments (the value
/// printer has to escape whatever is needed).
pub fn gen_hostile_string(r: &mut Rng) -> String {
    let len = match r.below(8) {
        0 => 0,
        1..=5 => r.below(6) + 1,
        _ => r.below(20) + 1,
    };
    let mut s = String::new();
    for _ in 0..len {
        let c = match r.below(14) {
            0 => '"',
            1 => '\\',
            2 => *r.pick(&['\r', '\n', '\t', '\u{8}', '\u{c}', '/']),
            3 => char::from_u32(r.below(0x20) as u32).unwrap(),
            4 => *r.pick(&['\u{7f}', '\u{80}', '\u{85}', '\u{9f}', '\u{1b}', '\u{0}']),
            5 => *r.pick(&['\u{2028}', '\u{2029}', '\u{feff}', '\u{a0}', '\u{200b}']),
            6 => char::from_u32(0x80 + r.below(0x780) as u32).unwrap_or('é'),
            7 => char::from_u32(0x800 + r.below(0xD000) as u32).unwrap_or('中'),
            8 => char::from_u32(0x1_0000 + r.below(0xF_0000) as u32).unwrap_or('😀'),
            9 => *r.pick(&['u', 'n', 'x', '{', '}', '$', '#', ',', '\'']),
            _ => (0x20u8 + r.below(0x5f) as u8) as char,
        };
        s.push(c);
    }
    if r.chance(1, 10) {
        s.push_str("\"\"\"");
    }
    s
}

fn gen_dir_value(r: &mut Rng, depth: u32) -> SVal {
    if depth > 0 && r.chance(1, 4) {
        if r.bool() {
            return SVal::List((0..r.below(3)).map(|_| gen_dir_value(r, depth - 1)).collect());
        }
        let n = r.below(3);
        return SVal::Obj((0..n).map(|i| (format!("k{i}"), gen_dir_value(r, depth - 1))).collect());
    }
    match r.below(8) {
        0 => SVal::Null,
        1 => SVal::Int(*r.pick(&[0, 1, -1, 42, i32::MAX as i64, i64::MIN, i64::MAX])),
        2 => SVal::Float(*r.pick(&[0.5, -2.25, 1e21, 1.5e-7, 3.0, -0.0, 1e300])),
        3 => SVal::Bool(r.bool()),
        4 => SVal::Enum(r.pick(&["RED", "green", "_x1", "Nullish", "TRUE_VALUE"]).to_string()),
        _ => SVal::Str(gen_hostile_string(r)),
    }
}

fn gen_dirs(r: &mut Rng, p: (u32, u32)) -> Vec<SDir> {
    let mut out = vec![];
    if !r.chance(p.0, p.1) {
        return out;
    }
    let n = 1 + r.below(2);
    for _ in 0..n {
        let name = r.pick(&["d0", "d1", "audit", "meta_Data", "x"]).to_string();
        let na = r.below(3);
        let args = (0..na).map(|i| (["a", "b", "c"][i].to_string(), gen_dir_value(r, 2))).collect();
        out.push(SDir { name, args });
    }
    out
}

fn gen_tags(r: &mut Rng, f: &Feat) -> Vec<String> {
    if !r.chance(1, 6) {
        return vec![];
    }
    let n = 1 + r.below(2);
    (0..n)
        .map(|_| {
            if f.fed_tag_backslash && r.chance(1, 4) {
                r.pick(&["back\\slash", "ends\\", "\\\""]).to_string()
            } else {
                r.pick(&["team-a", "public", "say \"hi\"", "naïve 😀", "a b", ""]).to_string()
            }
        })
        .collect()
}

fn gen_fed(r: &mut Rng, f: &Feat) -> Fed {
    Fed { tags: gen_tags(r, f), inaccessible: r.chance(1, 10), ..Default::default() }
}

fn maybe_desc(r: &mut Rng, f: &Feat, p: (u32, u32), classes: &mut Vec<&'static str>) -> Option<String> {
    if !r.chance(p.0, p.1) {
        return None;
    }
    let (s, c) = gen_description(r, f);
    classes.push(c);
    Some(s)
}

fn maybe_dep(r: &mut Rng, f: &Feat, p: (u32, u32), classes: &mut Vec<&'static str>) -> Dep {
    if !r.chance(p.0, p.1) {
        return Dep::No;
    }
    if r.chance(1, 4) {
        classes.push("reason_absent");
        return Dep::Yes { reason: None };
    }
    let (s, c) = gen_reason(r, f);
    classes.push(if c == "plain" { "reason_plain" } else { c });
    Dep::Yes { reason: Some(s) }
}

/// What the generator produced besides the model: classes of text it used.
#[derive(Clone, Debug, Default)]
pub struct GenInfo {
    pub text_classes: Vec<&'static str>,
}

fn decorate_input(
    r: &mut Rng,
    f: &Feat,
    ts: &TypeSystem,
    a: &vh_model::ArgDef,
    oneof: bool,
    info: &mut GenInfo,
) -> SInput {
    let mut default = a.default.as_ref().map(SVal::from_model);
    // String-typed positions get arbitrary default text
    let base_is_string = matches!(ts.kind(a.ty.name()), Kind::Scalar(ScalarKind::String | ScalarKind::ID));
    if !oneof && base_is_string && a.ty.list_depth() == 0 && r.chance(1, 2) {
        default = Some(SVal::Str(gen_hostile_string(r)));
        info.text_classes.push("default_hostile_string");
    } else if let Some(d) = &mut default {
        replace_strings(r, d, info);
    }
    // only optional inputs may be deprecated
    let optional = !a.ty.is_nonnull() || default.is_some();
    SInput {
        name: a.name.clone(),
        ty: a.ty.to_string(),
        description: maybe_desc(r, f, (1, 2), &mut info.text_classes),
        default,
        dep: if optional && !oneof { maybe_dep(r, f, (1, 4), &mut info.text_classes) } else { Dep::No },
        directives: gen_dirs(r, (1, 6)),
        fed: gen_fed(r, f),
    }
}

fn replace_strings(r: &mut Rng, v: &mut SVal, info: &mut GenInfo) {
    match v {
        SVal::Str(s) => {
            if r.chance(1, 2) {
                *s = gen_hostile_string(r);
                info.text_classes.push("default_hostile_string");
            }
        }
        SVal::List(xs) => xs.iter_mut().for_each(|x| replace_strings(r, x, info)),
        SVal::Obj(m) => m.iter_mut().for_each(|(_, x)| replace_strings(r, x, info)),
        _ => {}
    }
}

fn decorate_field(r: &mut Rng, f: &Feat, ts: &TypeSystem, fd: &vh_model::FieldDef, info: &mut GenInfo) -> SField {
    let mut fed = gen_fed(r, f);
    if r.chance(1, 12) {
        fed.shareable = true;
    }
    if r.chance(1, 16) {
        fed.external = true;
    }
    if r.chance(1, 16) {
        fed.requires = Some("id other".into());
    }
    if r.chance(1, 16) {
        fed.provides = Some("id".into());
    }
    if r.chance(1, 16) {
        fed.override_from = Some("legacy-service".into());
    }
    SField {
        name: fd.name.clone(),
        ty: fd.ty.to_string(),
        description: maybe_desc(r, f, (1, 2), &mut info.text_classes),
        args: fd.args.iter().map(|a| decorate_input(r, f, ts, a, false, info)).collect(),
        dep: maybe_dep(r, f, (1, 4), &mut info.text_classes),
        directives: gen_dirs(r, (1, 6)),
        fed,
    }
}

/// Decorate a G1 skeleton into a full source description.
pub fn gen_model(r: &mut Rng, f: &Feat) -> (SModel, GenInfo) {
    let o = vh_model::gen_ts::TsOpts { interface_inheritance: f.dyn_interface_implements, ..Default::default() };
    let ts = vh_model::gen_ts::gen_type_system(r, &o);
    let mut info = GenInfo::default();
    let mut m = SModel {
        query: ts.query.clone(),
        mutation: ts.mutation.clone(),
        subscription: None,
        federation_enabled: r.chance(1, 4),
        ..Default::default()
    };
    let mut first_entity = true;
    for t in &ts.types {
        if TypeSystem::is_builtin_scalar(&t.name) {
            continue;
        }
        let mut st = SType {
            name: t.name.clone(),
            description: maybe_desc(r, f, (2, 3), &mut info.text_classes),
            kind: SKind::Scalar { specified_by_url: None },
            directives: gen_dirs(r, (1, 4)),
            fed: gen_fed(r, f),
        };
        match &t.kind {
            Kind::Scalar(_) => {
                let url = if r.chance(1, 2) {
                    Some(
                        r.pick(&[
                            "https://example.com/spec",
                            "https://tools.ietf.org/html/rfc3339",
                            "urn:x?a=1&b=\"2\"",
                            "",
                        ])
                        .to_string(),
                    )
                } else {
                    None
                };
                st.kind = SKind::Scalar { specified_by_url: url };
            }
            Kind::Enum(vals) => {
                st.kind = SKind::Enum {
                    values: vals
                        .iter()
                        .map(|v| SEnumValue {
                            name: v.clone(),
                            description: maybe_desc(r, f, (1, 2), &mut info.text_classes),
                            dep: maybe_dep(r, f, (1, 3), &mut info.text_classes),
                            directives: gen_dirs(r, (1, 6)),
                            fed: gen_fed(r, f),
                        })
                        .collect(),
                };
            }
            Kind::Object { fields, implements } => {
                st.kind = SKind::Object {
                    implements: implements.clone(),
                    fields: fields.iter().map(|fd| decorate_field(r, f, &ts, fd, &mut info)).collect(),
                };
                let is_root = t.name == ts.query || Some(&t.name) == ts.mutation.as_ref();
                if m.federation_enabled && !is_root && (first_entity || r.chance(1, 4)) {
                    first_entity = false;
                    st.fed.keys = vec![fields[0].name.clone()];
                    if fields.len() > 1 && r.chance(1, 3) {
                        st.fed.keys.push(format!("{} {}", fields[0].name, fields[1].name));
                    }
                }
                if !is_root && r.chance(1, 10) {
                    st.fed.extends = true;
                    if !f.fed_extends_with_description {
                        st.description = None;
                    }
                }
                if !is_root && r.chance(1, 12) {
                    st.fed.shareable = true;
                }
            }
            Kind::Interface { fields, implements } => {
                st.kind = SKind::Interface {
                    implements: implements.clone(),
                    fields: fields.iter().map(|fd| decorate_field(r, f, &ts, fd, &mut info)).collect(),
                };
                if !implements.is_empty() && !f.interface_directive_with_implements {
                    st.directives.clear();
                    st.fed = Fed::default();
                }
                if r.chance(1, 10) && (implements.is_empty() || f.interface_directive_with_implements) {
                    st.fed.extends = true;
                    if !f.fed_extends_with_description {
                        st.description = None;
                    }
                }
            }
            Kind::Union(ms) => st.kind = SKind::Union { members: ms.clone() },
            Kind::Input { fields, oneof } => {
                st.kind = SKind::Input {
                    fields: fields.iter().map(|a| decorate_input(r, f, &ts, a, *oneof, &mut info)).collect(),
                    oneof: *oneof,
                };
            }
        }
        // G1 names are generated in ascending order: shuffle every sequence an
        // option may sort, so that "sorted" and "source order" differ
        match &mut st.kind {
            SKind::Object { fields, .. } | SKind::Interface { fields, .. } => {
                r.shuffle(fields);
                for fd in fields.iter_mut() {
                    r.shuffle(&mut fd.args);
                }
            }
            SKind::Enum { values } => r.shuffle(values),
            SKind::Input { fields, .. } => r.shuffle(fields),
            _ => {}
        }
        m.types.push(st);
    }
    (m, info)
}

// ------------------------------------------------------------ dynamic build

pub fn type_ref(s: &str) -> d::TypeRef {
    let s = s.trim();
    if let Some(inner) = s.strip_suffix('!') {
        return d::TypeRef::NonNull(Box::new(type_ref(inner)));
    }
    if let Some(inner) = s.strip_prefix('[') {
        let inner = inner.strip_suffix(']').expect("unbalanced type");
        return d::TypeRef::List(Box::new(type_ref(inner)));
    }
    d::TypeRef::Named(s.to_string().into())
}

fn dyn_dir(x: &SDir) -> d::Directive {
    let mut dd = d::Directive::new(x.name.clone());
    for (k, v) in &x.args {
        dd = dd.argument(k.clone(), v.to_crate());
    }
    dd
}

macro_rules! common {
    ($b:ident, $src:expr) => {{
        if let Some(de) = &$src.description {
            $b = $b.description(de.clone());
        }
        for x in &$src.directives {
            $b = $b.directive(dyn_dir(x));
        }
        if !$src.fed.tags.is_empty() {
            $b = $b.tags($src.fed.tags.clone());
        }
        if $src.fed.inaccessible {
            $b = $b.inaccessible();
        }
    }};
}

fn dyn_input(a: &SInput) -> d::InputValue {
    let mut iv = d::InputValue::new(a.name.clone(), type_ref(&a.ty));
    common!(iv, a);
    if let Some(dv) = &a.default {
        iv = iv.default_value(dv.to_crate());
    }
    if let Some(reason) = a.dep.get() {
        iv = iv.deprecation(reason);
    }
    iv
}

macro_rules! field_common {
    ($b:ident, $f:expr) => {{
        common!($b, $f);
        if let Some(reason) = $f.dep.get() {
            $b = $b.deprecation(reason);
        }
        for a in &$f.args {
            $b = $b.argument(dyn_input(a));
        }
        if $f.fed.shareable {
            $b = $b.shareable();
        }
        if $f.fed.external {
            $b = $b.external();
        }
        if let Some(x) = &$f.fed.requires {
            $b = $b.requires(x.clone());
        }
        if let Some(x) = &$f.fed.provides {
            $b = $b.provides(x.clone());
        }
        if let Some(x) = &$f.fed.override_from {
            $b = $b.override_from(x.clone());
        }
    }};
}

/// Build the real dynamic schema from the description (resolvers never run).
pub fn build_dynamic(m: &SModel) -> Result<d::Schema, String> {
    let mut b = d::Schema::build(&m.query, m.mutation.as_deref(), None);
    if m.subscription.is_some() {
        return Err("harness: dynamic subscriptions are not generated".into());
    }
    for t in &m.types {
        match &t.kind {
            SKind::Scalar { specified_by_url } => {
                let mut s = d::Scalar::new(t.name.clone());
                common!(s, t);
                if let Some(u) = specified_by_url {
                    s = s.specified_by_url(u.clone());
                }
                b = b.register(s);
            }
            SKind::Enum { values } => {
                let mut e = d::Enum::new(t.name.clone());
                common!(e, t);
                for v in values {
                    let mut it = d::EnumItem::new(v.name.clone());
                    common!(it, v);
                    if let Some(reason) = v.dep.get() {
                        it = it.deprecation(reason);
                    }
                    e = e.item(it);
                }
                b = b.register(e);
            }
            SKind::Object { implements, fields } => {
                let mut o = d::Object::new(t.name.clone());
                common!(o, t);
                for i in implements {
                    o = o.implement(i.clone());
                }
                for f in fields {
                    let mut fd =
                        d::Field::new(f.name.clone(), type_ref(&f.ty), |_| d::FieldFuture::from_value(None));
                    field_common!(fd, f);
                    o = o.field(fd);
                }
                for k in &t.fed.keys {
                    o = o.key(k.clone());
                }
                if t.fed.extends {
                    o = o.extends();
                }
                if t.fed.shareable {
                    o = o.shareable();
                }
                if t.fed.interface_object {
                    o = o.interface_object();
                }
                b = b.register(o);
            }
            SKind::Interface { implements, fields } => {
                let mut i = d::Interface::new(t.name.clone());
                common!(i, t);
                for x in implements {
                    i = i.implement(x.clone());
                }
                for f in fields {
                    let mut fd = d::InterfaceField::new(f.name.clone(), type_ref(&f.ty));
                    field_common!(fd, f);
                    i = i.field(fd);
                }
                for k in &t.fed.keys {
                    i = i.key(k.clone());
                }
                if t.fed.extends {
                    i = i.extends();
                }
                b = b.register(i);
            }
            SKind::Union { members } => {
                let mut u = d::Union::new(t.name.clone());
                common!(u, t);
                for x in members {
                    u = u.possible_type(x.clone());
                }
                b = b.register(u);
            }
            SKind::Input { fields, oneof } => {
                let mut io = d::InputObject::new(t.name.clone());
                common!(io, t);
                for f in fields {
                    io = io.field(dyn_input(f));
                }
                if *oneof {
                    io = io.oneof();
                }
                b = b.register(io);
            }
        }
    }
    if m.federation_enabled {
        b = b.enable_federation().entity_resolver(|_| d::FieldFuture::from_value(None));
    }
    b.finish().map_err(|e| e.to_string())
}
