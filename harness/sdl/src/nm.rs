//! Normalised model of a parsed type-system document, built from either
//! parser's tree (R2's and the crate's own), so that both can be compared
//! with the source description in exactly the same way.
//!
//! What normalisation removes: positions, the spelling of strings (block vs
//! quoted — only the decoded value is kept), the spelling of numbers (kept as
//! lexeme, compared numerically by `val_eq`). Nothing else.

use async_graphql_parser::types as ct;
use async_graphql_value::ConstValue;
use vh_r2 as r2;

#[derive(Clone, Debug, PartialEq)]
pub enum NVal {
    Null,
    /// decimal lexeme
    Int(String),
    /// lexeme
    Float(String),
    Str(String),
    Bool(bool),
    Enum(String),
    List(Vec<NVal>),
    Obj(Vec<(String, NVal)>),
    /// `$x` — not a constant; can only come from a broken print
    Var(String),
}

impl NVal {
    pub fn show(&self) -> String {
        match self {
            NVal::Null => "null".into(),
            NVal::Int(s) => format!("int {s}"),
            NVal::Float(s) => format!("float {s}"),
            NVal::Str(s) => format!("string {s:?}"),
            NVal::Bool(b) => format!("bool {b}"),
            NVal::Enum(e) => format!("enum {e}"),
            NVal::List(xs) => format!("[{}]", xs.iter().map(|x| x.show()).collect::<Vec<_>>().join(", ")),
            NVal::Obj(m) => {
                format!("{{{}}}", m.iter().map(|(k, v)| format!("{k}: {}", v.show())).collect::<Vec<_>>().join(", "))
            }
            NVal::Var(v) => format!("variable ${v}"),
        }
    }
}

#[derive(Clone, Debug, PartialEq)]
pub struct NDirApp {
    pub name: String,
    pub args: Vec<(String, NVal)>,
}

#[derive(Clone, Debug, PartialEq)]
pub struct NInput {
    pub name: String,
    pub description: Option<String>,
    pub ty: String,
    pub default: Option<NVal>,
    pub directives: Vec<NDirApp>,
}

#[derive(Clone, Debug, PartialEq)]
pub struct NField {
    pub name: String,
    pub description: Option<String>,
    pub args: Vec<NInput>,
    pub ty: String,
    pub directives: Vec<NDirApp>,
}

#[derive(Clone, Debug, PartialEq)]
pub struct NEnumValue {
    pub name: String,
    pub description: Option<String>,
    pub directives: Vec<NDirApp>,
}

#[derive(Clone, Debug, PartialEq)]
pub struct NType {
    pub extend: bool,
    pub name: String,
    /// scalar | object | interface | union | enum | input
    pub kind: &'static str,
    pub description: Option<String>,
    pub implements: Vec<String>,
    pub fields: Vec<NField>,
    pub inputs: Vec<NInput>,
    pub values: Vec<NEnumValue>,
    pub members: Vec<String>,
    pub directives: Vec<NDirApp>,
}

#[derive(Clone, Debug, PartialEq)]
pub struct NDirDef {
    pub name: String,
    pub description: Option<String>,
    pub args: Vec<NInput>,
    /// `None`: this parser's answer is not read (see c17.rs assumptions)
    pub repeatable: Option<bool>,
    pub locations: Vec<String>,
}

#[derive(Clone, Debug, PartialEq)]
pub struct NSchemaDef {
    pub extend: bool,
    pub query: Option<String>,
    pub mutation: Option<String>,
    pub subscription: Option<String>,
    pub directives: Vec<NDirApp>,
}

#[derive(Clone, Debug, PartialEq, Default)]
pub struct NDoc {
    pub types: Vec<NType>,
    pub directive_defs: Vec<NDirDef>,
    pub schemas: Vec<NSchemaDef>,
    /// anything in the document that is not a type-system definition
    pub foreign_definitions: usize,
}

// ------------------------------------------------------------------ from R2

fn r2_val(v: &r2::Value) -> NVal {
    match &v.kind {
        r2::ValueKind::Variable(n) => NVal::Var(n.clone()),
        r2::ValueKind::Int(s) => NVal::Int(s.clone()),
        r2::ValueKind::Float(s) => NVal::Float(s.clone()),
        r2::ValueKind::String(s) => NVal::Str(s.value.clone()),
        r2::ValueKind::Boolean(b) => NVal::Bool(*b),
        r2::ValueKind::Null => NVal::Null,
        r2::ValueKind::Enum(e) => NVal::Enum(e.clone()),
        r2::ValueKind::List(xs) => NVal::List(xs.iter().map(r2_val).collect()),
        r2::ValueKind::Object(fs) => NVal::Obj(fs.iter().map(|(n, x)| (n.value.clone(), r2_val(x))).collect()),
    }
}
fn r2_dirs(ds: &[r2::Directive]) -> Vec<NDirApp> {
    ds.iter()
        .map(|d| NDirApp {
            name: d.name.value.clone(),
            args: d.arguments.iter().map(|a| (a.name.value.clone(), r2_val(&a.value))).collect(),
        })
        .collect()
}
fn r2_desc(d: &Option<r2::Description>) -> Option<String> {
    d.as_ref().map(|d| d.value.value.clone())
}
fn r2_input(v: &r2::InputValueDefinition) -> NInput {
    NInput {
        name: v.name.value.clone(),
        description: r2_desc(&v.description),
        ty: v.ty.to_string(),
        default: v.default_value.as_ref().map(r2_val),
        directives: r2_dirs(&v.directives),
    }
}
fn r2_fields(fs: &[r2::FieldDefinition]) -> Vec<NField> {
    fs.iter()
        .map(|f| NField {
            name: f.name.value.clone(),
            description: r2_desc(&f.description),
            args: f.arguments.iter().map(r2_input).collect(),
            ty: f.ty.to_string(),
            directives: r2_dirs(&f.directives),
        })
        .collect()
}

pub fn from_r2(doc: &r2::Document) -> NDoc {
    let mut out = NDoc::default();
    for d in &doc.definitions {
        match d {
            r2::Definition::TypeSystem(r2::TypeSystemDefinition::Schema(s)) => {
                let root = |k: r2::OperationKind| {
                    s.root_operations.iter().find(|r| r.kind == k).map(|r| r.type_name.value.clone())
                };
                out.schemas.push(NSchemaDef {
                    extend: s.extend,
                    query: root(r2::OperationKind::Query),
                    mutation: root(r2::OperationKind::Mutation),
                    subscription: root(r2::OperationKind::Subscription),
                    directives: r2_dirs(&s.directives),
                });
            }
            r2::Definition::TypeSystem(r2::TypeSystemDefinition::Type(t)) => {
                let mut n = NType {
                    extend: t.extend,
                    name: t.name.value.clone(),
                    kind: "scalar",
                    description: r2_desc(&t.description),
                    implements: vec![],
                    fields: vec![],
                    inputs: vec![],
                    values: vec![],
                    members: vec![],
                    directives: r2_dirs(&t.directives),
                };
                match &t.kind {
                    r2::TypeDefKind::Scalar => {}
                    r2::TypeDefKind::Object { implements, fields } => {
                        n.kind = "object";
                        n.implements = implements.iter().map(|x| x.value.clone()).collect();
                        n.fields = r2_fields(fields);
                    }
                    r2::TypeDefKind::Interface { implements, fields } => {
                        n.kind = "interface";
                        n.implements = implements.iter().map(|x| x.value.clone()).collect();
                        n.fields = r2_fields(fields);
                    }
                    r2::TypeDefKind::Union { members } => {
                        n.kind = "union";
                        n.members = members.iter().map(|x| x.value.clone()).collect();
                    }
                    r2::TypeDefKind::Enum { values } => {
                        n.kind = "enum";
                        n.values = values
                            .iter()
                            .map(|v| NEnumValue {
                                name: v.value.value.clone(),
                                description: r2_desc(&v.description),
                                directives: r2_dirs(&v.directives),
                            })
                            .collect();
                    }
                    r2::TypeDefKind::InputObject { fields } => {
                        n.kind = "input";
                        n.inputs = fields.iter().map(r2_input).collect();
                    }
                }
                out.types.push(n);
            }
            r2::Definition::TypeSystem(r2::TypeSystemDefinition::Directive(d)) => out.directive_defs.push(NDirDef {
                name: d.name.value.clone(),
                description: r2_desc(&d.description),
                args: d.arguments.iter().map(r2_input).collect(),
                repeatable: Some(d.repeatable),
                locations: d.locations.iter().map(|l| l.value.clone()).collect(),
            }),
            _ => out.foreign_definitions += 1,
        }
    }
    out
}

// ------------------------------------------------------- from the crate's tree

fn c_val(v: &ConstValue) -> NVal {
    match v {
        ConstValue::Null => NVal::Null,
        ConstValue::Number(n) => {
            if let Some(i) = n.as_i64() {
                NVal::Int(i.to_string())
            } else if let Some(u) = n.as_u64() {
                NVal::Int(u.to_string())
            } else {
                NVal::Float(format!("{:?}", n.as_f64().unwrap_or(f64::NAN)))
            }
        }
        ConstValue::String(s) => NVal::Str(s.clone()),
        ConstValue::Boolean(b) => NVal::Bool(*b),
        ConstValue::Binary(_) => NVal::Enum("<binary>".into()),
        ConstValue::Enum(e) => NVal::Enum(e.to_string()),
        ConstValue::List(xs) => NVal::List(xs.iter().map(c_val).collect()),
        ConstValue::Object(m) => NVal::Obj(m.iter().map(|(k, x)| (k.to_string(), c_val(x))).collect()),
    }
}
fn c_dirs(ds: &[async_graphql_parser::Positioned<ct::ConstDirective>]) -> Vec<NDirApp> {
    ds.iter()
        .map(|d| NDirApp {
            name: d.node.name.node.to_string(),
            args: d.node.arguments.iter().map(|(n, v)| (n.node.to_string(), c_val(&v.node))).collect(),
        })
        .collect()
}
fn c_desc(d: &Option<async_graphql_parser::Positioned<String>>) -> Option<String> {
    d.as_ref().map(|d| d.node.clone())
}
fn c_input(v: &async_graphql_parser::Positioned<ct::InputValueDefinition>) -> NInput {
    NInput {
        name: v.node.name.node.to_string(),
        description: c_desc(&v.node.description),
        ty: v.node.ty.node.to_string(),
        default: v.node.default_value.as_ref().map(|d| c_val(&d.node)),
        directives: c_dirs(&v.node.directives),
    }
}
fn c_fields(fs: &[async_graphql_parser::Positioned<ct::FieldDefinition>]) -> Vec<NField> {
    fs.iter()
        .map(|f| NField {
            name: f.node.name.node.to_string(),
            description: c_desc(&f.node.description),
            args: f.node.arguments.iter().map(c_input).collect(),
            ty: f.node.ty.node.to_string(),
            directives: c_dirs(&f.node.directives),
        })
        .collect()
}
fn location_name(l: ct::DirectiveLocation) -> &'static str {
    use ct::DirectiveLocation as L;
    match l {
        L::Query => "QUERY",
        L::Mutation => "MUTATION",
        L::Subscription => "SUBSCRIPTION",
        L::Field => "FIELD",
        L::FragmentDefinition => "FRAGMENT_DEFINITION",
        L::FragmentSpread => "FRAGMENT_SPREAD",
        L::InlineFragment => "INLINE_FRAGMENT",
        L::Schema => "SCHEMA",
        L::Scalar => "SCALAR",
        L::Object => "OBJECT",
        L::FieldDefinition => "FIELD_DEFINITION",
        L::ArgumentDefinition => "ARGUMENT_DEFINITION",
        L::Interface => "INTERFACE",
        L::Union => "UNION",
        L::Enum => "ENUM",
        L::EnumValue => "ENUM_VALUE",
        L::InputObject => "INPUT_OBJECT",
        L::InputFieldDefinition => "INPUT_FIELD_DEFINITION",
        L::VariableDefinition => "VARIABLE_DEFINITION",
    }
}

pub fn from_crate(doc: &ct::ServiceDocument) -> NDoc {
    let mut out = NDoc::default();
    for d in &doc.definitions {
        match d {
            ct::TypeSystemDefinition::Schema(s) => out.schemas.push(NSchemaDef {
                extend: s.node.extend,
                query: s.node.query.as_ref().map(|n| n.node.to_string()),
                mutation: s.node.mutation.as_ref().map(|n| n.node.to_string()),
                subscription: s.node.subscription.as_ref().map(|n| n.node.to_string()),
                directives: c_dirs(&s.node.directives),
            }),
            ct::TypeSystemDefinition::Type(t) => {
                let mut n = NType {
                    extend: t.node.extend,
                    name: t.node.name.node.to_string(),
                    kind: "scalar",
                    description: c_desc(&t.node.description),
                    implements: vec![],
                    fields: vec![],
                    inputs: vec![],
                    values: vec![],
                    members: vec![],
                    directives: c_dirs(&t.node.directives),
                };
                match &t.node.kind {
                    ct::TypeKind::Scalar => {}
                    ct::TypeKind::Object(o) => {
                        n.kind = "object";
                        n.implements = o.implements.iter().map(|x| x.node.to_string()).collect();
                        n.fields = c_fields(&o.fields);
                    }
                    ct::TypeKind::Interface(o) => {
                        n.kind = "interface";
                        n.implements = o.implements.iter().map(|x| x.node.to_string()).collect();
                        n.fields = c_fields(&o.fields);
                    }
                    ct::TypeKind::Union(u) => {
                        n.kind = "union";
                        n.members = u.members.iter().map(|x| x.node.to_string()).collect();
                    }
                    ct::TypeKind::Enum(e) => {
                        n.kind = "enum";
                        n.values = e
                            .values
                            .iter()
                            .map(|v| NEnumValue {
                                name: v.node.value.node.to_string(),
                                description: c_desc(&v.node.description),
                                directives: c_dirs(&v.node.directives),
                            })
                            .collect();
                    }
                    ct::TypeKind::InputObject(i) => {
                        n.kind = "input";
                        n.inputs = i.fields.iter().map(c_input).collect();
                    }
                }
                out.types.push(n);
            }
            ct::TypeSystemDefinition::Directive(d) => out.directive_defs.push(NDirDef {
                name: d.node.name.node.to_string(),
                description: c_desc(&d.node.description),
                args: d.node.arguments.iter().map(c_input).collect(),
                // The crate's parser reports every directive definition as repeatable
                // (C13-directive-not-repeatable); its answer is not read here.
                repeatable: None,
                locations: d.node.locations.iter().map(|l| location_name(l.node).to_string()).collect(),
            }),
        }
    }
    out
}
