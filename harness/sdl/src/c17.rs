//! C17 — exported SDL is valid and describes exactly the schema.
//!
//! Monitor: every `Schema::sdl_with_options` result is parsed back by R2 (the
//! independent parser) and by the crate's own `parse_schema`; both trees are
//! normalised (`nm.rs`) and compared structurally (`diff.rs`) with the SOURCE
//! description the schema was built from (`src.rs` for generated dynamic
//! schemas, the hand models in `stat.rs` for the derive-built family).

use std::collections::{BTreeMap, BTreeSet};
use std::sync::atomic::{AtomicU64, Ordering};

use vh_core::serde_json::{self, Value as J, json};
use vh_core::{Rng, Run, catch, rng};

use crate::diff::{Diff, Stats, compare};
use crate::nm;
use crate::src::*;
use crate::stat;
use crate::witness;

/// Cases judged so far / cases judged when the first violation was reported
/// (reported in the evidence so that "detected after how many cases" is measured).
static CASES: AtomicU64 = AtomicU64::new(0);
static FIRST_VIOLATION_AT: AtomicU64 = AtomicU64::new(0);

/// Outcome of one (schema, options) case.
pub struct CaseResult {
    pub sdl: String,
    /// R2 syntax error (the SDL is not a type-system document)
    pub r2_error: Option<String>,
    /// the crate's own parser rejects the SDL
    pub crate_error: Option<String>,
    pub r2_diffs: Vec<Diff>,
    pub crate_diffs: Vec<Diff>,
    /// R2 under the October-2021 SourceCharacter rule
    pub strict_2021_ok: bool,
}

impl CaseResult {
    pub fn clean(&self) -> bool {
        self.r2_error.is_none() && self.crate_error.is_none() && self.r2_diffs.is_empty() && self.crate_diffs.is_empty()
    }
    /// distinct findings of this case: (tag, human text)
    pub fn findings(&self) -> Vec<(String, String)> {
        let mut out = vec![];
        if let Some(e) = &self.r2_error {
            out.push(("syntax".to_string(), format!("the SDL is not a valid type-system document (R2: {e})")));
        }
        if let Some(e) = &self.crate_error {
            let extra = if self.r2_error.is_some() { "" } else { " although R2 accepts it" };
            out.push(("syntax-crate".to_string(), format!("the crate's own parse_schema rejects the SDL{extra}: {e}")));
        }
        for d in &self.r2_diffs {
            out.push((format!("{}@{}", d.aspect, d.path), format!("read back by R2: {}", d.line())));
        }
        for d in &self.crate_diffs {
            // the same difference seen through both parsers is one finding
            if self.r2_diffs.iter().any(|x| x.aspect == d.aspect && x.path == d.path && x.got == d.got) {
                continue;
            }
            out.push((
                format!("crate-parser:{}@{}", d.aspect, d.path),
                format!("read back by the crate's own parser (R2 reads it differently): {}", d.line()),
            ));
        }
        out
    }
}

/// Parse an exported SDL with both parsers and compare with the source.
pub fn check_sdl(model: &SModel, o: &Opts, sdl: String, st: &mut Stats) -> CaseResult {
    let mut res = CaseResult {
        sdl,
        r2_error: None,
        crate_error: None,
        r2_diffs: vec![],
        crate_diffs: vec![],
        strict_2021_ok: true,
    };
    st.add("sdl_exported", 1);
    CASES.fetch_add(1, Ordering::Relaxed);
    // R2, later-edition SourceCharacter rule (any scalar value inside strings)
    match vh_r2::parse_type_system(&res.sdl, &vh_r2::Options { allow_control_chars: true }) {
        Err(e) => {
            let line = res.sdl.split('\n').nth(e.pos.line.saturating_sub(1)).unwrap_or("");
            res.r2_error = Some(format!("{e}; line {}: {}", e.pos.line, truncate(line, 160)));
        }
        Ok(p) => {
            st.add("r2_parse_ok", 1);
            if let Err(e) = vh_r2::validate_type_system(&p.doc) {
                // only document-level rules the crate's parser also enforces; federation SDL has no `schema {}`
                if !o.federation {
                    res.r2_error = Some(format!("document rule: {e:?}"));
                }
            }
            let n = nm::from_r2(&p.doc);
            res.r2_diffs = compare(model, o, &n, st);
            if vh_r2::parse_type_system(&res.sdl, &vh_r2::Options { allow_control_chars: false }).is_err() {
                res.strict_2021_ok = false;
                st.add("sdl_needs_post_2021_source_characters", 1);
            }
        }
    }
    let text = res.sdl.clone();
    match catch(move || async_graphql_parser::parse_schema(&text)) {
        Err(p) => res.crate_error = Some(format!("panic: {p}")),
        Ok(Err(e)) => res.crate_error = Some(e.to_string()),
        Ok(Ok(doc)) => {
            st.add("crate_parse_ok", 1);
            let n = nm::from_crate(&doc);
            let mut scratch = Stats::default();
            res.crate_diffs = compare(model, o, &n, &mut scratch);
            st.add("crate_models_compared", 1);
        }
    }
    res
}

/// Depth of the interface hierarchy of a source description: an interface
/// counts 1 + the deepest interface among those it implements (0 = no interfaces).
pub fn interface_chain_depth(m: &SModel) -> usize {
    fn depth(m: &SModel, n: &str, guard: usize) -> usize {
        if guard == 0 {
            return 0;
        }
        match m.types.iter().find(|t| t.name == n).map(|t| &t.kind) {
            Some(SKind::Interface { implements, .. }) => {
                1 + implements.iter().map(|i| depth(m, i, guard - 1)).max().unwrap_or(0)
            }
            _ => 0,
        }
    }
    m.types.iter().map(|t| depth(m, &t.name, 16)).max().unwrap_or(0)
}

fn export_dynamic(schema: &async_graphql::dynamic::Schema, o: &Opts) -> Result<String, String> {
    let so = o.to_sdl();
    catch(|| schema.sdl_with_options(so))
}

fn flush(run: &Run, st: &Stats) {
    for (k, v) in &st.0 {
        run.count(k, *v);
    }
}

/// Which option sets a schema is exported under.
fn option_indices(run: &Run, schema_index: u64, per_schema: usize) -> Vec<usize> {
    if per_schema >= Opts::COUNT {
        return (0..Opts::COUNT).collect();
    }
    // a fixed pseudo-random permutation of all option sets, walked in windows:
    // every set is used once before any is used twice
    let mut perm: Vec<usize> = (0..Opts::COUNT).collect();
    Rng::new(rng::mix(&[run.seed, 17, 0xA11])).shuffle(&mut perm);
    let start = (schema_index as usize * per_schema) % Opts::COUNT;
    let mut v: Vec<usize> = (0..per_schema).map(|k| perm[(start + k) % Opts::COUNT]).collect();
    // the default options are what `Schema::sdl()` uses: always included
    v[0] = 0x100; // all booleans off, indent width 2
    v
}

fn truncate(s: &str, n: usize) -> String {
    vh_core::run::truncate(s, n)
}

fn report(run: &Run, origin: J, origin_tag: &str, o: &Opts, res: &CaseResult, seen: &mut BTreeSet<String>) {
    for (tag, text) in res.findings() {
        if !seen.insert(tag.clone()) {
            continue; // already reported for this schema under another option set
        }
        let sig = format!("{origin_tag}:{:016x}", rng::hash_str(&tag));
        let _ = FIRST_VIOLATION_AT.compare_exchange(0, CASES.load(Ordering::Relaxed), Ordering::Relaxed, Ordering::Relaxed);
        run.violation(
            &sig,
            &format!("{text}\n  options: {o:?}\n  SDL:\n{}", truncate(&res.sdl, 1500)),
            json!({"origin": origin, "options": o, "finding": text, "sdl": res.sdl}),
        );
    }
}

fn generated(run: &Run, feat: &Feat) {
    let n_schemas = run.scale(800, 1500);
    let per_schema = run.scale(16, Opts::COUNT as u64) as usize;
    let shards = 16u64;
    std::thread::scope(|sc| {
        for shard in 0..shards {
            let feat = feat.clone();
            sc.spawn(move || {
                let mut st = Stats::default();
                let mut i = shard;
                while i < n_schemas {
                    let mut r = Rng::new(rng::mix(&[run.seed, 17, i]));
                    let (model, info) = gen_model(&mut r, &feat);
                    let model_json = serde_json::to_value(&model).unwrap();
                    let mh = rng::hash_str(&model_json.to_string());
                    let schema = match catch(|| build_dynamic(&model)) {
                        Ok(Ok(s)) => s,
                        Ok(Err(e)) => {
                            run.inconclusive(&format!("harness: generated description does not build: {e}"));
                            i += shards;
                            continue;
                        }
                        Err(p) => {
                            run.violation(
                                &format!("gen-build-panic:{mh:016x}"),
                                &format!("building the dynamic schema panicked: {p}"),
                                json!({"origin": {"kind": "dynamic", "model": model_json}}),
                            );
                            i += shards;
                            continue;
                        }
                    };
                    st.add("schemas_built_dynamic", 1);
                    let chain = interface_chain_depth(&model);
                    run.seen("interface_chain_depth_seen", &format!("dynamic:{chain}"));
                    if chain >= 3 {
                        st.add("schemas_with_interface_chain_depth_ge3", 1);
                    }
                    for c in &info.text_classes {
                        run.seen("text_classes_generated", c);
                    }
                    let (de, dp, df, di) = model.decorations();
                    let nontrivial = de + dp + df + di >= 3;
                    let mut seen = BTreeSet::new();
                    for (k, oi) in option_indices(run, i, per_schema).into_iter().enumerate() {
                        let o = Opts::from_index(oi);
                        run.eval();
                        let sdl = match export_dynamic(&schema, &o) {
                            Ok(s) => s,
                            Err(p) => {
                                run.violation(
                                    &format!("gen-export-panic:{mh:016x}"),
                                    &format!("sdl_with_options panicked: {p}"),
                                    json!({"origin": {"kind": "dynamic", "model": model_json}, "options": o}),
                                );
                                continue;
                            }
                        };
                        if k == 0 && o == Opts::default_options() {
                            // `sdl()` is the same export as the default options
                            st.add("plain_sdl_calls", 1);
                            let plain = schema.sdl();
                            if plain != sdl {
                                run.violation(
                                    &format!("gen-sdl-vs-default:{mh:016x}"),
                                    "Schema::sdl() differs from sdl_with_options(SDLExportOptions::new())",
                                    json!({"origin": {"kind": "dynamic", "model": model_json}}),
                                );
                            }
                        }
                        if nontrivial {
                            run.nontrivial(rng::hash_str(&sdl));
                        }
                        run.seen("option_sets", &o.tag());
                        let res = check_sdl(&model, &o, sdl, &mut st);
                        if res.clean() {
                            st.add("cases_clean", 1);
                        }
                        if i < 3 && k == 1 {
                            run.sample(json!({
                                "origin": "generated dynamic schema",
                                "schema_index": i,
                                "options": o.tag(),
                                "descriptions": de, "deprecations": dp, "defaults": df, "applied_directives": di,
                                "sdl_head": truncate(&res.sdl, 900),
                                "verdict": if res.clean() { "both parsers read back exactly the source description" } else { "differs" },
                            }));
                        }
                        report(
                            run,
                            json!({"kind": "dynamic", "model": model_json}),
                            &format!("gen:{mh:016x}"),
                            &o,
                            &res,
                            &mut seen,
                        );
                    }
                    i += shards;
                }
                flush(run, &st);
            });
        }
    });
}

/// A generator feature is on unless a known finding excludes it. Development
/// aid: `C17_ONLY_FEATURES=a,b` additionally switches every feature not listed
/// off (used to look at one defect class at a time; never set by `./check`).
pub fn feature_on(run: &Run, name: &str) -> bool {
    if let Ok(only) = std::env::var("C17_ONLY_FEATURES") {
        if !only.split(',').any(|x| x.trim() == name) {
            return false;
        }
    }
    run.feature(name)
}

fn static_family(run: &Run) {
    let fam = stat::family();
    for s in &fam {
        let missing: Vec<&&str> = s.requires.iter().filter(|f| !feature_on(run, f)).collect();
        if !missing.is_empty() {
            run.seen("static_schemas_skipped_for_known_findings", s.name);
            continue;
        }
        run.seen("static_schemas_checked", s.name);
        let chain = interface_chain_depth(&s.model);
        run.seen("interface_chain_depth_seen", &format!("static:{chain}"));
        if chain >= 3 {
            run.count("schemas_with_interface_chain_depth_ge3", 1);
        }
        // the small family is always exported under every option set
        let shards = 16usize;
        std::thread::scope(|sc| {
            for shard in 0..shards {
                sc.spawn(move || {
                    let mut st = Stats::default();
                    let mut seen = BTreeSet::new();
                    for oi in (shard..Opts::COUNT).step_by(shards) {
                        let o = Opts::from_index(oi);
                        run.eval();
                        let sdl = match catch(|| (s.export)(&o)) {
                            Ok(x) => x,
                            Err(p) => {
                                run.violation(
                                    &format!("static-export-panic:{}", s.name),
                                    &format!("sdl_with_options panicked: {p}"),
                                    json!({"origin": {"kind": "static", "name": s.name}, "options": o}),
                                );
                                continue;
                            }
                        };
                        if o == Opts::default_options() {
                            st.add("plain_sdl_calls", 1);
                            if catch(|| (s.plain)()).ok().as_deref() != Some(sdl.as_str()) {
                                run.violation(
                                    &format!("static-sdl-vs-default:{}", s.name),
                                    "Schema::sdl() differs from sdl_with_options(SDLExportOptions::new())",
                                    json!({"origin": {"kind": "static", "name": s.name}}),
                                );
                            }
                        }
                        run.nontrivial(rng::hash_str(&sdl));
                        run.seen("option_sets", &o.tag());
                        st.add("static_cases", 1);
                        let res = check_sdl(&s.model, &o, sdl, &mut st);
                        if res.clean() {
                            st.add("cases_clean", 1);
                        }
                        if s.name == "clean" && oi == 0x100 {
                            run.sample(json!({
                                "origin": "derive-built schema 'clean'",
                                "options": o.tag(),
                                "sdl_head": truncate(&res.sdl, 900),
                                "verdict": if res.clean() { "both parsers read back exactly the hand model" } else { "differs" },
                            }));
                        }
                        report(
                            run,
                            json!({"kind": "static", "name": s.name}),
                            &format!("static:{}", s.name),
                            &o,
                            &res,
                            &mut seen,
                        );
                    }
                    flush(run, &st);
                });
            }
        });
    }
}

fn replay(run: &Run, path: &std::path::Path) {
    let text = match std::fs::read_to_string(path) {
        Ok(t) => t,
        Err(e) => {
            run.inconclusive(&format!("cannot read replay file: {e}"));
            return;
        }
    };
    let v: J = match serde_json::from_str(&text) {
        Ok(v) => v,
        Err(e) => {
            run.inconclusive(&format!("replay file is not JSON: {e}"));
            return;
        }
    };
    let case = if v.get("case").is_some() { v["case"].clone() } else { v.clone() };
    let o: Opts = match serde_json::from_value(case["options"].clone()) {
        Ok(o) => o,
        Err(_) => Opts::default_options(),
    };
    let mut st = Stats::default();
    let (model, sdl): (SModel, String) = match case["origin"]["kind"].as_str() {
        Some("dynamic") => {
            let model: SModel = match serde_json::from_value(case["origin"]["model"].clone()) {
                Ok(m) => m,
                Err(e) => {
                    run.inconclusive(&format!("replay: model does not deserialize: {e}"));
                    return;
                }
            };
            let schema = match build_dynamic(&model) {
                Ok(s) => s,
                Err(e) => {
                    run.inconclusive(&format!("replay: schema does not build: {e}"));
                    return;
                }
            };
            let sdl = schema.sdl_with_options(o.to_sdl());
            (model, sdl)
        }
        Some("static") => {
            let name = case["origin"]["name"].as_str().unwrap_or("");
            let Some(s) = stat::family().into_iter().find(|s| s.name == name) else {
                run.inconclusive(&format!("replay: no static schema named {name:?}"));
                return;
            };
            let sdl = (s.export)(&o);
            (s.model, sdl)
        }
        _ => {
            run.inconclusive("replay: case has no origin.kind");
            return;
        }
    };
    run.eval();
    let res = check_sdl(&model, &o, sdl, &mut st);
    println!("REPLAY options: {o:?}");
    println!("REPLAY SDL:\n{}", res.sdl);
    if res.clean() {
        println!("REPLAY verdict: both parsers read back exactly the source description");
    }
    let mut seen = BTreeSet::new();
    report(run, case["origin"].clone(), "replay", &o, &res, &mut seen);
}

pub fn main() {
    let mut run = Run::from_args(
        "exploration",
        "generated dynamic schemas (G1 type-system skeleton: objects, interfaces incl. interface inheritance, unions, enums, \
         custom scalars, input objects, oneOf, arguments with defaults) decorated with descriptions, deprecation reasons, \
         string defaults and directive-argument strings drawn from hostile text classes (quotes, triple quotes, backslashes, \
         control characters, CR, blank edge lines, indentation, non-ASCII), applied directives on every definition kind, \
         federation attributes; plus a hand-written derive-built family with hand models (incl. four nested derive \
         interfaces whose objects are registered under the innermost one only); every schema exported under \
         option sets from the full 2^8 x {0,2,8} space, re-parsed by R2 and by parse_schema and compared structurally \
         with the source description. A case = (schema, option set); non-trivial when the schema carries >= 3 decorations; \
         distinct by hash of the exported text",
    );
    run.assume("R2 (harness/r2) parses type-system documents per the specification; its string decoding is the reference for what an SDL text says");
    run.assume("R2 reads the SDL under the later-edition SourceCharacter rule (any scalar value inside strings); texts that need it are counted, not rejected");
    run.assume("order of fields / arguments / enum values is asserted only under the sorted_* option that documents it; type order is never asserted");
    run.assume("federation mode: federation directives, `extend schema @link`, a missing `schema {}` block and a missing subscription root are admitted and not compared (the option's documented effect is only 'Federation SDL'); everything else is compared as without it");
    run.assume("built-in directive definitions may be omitted from SDL (spec 3.13); when printed they are compared with the registry's definitions");
    run.assume("the crate parser's `is_repeatable` is not read (C13-directive-not-repeatable); repeatable is judged through R2 only");
    run.assume("enum literals that start with true/false/null are not generated (C13 enum-keyword-prefix findings concern the crate's parser, not the exporter)");
    run.assume("custom directive *definitions* cannot be registered through the dynamic API; they are covered by the derive-built family (#[TypeDirective])");

    let feat = Feat::from(|n| feature_on(&run, n));
    if let Some(p) = run.replay.clone() {
        replay(&run, &p);
        run.finish();
    }
    run.set_floors(run.scale(2_000, 200_000), run.scale(1_000, 50_000));
    for c in [
        "sdl_exported",
        "r2_parse_ok",
        "crate_parse_ok",
        "types_compared",
        "fields_compared",
        "input_values_compared",
        "defaults_compared",
        "string_defaults_compared",
        "descriptions_present_compared",
        "deprecations_present_compared",
        "enum_values_compared",
        "union_members_compared",
        "implements_nonempty_compared",
        "applied_directives_compared",
        "custom_directive_definitions_compared",
        "builtin_directive_definitions_compared",
        "sorted_sequences_checked",
        "specified_by_compared",
        "oneof_compared",
        "schema_definitions_compared",
        "static_cases",
        "schemas_with_interface_chain_depth_ge3",
    ] {
        run.require_counter(c);
    }
    run.set_max_samples(5);

    witness::run_all(&run);
    static_family(&run);
    generated(&run, &feat);

    let first = FIRST_VIOLATION_AT.load(Ordering::Relaxed);
    if first > 0 && run.violations() > 0 {
        println!("NOTE: first difference reported after {first} judged cases");
        run.extra("first_difference_after_cases", json!(first));
    }
    let excluded = run.excluded_features();
    let on: BTreeMap<&str, bool> = FEATURE_NAMES.iter().map(|n| (*n, !excluded.iter().any(|e| e == n))).collect();
    run.extra("generator_features", json!(on));
    run.extra("option_space", json!({"boolean_options": 8, "indent_widths": INDENT_WIDTHS, "combinations": Opts::COUNT}));
    run.finish();
}
