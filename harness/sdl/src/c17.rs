//! C17 — stub (being built).
pub fn main() {
    println!("INCONCLUSIVE property=C17 reason=check not built yet");
    std::process::exit(2);
}
