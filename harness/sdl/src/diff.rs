//! Structural comparison: SOURCE description (+ export options) against the
//! normalised model of what a parser read back from the exported SDL.
//!
//! Every listed aspect of the property is compared as a *value*. Options are
//! taken into account by exactly their documented effect:
//!   sorted_fields / sorted_arguments / sorted_enum_items  -> the respective
//!       sequence must be sorted by name (order is otherwise not asserted);
//!   prefer_single_line_descriptions, use_space_ident, indent_width -> layout
//!       only: nothing may change;
//!   include_specified_by -> a scalar with a URL carries `@specifiedBy(url:)`
//!       with that URL; without the option it carries none;
//!   federation (and compose_directive) -> federation directives on
//!       definitions and `extend schema @link(..)` are admitted and not
//!       compared, the `schema { }` block, the `_service`/`_entities` fields,
//!       an empty query root and the subscription root may be missing,
//!       `extends` types may print as `extend type` (an extension has no
//!       description in the grammar, so none is compared there). Everything
//!       else is compared as without the option.

use std::collections::BTreeMap;

use crate::nm::*;
use crate::src::*;

#[derive(Clone, Debug)]
pub struct Diff {
    pub aspect: &'static str,
    pub path: String,
    pub expected: String,
    pub got: String,
}

impl Diff {
    pub fn line(&self) -> String {
        format!("[{}] {}: expected {} ; SDL says {}", self.aspect, self.path, self.expected, self.got)
    }
}

#[derive(Default, Debug)]
pub struct Stats(pub BTreeMap<&'static str, u64>);
impl Stats {
    pub fn add(&mut self, k: &'static str, n: u64) {
        *self.0.entry(k).or_insert(0) += n;
    }
}

const FEDERATION_DIRECTIVES: [&str; 12] = [
    "key",
    "tag",
    "shareable",
    "inaccessible",
    "interfaceObject",
    "external",
    "requires",
    "provides",
    "override",
    "requiresScopes",
    "composeDirective",
    "link",
];
const FEDERATION_TYPES: [&str; 3] = ["_Any", "_Entity", "_Service"];
const FEDERATION_FIELDS: [&str; 2] = ["_service", "_entities"];

pub fn val_eq(s: &SVal, n: &NVal) -> bool {
    match (s, n) {
        (SVal::Null, NVal::Null) => true,
        (SVal::Bool(a), NVal::Bool(b)) => a == b,
        (SVal::Str(a), NVal::Str(b)) => a == b,
        (SVal::Enum(a), NVal::Enum(b)) => a == b,
        (SVal::Int(a), NVal::Int(l)) => l.parse::<i128>().map(|x| x == *a as i128).unwrap_or(false),
        (SVal::Int(a), NVal::Float(l)) => l.parse::<f64>().map(|x| x == *a as f64).unwrap_or(false),
        (SVal::Float(a), NVal::Int(l)) | (SVal::Float(a), NVal::Float(l)) => {
            l.parse::<f64>().map(|x| x == *a).unwrap_or(false)
        }
        (SVal::List(a), NVal::List(b)) => a.len() == b.len() && a.iter().zip(b).all(|(x, y)| val_eq(x, y)),
        (SVal::Obj(a), NVal::Obj(b)) => {
            a.len() == b.len()
                && a.iter().all(|(k, v)| {
                    let hits: Vec<&(String, NVal)> = b.iter().filter(|(k2, _)| k2 == k).collect();
                    hits.len() == 1 && val_eq(v, &hits[0].1)
                })
        }
        _ => false,
    }
}

fn opt_str(o: &Option<String>) -> String {
    match o {
        None => "none".into(),
        Some(s) => format!("{s:?}"),
    }
}

struct Cx<'a> {
    o: &'a Opts,
    diffs: Vec<Diff>,
    st: &'a mut Stats,
}

impl Cx<'_> {
    fn diff(&mut self, aspect: &'static str, path: &str, expected: String, got: String) {
        self.diffs.push(Diff { aspect, path: path.to_string(), expected, got });
    }

    fn description(&mut self, path: &str, want: &Option<String>, got: &Option<String>) {
        self.st.add("descriptions_compared", 1);
        if want.is_some() {
            self.st.add("descriptions_present_compared", 1);
        }
        if want != got {
            self.diff("description", path, opt_str(want), opt_str(got));
        }
    }

    /// `@deprecated` among the applied directives of a definition.
    fn deprecation(&mut self, path: &str, want: &Dep, dirs: &[NDirApp]) {
        self.st.add("deprecations_compared", 1);
        let apps: Vec<&NDirApp> = dirs.iter().filter(|d| d.name == "deprecated").collect();
        let shown = |apps: &[&NDirApp]| -> String {
            if apps.is_empty() {
                return "not deprecated".into();
            }
            apps.iter()
                .map(|a| {
                    format!(
                        "@deprecated({})",
                        a.args.iter().map(|(k, v)| format!("{k}: {}", v.show())).collect::<Vec<_>>().join(", ")
                    )
                })
                .collect::<Vec<_>>()
                .join(" ")
        };
        match want.get() {
            None => {
                if !apps.is_empty() {
                    self.diff("deprecation", path, "not deprecated".into(), shown(&apps));
                }
            }
            Some(reason) => {
                self.st.add("deprecations_present_compared", 1);
                let ok = apps.len() == 1
                    && match (reason, apps[0].args.as_slice()) {
                        // no reason configured: none printed, or the directive's default text
                        (None, []) => true,
                        (None, [(k, NVal::Str(s))]) => k == "reason" && s == "No longer supported",
                        (Some(r), [(k, NVal::Str(s))]) => k == "reason" && s == r,
                        _ => false,
                    };
                if !ok {
                    let w = match reason {
                        None => "@deprecated without a reason".to_string(),
                        Some(r) => format!("@deprecated(reason: string {r:?})"),
                    };
                    self.diff("deprecation", path, w, shown(&apps));
                }
            }
        }
    }

    /// Applied directives other than `@deprecated` and the ones an option adds.
    fn applied(&mut self, path: &str, want: &[SDir], extra_expected: &[(&str, Option<&str>)], got: &[NDirApp]) {
        let mut rest: Vec<&NDirApp> = vec![];
        for g in got {
            if g.name == "deprecated" {
                continue;
            }
            if self.o.federation && FEDERATION_DIRECTIVES.contains(&g.name.as_str()) {
                self.st.add("federation_directives_seen", 1);
                continue;
            }
            rest.push(g);
        }
        // built-in markers first (`@oneOf`, `@specifiedBy`): (name, Some(url)) / (name, None)
        for (name, arg) in extra_expected {
            let pos = rest.iter().position(|g| g.name == *name);
            match pos {
                None => self.diff("applied-directive", path, format!("@{name} present"), "absent".into()),
                Some(i) => {
                    let g = rest.remove(i);
                    let ok = match arg {
                        None => g.args.is_empty(),
                        Some(url) => matches!(g.args.as_slice(), [(k, NVal::Str(s))] if k == "url" && s == url),
                    };
                    if !ok {
                        self.diff(
                            "applied-directive",
                            path,
                            format!("@{name}({})", arg.map(|u| format!("url: {u:?}")).unwrap_or_default()),
                            format!("@{name} with arguments {:?}", g.args),
                        );
                    }
                }
            }
        }
        self.st.add("applied_directives_compared", want.len() as u64);
        let show_s = |d: &SDir| {
            format!("@{}({})", d.name, d.args.iter().map(|(k, v)| format!("{k}: {}", v.show())).collect::<Vec<_>>().join(", "))
        };
        let show_n = |d: &NDirApp| {
            format!("@{}({})", d.name, d.args.iter().map(|(k, v)| format!("{k}: {}", v.show())).collect::<Vec<_>>().join(", "))
        };
        let same = want.len() == rest.len()
            && want.iter().zip(&rest).all(|(w, g)| {
                w.name == g.name
                    && w.args.len() == g.args.len()
                    && w.args.iter().zip(&g.args).all(|((k, v), (k2, v2))| k == k2 && val_eq(v, v2))
            });
        if !same {
            self.diff(
                "applied-directive",
                path,
                format!("[{}]", want.iter().map(show_s).collect::<Vec<_>>().join(" ")),
                format!("[{}]", rest.iter().map(|g| show_n(g)).collect::<Vec<_>>().join(" ")),
            );
        }
    }

    fn sorted(&mut self, path: &str, what: &'static str, on: bool, names: Vec<&str>, source: Vec<&str>) {
        if on {
            self.st.add("sorted_sequences_checked", 1);
            if !names.windows(2).all(|w| w[0] <= w[1]) {
                self.diff("option-sorted", path, format!("{what} sorted by name"), format!("{names:?}"));
            }
        } else if names == source {
            self.st.add("unsorted_sequences_in_source_order", 1);
        } else {
            self.st.add("unsorted_sequences_not_in_source_order", 1);
        }
    }

    fn inputs(&mut self, path: &str, what: &'static str, sort_on: bool, want: &[SInput], got: &[NInput], dirdef: bool) {
        for w in want {
            let p = format!("{path}.{what} {}", w.name);
            let hits: Vec<&NInput> = got.iter().filter(|g| g.name == w.name).collect();
            if hits.len() != 1 {
                self.diff("input-missing", &p, "present once".into(), format!("{} time(s)", hits.len()));
                continue;
            }
            let g = hits[0];
            self.st.add("input_values_compared", 1);
            if g.ty != w.ty {
                self.diff("input-type", &p, w.ty.clone(), g.ty.clone());
            }
            match (&w.default, &g.default) {
                (None, None) => {}
                (Some(a), Some(b)) => {
                    self.st.add("defaults_compared", 1);
                    if matches!(a, SVal::Str(_)) {
                        self.st.add("string_defaults_compared", 1);
                    }
                    if !val_eq(a, b) {
                        self.diff("default", &p, a.show(), b.show());
                    }
                }
                (a, b) => self.diff(
                    "default",
                    &p,
                    a.as_ref().map(|x| x.show()).unwrap_or("no default".into()),
                    b.as_ref().map(|x| x.show()).unwrap_or("no default".into()),
                ),
            }
            if dirdef {
                // arguments of a directive definition: see c17.rs for what is asserted
                self.st.add("directive_definition_arguments_compared", 1);
                self.description(&p, &w.description, &g.description);
                self.deprecation(&p, &w.dep, &g.directives);
            } else {
                self.description(&p, &w.description, &g.description);
                self.deprecation(&p, &w.dep, &g.directives);
                self.applied(&p, &w.directives, &[], &g.directives);
            }
        }
        for g in got {
            if !want.iter().any(|w| w.name == g.name) {
                self.diff("input-extra", &format!("{path}.{what} {}", g.name), "absent".into(), "present".into());
            }
        }
        self.sorted(
            path,
            what,
            sort_on,
            got.iter().map(|g| g.name.as_str()).collect(),
            want.iter().map(|g| g.name.as_str()).collect(),
        );
    }

    fn fields(&mut self, path: &str, want: &[SField], got: &[NField], admit_federation_fields: bool) {
        for w in want {
            let p = format!("{path}.field {}", w.name);
            let hits: Vec<&NField> = got.iter().filter(|g| g.name == w.name).collect();
            if hits.len() != 1 {
                self.diff("field-missing", &p, "present once".into(), format!("{} time(s)", hits.len()));
                continue;
            }
            let g = hits[0];
            self.st.add("fields_compared", 1);
            if g.ty != w.ty {
                self.diff("field-type", &p, w.ty.clone(), g.ty.clone());
            }
            self.description(&p, &w.description, &g.description);
            self.deprecation(&p, &w.dep, &g.directives);
            self.applied(&p, &w.directives, &[], &g.directives);
            self.inputs(&p, "argument", self.o.sorted_arguments, &w.args, &g.args, false);
        }
        let mut names = vec![];
        for g in got {
            if admit_federation_fields && FEDERATION_FIELDS.contains(&g.name.as_str()) {
                continue;
            }
            names.push(g.name.as_str());
            if !want.iter().any(|w| w.name == g.name) {
                self.diff("field-extra", &format!("{path}.field {}", g.name), "absent".into(), "present".into());
            }
        }
        self.sorted(path, "fields", self.o.sorted_fields, names, want.iter().map(|g| g.name.as_str()).collect());
    }
}

fn set_eq(a: &[String], b: &[String]) -> bool {
    let mut x: Vec<&String> = a.iter().collect();
    let mut y: Vec<&String> = b.iter().collect();
    x.sort();
    y.sort();
    x == y
}

/// Built-in directive definitions: if the SDL prints one it must be this.
fn builtin_directive(name: &str) -> Option<SDirDef> {
    let arg = |n: &str, ty: &str, default: Option<SVal>| SInput {
        name: n.into(),
        ty: ty.into(),
        default,
        ..Default::default()
    };
    let locs = |l: &[&str]| l.iter().map(|s| s.to_string()).collect::<Vec<_>>();
    Some(match name {
        "skip" => SDirDef {
            name: "skip".into(),
            description: Some(
                "Directs the executor to skip this field or fragment when the `if` argument is true.".into(),
            ),
            args: vec![arg("if", "Boolean!", None)],
            locations: locs(&["FIELD", "FRAGMENT_SPREAD", "INLINE_FRAGMENT"]),
            ..Default::default()
        },
        "include" => SDirDef {
            name: "include".into(),
            description: Some(
                "Directs the executor to include this field or fragment only when the `if` argument is true.".into(),
            ),
            args: vec![arg("if", "Boolean!", None)],
            locations: locs(&["FIELD", "FRAGMENT_SPREAD", "INLINE_FRAGMENT"]),
            ..Default::default()
        },
        "deprecated" => SDirDef {
            name: "deprecated".into(),
            description: Some("Marks an element of a GraphQL schema as no longer supported.".into()),
            args: vec![arg("reason", "String", Some(SVal::Str("No longer supported".into())))],
            locations: locs(&["FIELD_DEFINITION", "ARGUMENT_DEFINITION", "INPUT_FIELD_DEFINITION", "ENUM_VALUE"]),
            ..Default::default()
        },
        "specifiedBy" => SDirDef {
            name: "specifiedBy".into(),
            description: Some(
                "Provides a scalar specification URL for specifying the behavior of custom scalar types.".into(),
            ),
            args: vec![arg("url", "String!", None)],
            locations: locs(&["SCALAR"]),
            ..Default::default()
        },
        "oneOf" => SDirDef {
            name: "oneOf".into(),
            description: Some(
                "Indicates that an Input Object is a OneOf Input Object (and thus requires exactly one of its field be provided)"
                    .into(),
            ),
            args: vec![],
            locations: locs(&["INPUT_OBJECT"]),
            ..Default::default()
        },
        _ => return None,
    })
}

/// Compare. `who` names the parser the model came from (only for messages).
pub fn compare(src: &SModel, o: &Opts, doc: &NDoc, st: &mut Stats) -> Vec<Diff> {
    let mut cx = Cx { o, diffs: vec![], st };

    if doc.foreign_definitions > 0 {
        cx.diff("document", "document", "type-system definitions only".into(), format!("{} other definitions", doc.foreign_definitions));
    }

    // ---- schema definition
    let plain: Vec<&NSchemaDef> = doc.schemas.iter().filter(|s| !s.extend).collect();
    let exts: Vec<&NSchemaDef> = doc.schemas.iter().filter(|s| s.extend).collect();
    if !o.federation {
        cx.st.add("schema_definitions_compared", 1);
        if plain.len() != 1 {
            cx.diff("schema-roots", "schema", "one schema definition".into(), format!("{}", plain.len()));
        } else {
            let s = plain[0];
            if s.query.as_deref() != Some(src.query.as_str()) || s.mutation != src.mutation || s.subscription != src.subscription
            {
                cx.diff(
                    "schema-roots",
                    "schema",
                    format!("query {:?} mutation {:?} subscription {:?}", Some(&src.query), src.mutation, src.subscription),
                    format!("query {:?} mutation {:?} subscription {:?}", s.query, s.mutation, s.subscription),
                );
            }
        }
        if !exts.is_empty() {
            cx.diff("schema-roots", "schema", "no schema extension".into(), format!("{} `extend schema`", exts.len()));
        }
    } else {
        cx.st.add("federation_schema_extensions_seen", exts.len() as u64);
        // roots, if printed at all, must be the right ones
        for s in &plain {
            if s.query.as_deref() != Some(src.query.as_str()) || s.mutation != src.mutation || s.subscription != src.subscription
            {
                cx.diff("schema-roots", "schema", "the schema's root types".into(), format!("{s:?}"));
            }
        }
    }

    // ---- types
    for t in &src.types {
        let p = format!("{} {}", t.kind.word(), t.name);
        let hits: Vec<&NType> = doc.types.iter().filter(|g| g.name == t.name).collect();
        if hits.is_empty() && o.federation && Some(&t.name) == src.subscription.as_ref() && !src.federation_subscription {
            cx.st.add("federation_subscription_root_omitted", 1);
            continue;
        }
        if hits.len() != 1 {
            cx.diff("type-missing", &p, "defined once".into(), format!("defined {} time(s)", hits.len()));
            continue;
        }
        let g = hits[0];
        cx.st.add("types_compared", 1);
        if g.kind != t.kind.word() {
            cx.diff("kind", &p, t.kind.word().into(), g.kind.into());
            continue;
        }
        if g.extend && !(o.federation && t.fed.extends) {
            cx.diff("kind", &p, "a definition".into(), "an extension (`extend`)".into());
        }
        if g.extend {
            // the grammar gives a type extension no description: nothing to compare
            cx.st.add("extension_descriptions_not_compared", 1);
            if g.description.is_some() {
                cx.diff("description", &p, "no description on an extension".into(), opt_str(&g.description));
            }
        } else {
            cx.description(&p, &t.description, &g.description);
        }
        let mut extra: Vec<(&str, Option<&str>)> = vec![];
        match &t.kind {
            SKind::Scalar { specified_by_url } => {
                if let (true, Some(u)) = (o.include_specified_by, specified_by_url) {
                    extra.push(("specifiedBy", Some(u.as_str())));
                    cx.st.add("specified_by_compared", 1);
                }
            }
            SKind::Object { implements, fields } | SKind::Interface { implements, fields } => {
                cx.st.add("implements_compared", 1);
                if !implements.is_empty() {
                    cx.st.add("implements_nonempty_compared", 1);
                    if t.kind.word() == "interface" {
                        cx.st.add("interface_implements_compared", 1);
                    }
                }
                if !set_eq(implements, &g.implements) {
                    cx.diff("implements", &p, format!("{implements:?}"), format!("{:?}", g.implements));
                }
                let admit = t.name == src.query && src.federation_enabled && !o.federation;
                cx.fields(&p, fields, &g.fields, admit);
            }
            SKind::Union { members } => {
                cx.st.add("union_members_compared", members.len() as u64);
                if !set_eq(members, &g.members) {
                    cx.diff("union-members", &p, format!("{members:?}"), format!("{:?}", g.members));
                }
            }
            SKind::Enum { values } => {
                for w in values {
                    let vp = format!("{p}.value {}", w.name);
                    let hs: Vec<&NEnumValue> = g.values.iter().filter(|x| x.name == w.name).collect();
                    if hs.len() != 1 {
                        cx.diff("enum-value-missing", &vp, "present once".into(), format!("{} time(s)", hs.len()));
                        continue;
                    }
                    cx.st.add("enum_values_compared", 1);
                    cx.description(&vp, &w.description, &hs[0].description);
                    cx.deprecation(&vp, &w.dep, &hs[0].directives);
                    cx.applied(&vp, &w.directives, &[], &hs[0].directives);
                }
                for x in &g.values {
                    if !values.iter().any(|w| w.name == x.name) {
                        cx.diff("enum-value-extra", &format!("{p}.value {}", x.name), "absent".into(), "present".into());
                    }
                }
                cx.sorted(
                    &p,
                    "enum values",
                    o.sorted_enum_items,
                    g.values.iter().map(|x| x.name.as_str()).collect(),
                    values.iter().map(|x| x.name.as_str()).collect(),
                );
            }
            SKind::Input { fields, oneof } => {
                if *oneof {
                    extra.push(("oneOf", None));
                    cx.st.add("oneof_compared", 1);
                }
                cx.inputs(&p, "input field", o.sorted_fields, fields, &g.inputs, false);
            }
        }
        cx.applied(&p, &t.directives, &extra, &g.directives);
    }
    for g in &doc.types {
        if src.types.iter().any(|t| t.name == g.name) {
            continue;
        }
        if src.federation_enabled && !o.federation && FEDERATION_TYPES.contains(&g.name.as_str()) {
            cx.st.add("federation_types_seen", 1);
            continue;
        }
        cx.diff("type-extra", &format!("{} {}", g.kind, g.name), "absent".into(), "defined".into());
    }

    // ---- directive definitions
    for g in &doc.directive_defs {
        let p = format!("directive @{}", g.name);
        let n = doc.directive_defs.iter().filter(|x| x.name == g.name).count();
        if n != 1 {
            cx.diff("directive-definition", &p, "defined once".into(), format!("defined {n} times"));
        }
        let custom = src.directive_defs.iter().find(|d| d.name == g.name).cloned();
        let is_custom = custom.is_some();
        let Some(w) = custom.or_else(|| builtin_directive(&g.name)) else {
            cx.diff("directive-definition", &p, "absent".into(), "defined".into());
            continue;
        };
        cx.st.add(if is_custom { "custom_directive_definitions_compared" } else { "builtin_directive_definitions_compared" }, 1);
        cx.description(&p, &w.description, &g.description);
        if let Some(rep) = g.repeatable {
            cx.st.add("directive_repeatable_compared", 1);
            if rep != w.repeatable {
                cx.diff("directive-definition", &p, format!("repeatable={}", w.repeatable), format!("repeatable={rep}"));
            }
        }
        if !set_eq(&w.locations, &g.locations) {
            cx.diff("directive-definition", &p, format!("on {:?}", w.locations), format!("on {:?}", g.locations));
        }
        // argument order of a directive definition is never sorted by an option
        let save = cx.diffs.len();
        cx.inputs(&p, "argument", false, &w.args, &g.args, true);
        if !is_custom {
            // built-in directives: argument descriptions are not demanded
            let mut k = save;
            while k < cx.diffs.len() {
                if cx.diffs[k].aspect == "description" {
                    cx.diffs.remove(k);
                } else {
                    k += 1;
                }
            }
        }
    }
    for w in &src.directive_defs {
        if !doc.directive_defs.iter().any(|g| g.name == w.name) {
            cx.diff("directive-definition", &format!("directive @{}", w.name), "defined".into(), "absent".into());
        }
    }
    cx.diffs
}
