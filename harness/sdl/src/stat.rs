//! The derive-built schema family: small schemas written by hand with the
//! macros of async-graphql, each with its hand-written source model beside it
//! (the model states what the Rust source declares — it is not derived from
//! the registry).
//!
//! `requires` lists the generator features a schema needs: a schema that
//! contains text of a class with a known, unrepaired defect is skipped while
//! that class is excluded.

#![allow(non_camel_case_types, clippy::all)]

use crate::src::*;

pub struct StaticSchema {
    pub name: &'static str,
    pub requires: &'static [&'static str],
    pub export: Box<dyn Fn(&Opts) -> String + Send + Sync>,
    /// `Schema::sdl()`
    pub plain: Box<dyn Fn() -> String + Send + Sync>,
    pub model: SModel,
}

// ------------------------------------------------------------------ model DSL

fn ty(name: &str, kind: SKind) -> SType {
    SType { name: name.into(), description: None, kind, directives: vec![], fed: Fed::default() }
}
fn object(name: &str, implements: &[&str], fields: Vec<SField>) -> SType {
    ty(name, SKind::Object { implements: implements.iter().map(|s| s.to_string()).collect(), fields })
}
fn interface(name: &str, implements: &[&str], fields: Vec<SField>) -> SType {
    ty(name, SKind::Interface { implements: implements.iter().map(|s| s.to_string()).collect(), fields })
}
fn fld(name: &str, t: &str) -> SField {
    SField { name: name.into(), ty: t.into(), ..Default::default() }
}
fn inp(name: &str, t: &str) -> SInput {
    SInput { name: name.into(), ty: t.into(), ..Default::default() }
}
fn ev(name: &str) -> SEnumValue {
    SEnumValue { name: name.into(), ..Default::default() }
}
fn dir(name: &str, args: Vec<(&str, SVal)>) -> SDir {
    SDir { name: name.into(), args: args.into_iter().map(|(k, v)| (k.to_string(), v)).collect() }
}
fn s(x: &str) -> SVal {
    SVal::Str(x.into())
}

trait Deco: Sized {
    fn desc(self, d: &str) -> Self;
    fn dir(self, d: SDir) -> Self;
}
macro_rules! deco {
    ($t:ty) => {
        impl Deco for $t {
            fn desc(mut self, d: &str) -> Self {
                self.description = Some(d.to_string());
                self
            }
            fn dir(mut self, d: SDir) -> Self {
                self.directives.push(d);
                self
            }
        }
    };
}
deco!(SType);
deco!(SField);
deco!(SInput);
deco!(SEnumValue);

impl SField {
    fn dep(mut self, r: Option<&str>) -> Self {
        self.dep = Dep::yes(r);
        self
    }
    fn arg(mut self, a: SInput) -> Self {
        self.args.push(a);
        self
    }
}
impl SInput {
    fn dep(mut self, r: Option<&str>) -> Self {
        self.dep = Dep::yes(r);
        self
    }
    fn default(mut self, v: SVal) -> Self {
        self.default = Some(v);
        self
    }
}
impl SEnumValue {
    fn dep(mut self, r: Option<&str>) -> Self {
        self.dep = Dep::yes(r);
        self
    }
}

// ------------------------------------------------------------------ "clean"
// Hostile but exactly representable text everywhere; must hold on every tree.

pub mod clean {
    use async_graphql::*;
    use futures_util::stream::{self, Stream};

    /// Says who owns a definition. "Quoted" text.
    #[TypeDirective(
        location = "FieldDefinition",
        location = "Object",
        location = "Interface",
        location = "Enum",
        location = "EnumValue",
        location = "InputObject",
        location = "InputFieldDefinition",
        location = "ArgumentDefinition",
        repeatable
    )]
    pub fn owner(team: String, #[graphql(default = 3)] level: i32, #[graphql(default = "say \"hi\" \\ é")] note: String) {}

    #[TypeDirective(location = "FieldDefinition")]
    pub fn plain() {}

    /// A pet's species, "quoted" and ""double quoted"".
    /// Second line: naïve 日本語 😀 and a backslash \ here.
    #[derive(Enum, Copy, Clone, Eq, PartialEq)]
    #[graphql(directive = owner::apply("enum team".to_string(), 1, "n".to_string()))]
    pub enum Species {
        /// Barks. Says "woof".
        Dog,
        #[graphql(deprecation = "back\\slash, new\nline, tab\t, cr\r, bs\u{8}, ff\u{c}")]
        Wolf,
        #[graphql(deprecation)]
        Cat,
        #[graphql(directive = owner::apply("value \"team\"".to_string(), 2, "x\\y".to_string()))]
        GoldFish,
    }

    /// Filter for pets.
    #[derive(InputObject)]
    #[graphql(directive = owner::apply("inputs".to_string(), 4, "\u{1}\u{7f}".to_string()))]
    pub struct PetFilter {
        /// Name pattern.
        #[graphql(default = "say \"hi\" \\ \u{1} \"\"\" é 😀")]
        pub pattern: String,
        #[graphql(default = 10)]
        pub limit: i32,
        #[graphql(default)]
        pub offset: i32,
        #[graphql(default = 0.5)]
        pub ratio: f64,
        #[graphql(default = true)]
        pub alive: bool,
        #[graphql(deprecation = "no longer used", default_with = "vec![\"a\\\"b\".to_string(), String::new()]")]
        pub labels: Vec<String>,
        #[graphql(default_with = "Species::Dog")]
        pub species: Species,
        #[graphql(deprecation)]
        pub legacy: Option<i32>,
        #[graphql(directive = owner::apply("field".to_string(), 5, "".to_string()))]
        pub owner_id: Option<ID>,
    }

    /// Exactly one way to find a pet.
    #[derive(OneofObject)]
    pub enum PetBy {
        /// By its id.
        Id(ID),
        Name(String),
        #[graphql(deprecation = "use name")]
        Nick(String),
    }

    /// A dog.
    #[derive(SimpleObject)]
    #[graphql(directive = owner::apply("dogs".to_string(), 1, "".to_string()))]
    pub struct Dog {
        /// The name.
        pub name: String,
        #[graphql(deprecation = "use `name`")]
        pub nick: Option<String>,
        #[graphql(deprecation)]
        pub age: i32,
        pub species: Species,
    }

    #[derive(SimpleObject)]
    pub struct Cat {
        pub name: String,
        #[graphql(
            directive = owner::apply("a".to_string(), 1, "first".to_string()),
            directive = plain::apply(),
            directive = owner::apply("b".to_string(), 2, "second".to_string())
        )]
        pub lives: i32,
    }

    /// Anything with a name.
    #[derive(Interface)]
    #[graphql(
        field(name = "name", ty = "&String", desc = "The \"name\" of it."),
        directive = owner::apply("iface".to_string(), 9, "z".to_string())
    )]
    pub enum Named {
        Dog(Dog),
        Cat(Cat),
    }

    /// Either pet.
    #[derive(Union)]
    pub enum Pet {
        Dog(Dog),
        Cat(Cat),
    }

    pub struct Stamp(pub i64);

    /// A point in time.
    #[Scalar(specified_by_url = "https://example.com/stamp?a=\"b\"")]
    impl ScalarType for Stamp {
        fn parse(value: Value) -> InputValueResult<Self> {
            match value {
                Value::Number(n) => Ok(Stamp(n.as_i64().unwrap_or(0))),
                other => Err(InputValueError::expected_type(other)),
            }
        }
        fn to_value(&self) -> Value {
            Value::Number(self.0.into())
        }
    }

    pub struct Query;

    /// The root. Ends with a quote "
    #[Object]
    impl Query {
        /// Finds pets.
        ///
        /// Blank line above.
        async fn pets(
            &self,
            #[graphql(desc = "Filter to apply.", default_with = "default_filter()")] _filter: PetFilter,
            #[graphql(default = 5, deprecation = "use filter.limit")] _first: i32,
            #[graphql(desc = "multi\nline \"desc\"", default = "x\ny\t\"z\"\\")] _after: String,
            _by: Option<PetBy>,
            #[graphql(directive = owner::apply("arg".to_string(), 6, "n".to_string()))] _flag: Option<bool>,
        ) -> Vec<Pet> {
            vec![]
        }

        #[graphql(deprecation = "use pets")]
        async fn named(&self) -> Option<Named> {
            None
        }

        async fn stamp(&self, #[graphql(default_with = "Stamp(7)")] _at: Stamp) -> Stamp {
            Stamp(0)
        }
    }

    fn default_filter() -> PetFilter {
        PetFilter {
            pattern: "p\"q".to_string(),
            limit: 1,
            offset: 2,
            ratio: 1.5,
            alive: false,
            labels: vec!["l".to_string()],
            species: Species::GoldFish,
            legacy: None,
            owner_id: Some(ID::from("id-1")),
        }
    }

    pub struct Mutation;

    #[Object]
    impl Mutation {
        async fn rename(&self, _id: ID, #[graphql(default = "Rex")] _name: String) -> bool {
            true
        }
    }

    pub struct Subscription;

    #[Subscription]
    impl Subscription {
        /// Ticks.
        #[graphql(deprecation = "slow")]
        async fn ticks(&self, #[graphql(default = 1)] _every: i32) -> impl Stream<Item = i32> {
            stream::iter(vec![1])
        }
    }

    pub fn schema() -> Schema<Query, Mutation, Subscription> {
        Schema::build(Query, Mutation, Subscription).finish()
    }
}

fn clean_model() -> SModel {
    let owner = |team: &str, level: i64, note: &str| {
        dir("owner", vec![("team", s(team)), ("level", SVal::Int(level)), ("note", s(note))])
    };
    SModel {
        query: "Query".into(),
        mutation: Some("Mutation".into()),
        subscription: Some("Subscription".into()),
        directive_defs: vec![
            SDirDef {
                name: "owner".into(),
                description: Some("Says who owns a definition. \"Quoted\" text.".into()),
                args: vec![
                    inp("team", "String!"),
                    inp("level", "Int!").default(SVal::Int(3)),
                    inp("note", "String!").default(s("say \"hi\" \\ é")),
                ],
                repeatable: true,
                locations: [
                    "FIELD_DEFINITION",
                    "OBJECT",
                    "INTERFACE",
                    "ENUM",
                    "ENUM_VALUE",
                    "INPUT_OBJECT",
                    "INPUT_FIELD_DEFINITION",
                    "ARGUMENT_DEFINITION",
                ]
                .iter()
                .map(|x| x.to_string())
                .collect(),
                composable: None,
            },
            SDirDef { name: "plain".into(), locations: vec!["FIELD_DEFINITION".into()], ..Default::default() },
        ],
        types: vec![
            ty(
                "Species",
                SKind::Enum {
                    values: vec![
                        ev("DOG").desc("Barks. Says \"woof\"."),
                        ev("WOLF").dep(Some("back\\slash, new\nline, tab\t, cr\r, bs\u{8}, ff\u{c}")),
                        ev("CAT").dep(None),
                        ev("GOLD_FISH").dir(owner("value \"team\"", 2, "x\\y")),
                    ],
                },
            )
            .desc("A pet's species, \"quoted\" and \"\"double quoted\"\".\nSecond line: naïve 日本語 😀 and a backslash \\ here.")
            .dir(owner("enum team", 1, "n")),
            ty(
                "PetFilter",
                SKind::Input {
                    oneof: false,
                    fields: vec![
                        inp("pattern", "String!").desc("Name pattern.").default(s("say \"hi\" \\ \u{1} \"\"\" é 😀")),
                        inp("limit", "Int!").default(SVal::Int(10)),
                        inp("offset", "Int!").default(SVal::Int(0)),
                        inp("ratio", "Float!").default(SVal::Float(0.5)),
                        inp("alive", "Boolean!").default(SVal::Bool(true)),
                        inp("labels", "[String!]!")
                            .default(SVal::List(vec![s("a\"b"), s("")]))
                            .dep(Some("no longer used")),
                        inp("species", "Species!").default(SVal::Enum("DOG".into())),
                        inp("legacy", "Int").dep(None),
                        inp("ownerId", "ID").dir(owner("field", 5, "")),
                    ],
                },
            )
            .desc("Filter for pets.")
            .dir(owner("inputs", 4, "\u{1}\u{7f}")),
            ty(
                "PetBy",
                SKind::Input {
                    oneof: true,
                    fields: vec![
                        inp("id", "ID").desc("By its id."),
                        inp("name", "String"),
                        inp("nick", "String").dep(Some("use name")),
                    ],
                },
            )
            .desc("Exactly one way to find a pet."),
            object(
                "Dog",
                &["Named"],
                vec![
                    fld("name", "String!").desc("The name."),
                    fld("nick", "String").dep(Some("use `name`")),
                    fld("age", "Int!").dep(None),
                    fld("species", "Species!"),
                ],
            )
            .desc("A dog.")
            .dir(owner("dogs", 1, "")),
            object(
                "Cat",
                &["Named"],
                vec![
                    fld("name", "String!"),
                    fld("lives", "Int!")
                        .dir(owner("a", 1, "first"))
                        .dir(dir("plain", vec![]))
                        .dir(owner("b", 2, "second")),
                ],
            ),
            interface("Named", &[], vec![fld("name", "String!").desc("The \"name\" of it.")])
                .desc("Anything with a name.")
                .dir(owner("iface", 9, "z")),
            ty("Pet", SKind::Union { members: vec!["Dog".into(), "Cat".into()] }).desc("Either pet."),
            ty("Stamp", SKind::Scalar { specified_by_url: Some("https://example.com/stamp?a=\"b\"".into()) })
                .desc("A point in time."),
            object(
                "Query",
                &[],
                vec![
                    fld("pets", "[Pet!]!")
                        .desc("Finds pets.\n\nBlank line above.")
                        .arg(inp("filter", "PetFilter!").desc("Filter to apply.").default(SVal::Obj(vec![
                            ("pattern".into(), s("p\"q")),
                            ("limit".into(), SVal::Int(1)),
                            ("offset".into(), SVal::Int(2)),
                            ("ratio".into(), SVal::Float(1.5)),
                            ("alive".into(), SVal::Bool(false)),
                            ("labels".into(), SVal::List(vec![s("l")])),
                            ("species".into(), SVal::Enum("GOLD_FISH".into())),
                            ("legacy".into(), SVal::Null),
                            ("ownerId".into(), s("id-1")),
                        ])))
                        .arg(inp("first", "Int!").default(SVal::Int(5)).dep(Some("use filter.limit")))
                        .arg(inp("after", "String!").desc("multi\nline \"desc\"").default(s("x\ny\t\"z\"\\")))
                        .arg(inp("by", "PetBy"))
                        .arg(inp("flag", "Boolean").dir(owner("arg", 6, "n"))),
                    fld("named", "Named").dep(Some("use pets")),
                    fld("stamp", "Stamp!").arg(inp("at", "Stamp!").default(SVal::Int(7))),
                ],
            )
            .desc("The root. Ends with a quote \""),
            object(
                "Mutation",
                &[],
                vec![fld("rename", "Boolean!").arg(inp("id", "ID!")).arg(inp("name", "String!").default(s("Rex")))],
            ),
            object(
                "Subscription",
                &[],
                vec![fld("ticks", "Int!")
                    .desc("Ticks.")
                    .dep(Some("slow"))
                    .arg(inp("every", "Int!").default(SVal::Int(1)))],
            ),
        ],
        ..Default::default()
    }
}

// ---------------------------------------------------------- "reason_quote"

pub mod reason_quote {
    use async_graphql::*;

    #[derive(Enum, Copy, Clone, Eq, PartialEq)]
    pub enum Animal {
        Dog,
        #[graphql(deprecation = "use \"dog\" instead")]
        Hound,
    }

    #[derive(InputObject)]
    pub struct Find {
        #[graphql(deprecation = "say \"no\"")]
        pub old: Option<i32>,
        pub new: Option<i32>,
    }

    pub struct Query;

    #[Object]
    impl Query {
        #[graphql(deprecation = "a \" b \\ c")]
        async fn animal(&self, #[graphql(deprecation = "\"")] _legacy: Option<i32>, _find: Option<Find>) -> Animal {
            Animal::Dog
        }
        async fn ok(&self) -> i32 {
            1
        }
    }

    pub fn schema() -> Schema<Query, EmptyMutation, EmptySubscription> {
        Schema::build(Query, EmptyMutation, EmptySubscription).finish()
    }
}

fn reason_quote_model() -> SModel {
    SModel {
        query: "Query".into(),
        types: vec![
            ty("Animal", SKind::Enum { values: vec![ev("DOG"), ev("HOUND").dep(Some("use \"dog\" instead"))] }),
            ty(
                "Find",
                SKind::Input { oneof: false, fields: vec![inp("old", "Int").dep(Some("say \"no\"")), inp("new", "Int")] },
            ),
            object(
                "Query",
                &[],
                vec![
                    fld("animal", "Animal!")
                        .dep(Some("a \" b \\ c"))
                        .arg(inp("legacy", "Int").dep(Some("\"")))
                        .arg(inp("find", "Find")),
                    fld("ok", "Int!"),
                ],
            ),
        ],
        ..Default::default()
    }
}

// ------------------------------------------ "interface_directive_implements"

pub mod iface_dir {
    use async_graphql::*;

    #[TypeDirective(location = "Interface", location = "Object")]
    pub fn marker(label: String) {}

    #[derive(SimpleObject)]
    pub struct Doc {
        pub id: ID,
        pub title: String,
    }

    /// Something stored.
    #[derive(Interface)]
    #[graphql(
        field(name = "id", ty = "&ID"),
        field(name = "title", ty = "&String"),
        directive = marker::apply("resource".to_string())
    )]
    pub enum Resource {
        Doc(Doc),
    }

    #[derive(Interface)]
    #[graphql(field(name = "id", ty = "&ID"))]
    pub enum Node {
        Resource(Resource),
        Doc(Doc),
    }

    pub struct Query;

    #[Object]
    impl Query {
        async fn node(&self) -> Option<Node> {
            None
        }
    }

    pub fn schema() -> Schema<Query, EmptyMutation, EmptySubscription> {
        Schema::build(Query, EmptyMutation, EmptySubscription).finish()
    }
}

fn iface_dir_model() -> SModel {
    SModel {
        query: "Query".into(),
        directive_defs: vec![SDirDef {
            name: "marker".into(),
            args: vec![inp("label", "String!")],
            locations: vec!["INTERFACE".into(), "OBJECT".into()],
            ..Default::default()
        }],
        types: vec![
            object("Doc", &["Resource", "Node"], vec![fld("id", "ID!"), fld("title", "String!")]),
            interface("Resource", &["Node"], vec![fld("id", "ID!"), fld("title", "String!")])
                .desc("Something stored.")
                .dir(dir("marker", vec![("label", s("resource"))])),
            interface("Node", &[], vec![fld("id", "ID!")]),
            object("Query", &[], vec![fld("node", "Node")]),
        ],
        ..Default::default()
    }
}

// ---------------------------------------- interface implements, no directive

pub mod iface_plain {
    use async_graphql::*;

    #[derive(SimpleObject)]
    pub struct Doc {
        pub id: ID,
        pub title: String,
    }

    /// Something stored.
    #[derive(Interface)]
    #[graphql(field(name = "id", ty = "&ID"), field(name = "title", ty = "&String"))]
    pub enum Resource {
        Doc(Doc),
    }

    #[derive(Interface)]
    #[graphql(field(name = "id", ty = "&ID"))]
    pub enum Node {
        Resource(Resource),
        Doc(Doc),
    }

    pub struct Query;

    #[Object]
    impl Query {
        async fn node(&self) -> Option<Node> {
            None
        }
    }

    pub fn schema() -> Schema<Query, EmptyMutation, EmptySubscription> {
        Schema::build(Query, EmptyMutation, EmptySubscription).finish()
    }
}

fn iface_plain_model() -> SModel {
    SModel {
        query: "Query".into(),
        types: vec![
            object("Doc", &["Resource", "Node"], vec![fld("id", "ID!"), fld("title", "String!")]),
            interface("Resource", &["Node"], vec![fld("id", "ID!"), fld("title", "String!")]).desc("Something stored."),
            interface("Node", &[], vec![fld("id", "ID!")]),
            object("Query", &[], vec![fld("node", "Node")]),
        ],
        ..Default::default()
    }
}

// ------------------------------- nested interfaces, four levels, no re-declaration

pub mod iface_chain {
    use async_graphql::*;

    /// Registered under the innermost interface only.
    #[derive(SimpleObject)]
    pub struct Leaf {
        pub id: ID,
        pub two: i32,
        pub three: i32,
        pub four: i32,
        pub own: Option<String>,
    }

    /// Registered under the second level only.
    #[derive(SimpleObject)]
    pub struct MidLeaf {
        pub id: ID,
        pub two: i32,
    }

    #[derive(Interface)]
    #[graphql(
        field(name = "id", ty = "&ID"),
        field(name = "two", ty = "&i32"),
        field(name = "three", ty = "&i32"),
        field(name = "four", ty = "&i32")
    )]
    pub enum Level4 {
        Leaf(Leaf),
    }

    #[derive(Interface)]
    #[graphql(field(name = "id", ty = "&ID"), field(name = "two", ty = "&i32"), field(name = "three", ty = "&i32"))]
    pub enum Level3 {
        Level4(Level4),
    }

    /// Second of four.
    #[derive(Interface)]
    #[graphql(field(name = "id", ty = "&ID"), field(name = "two", ty = "&i32"))]
    pub enum Level2 {
        Level3(Level3),
        MidLeaf(MidLeaf),
    }

    #[derive(Interface)]
    #[graphql(field(name = "id", ty = "&ID"))]
    pub enum Level1 {
        Level2(Level2),
    }

    pub struct Query;

    #[Object]
    impl Query {
        async fn top(&self) -> Option<Level1> {
            None
        }
        async fn leaf(&self) -> Option<Leaf> {
            None
        }
    }

    pub fn schema() -> Schema<Query, EmptyMutation, EmptySubscription> {
        Schema::build(Query, EmptyMutation, EmptySubscription).finish()
    }
}

/// What the source declares: an interface that is a variant of another
/// interface implements it, so a type implements every interface above it.
fn iface_chain_model() -> SModel {
    let ints = |ns: &[&str]| -> Vec<SField> {
        let mut v = vec![fld("id", "ID!")];
        v.extend(ns.iter().map(|n| fld(n, "Int!")));
        v
    };
    SModel {
        query: "Query".into(),
        types: vec![
            object("Leaf", &["Level4", "Level3", "Level2", "Level1"], {
                let mut f = ints(&["two", "three", "four"]);
                f.push(fld("own", "String"));
                f
            })
            .desc("Registered under the innermost interface only."),
            object("MidLeaf", &["Level2", "Level1"], ints(&["two"])).desc("Registered under the second level only."),
            interface("Level4", &["Level3", "Level2", "Level1"], ints(&["two", "three", "four"])),
            interface("Level3", &["Level2", "Level1"], ints(&["two", "three"])),
            interface("Level2", &["Level1"], ints(&["two"])).desc("Second of four."),
            interface("Level1", &[], ints(&[])),
            object("Query", &[], vec![fld("top", "Level1"), fld("leaf", "Leaf")]),
        ],
        ..Default::default()
    }
}

// ------------------------------------------------- hostile description text

pub mod doc_triple {
    use async_graphql::*;

    /// Uses """triple""" quotes.
    #[derive(SimpleObject)]
    pub struct Thing {
        /// Multi-line with
        /// a """ in the middle.
        pub a: i32,
    }

    pub struct Query;
    #[Object]
    impl Query {
        async fn thing(&self) -> Option<Thing> {
            None
        }
    }
    pub fn schema() -> Schema<Query, EmptyMutation, EmptySubscription> {
        Schema::build(Query, EmptyMutation, EmptySubscription).finish()
    }
}
fn doc_triple_model() -> SModel {
    SModel {
        query: "Query".into(),
        types: vec![
            object("Thing", &[], vec![fld("a", "Int!").desc("Multi-line with\na \"\"\" in the middle.")])
                .desc("Uses \"\"\"triple\"\"\" quotes."),
            object("Query", &[], vec![fld("thing", "Thing")]),
        ],
        ..Default::default()
    }
}

pub mod doc_backslash {
    use async_graphql::*;

    /// Lives in C:\pets\dogs
    #[derive(SimpleObject)]
    pub struct Thing {
        /// Matches \d+ and ends with a backslash \
        pub a: i32,
    }

    pub struct Query;
    #[Object]
    impl Query {
        async fn thing(&self, #[graphql(desc = "a literal \\n, not a newline")] _x: Option<i32>) -> Option<Thing> {
            None
        }
    }
    pub fn schema() -> Schema<Query, EmptyMutation, EmptySubscription> {
        Schema::build(Query, EmptyMutation, EmptySubscription).finish()
    }
}
fn doc_backslash_model() -> SModel {
    SModel {
        query: "Query".into(),
        types: vec![
            object("Thing", &[], vec![fld("a", "Int!").desc("Matches \\d+ and ends with a backslash \\")])
                .desc("Lives in C:\\pets\\dogs"),
            object(
                "Query",
                &[],
                vec![fld("thing", "Thing").arg(inp("x", "Int").desc("a literal \\n, not a newline"))],
            ),
        ],
        ..Default::default()
    }
}

pub mod desc_edge {
    use async_graphql::*;
    pub struct Query;
    #[Object]
    impl Query {
        async fn f(
            &self,
            #[graphql(desc = "  indented\n  twice")] _a: Option<i32>,
            #[graphql(desc = "trailing newline\n")] _b: Option<i32>,
            #[graphql(desc = "\nleading newline")] _c: Option<i32>,
            #[graphql(desc = " ")] _d: Option<i32>,
        ) -> i32 {
            0
        }
    }
    pub fn schema() -> Schema<Query, EmptyMutation, EmptySubscription> {
        Schema::build(Query, EmptyMutation, EmptySubscription).finish()
    }
}
fn desc_edge_model() -> SModel {
    SModel {
        query: "Query".into(),
        types: vec![object(
            "Query",
            &[],
            vec![fld("f", "Int!")
                .arg(inp("a", "Int").desc("  indented\n  twice"))
                .arg(inp("b", "Int").desc("trailing newline\n"))
                .arg(inp("c", "Int").desc("\nleading newline"))
                .arg(inp("d", "Int").desc(" "))],
        )],
        ..Default::default()
    }
}

pub mod desc_cr {
    use async_graphql::*;
    pub struct Query;
    #[Object]
    impl Query {
        async fn f(&self, #[graphql(desc = "a\rb")] _a: Option<i32>, #[graphql(desc = "one\r\ntwo")] _b: Option<i32>) -> i32 {
            0
        }
    }
    pub fn schema() -> Schema<Query, EmptyMutation, EmptySubscription> {
        Schema::build(Query, EmptyMutation, EmptySubscription).finish()
    }
}
fn desc_cr_model() -> SModel {
    SModel {
        query: "Query".into(),
        types: vec![object(
            "Query",
            &[],
            vec![fld("f", "Int!").arg(inp("a", "Int").desc("a\rb")).arg(inp("b", "Int").desc("one\r\ntwo"))],
        )],
        ..Default::default()
    }
}

pub mod desc_ctl {
    use async_graphql::*;
    pub struct Query;
    #[Object]
    impl Query {
        async fn f(&self, #[graphql(desc = "bell\u{7} and nul\u{0}")] _a: Option<i32>) -> i32 {
            0
        }
    }
    pub fn schema() -> Schema<Query, EmptyMutation, EmptySubscription> {
        Schema::build(Query, EmptyMutation, EmptySubscription).finish()
    }
}
fn desc_ctl_model() -> SModel {
    SModel {
        query: "Query".into(),
        types: vec![object(
            "Query",
            &[],
            vec![fld("f", "Int!").arg(inp("a", "Int").desc("bell\u{7} and nul\u{0}"))],
        )],
        ..Default::default()
    }
}

// ------------------------------ directive definition with decorated arguments

pub mod dirdef_desc {
    use async_graphql::*;

    /// Audited definitions.
    #[TypeDirective(location = "FieldDefinition")]
    pub fn audited(#[graphql(desc = "Who audits.")] by: String, #[graphql(default = 1)] level: i32) {}

    pub struct Query;
    #[Object]
    impl Query {
        #[graphql(directive = audited::apply("sec".to_string(), 2))]
        async fn f(&self) -> i32 {
            0
        }
    }
    pub fn schema() -> Schema<Query, EmptyMutation, EmptySubscription> {
        Schema::build(Query, EmptyMutation, EmptySubscription).finish()
    }
}
fn dirdef_model(desc: Option<&str>, dep: Option<&str>) -> SModel {
    let mut by = inp("by", "String!");
    by.description = desc.map(|x| x.to_string());
    let mut level = inp("level", "Int!").default(SVal::Int(1));
    if dep.is_some() {
        level = level.dep(dep);
    }
    SModel {
        query: "Query".into(),
        directive_defs: vec![SDirDef {
            name: "audited".into(),
            description: Some("Audited definitions.".into()),
            args: vec![by, level],
            locations: vec!["FIELD_DEFINITION".into()],
            ..Default::default()
        }],
        types: vec![object(
            "Query",
            &[],
            vec![fld("f", "Int!").dir(dir("audited", vec![("by", s("sec")), ("level", SVal::Int(2))]))],
        )],
        ..Default::default()
    }
}

pub mod dirdef_dep {
    use async_graphql::*;

    /// Audited definitions.
    #[TypeDirective(location = "FieldDefinition")]
    pub fn audited(by: String, #[graphql(deprecation = "no longer read", default = 1)] level: i32) {}

    pub struct Query;
    #[Object]
    impl Query {
        #[graphql(directive = audited::apply("sec".to_string(), 2))]
        async fn f(&self) -> i32 {
            0
        }
    }
    pub fn schema() -> Schema<Query, EmptyMutation, EmptySubscription> {
        Schema::build(Query, EmptyMutation, EmptySubscription).finish()
    }
}

// ------------------------------------------------------------- federation

pub mod fed {
    use async_graphql::*;

    #[TypeDirective(location = "FieldDefinition", composable = "https://example.com/spec/v1.0")]
    pub fn costly(weight: i32) {}

    /// A product.
    #[derive(SimpleObject)]
    #[graphql(shareable, tag = "team \"a\"")]
    pub struct Product {
        pub id: ID,
        #[graphql(tag = "money", inaccessible)]
        pub price: i32,
        #[graphql(external)]
        pub weight: Option<i32>,
        #[graphql(requires = "weight", directive = costly::apply(3))]
        pub shipping: Option<i32>,
        #[graphql(deprecation = "use price")]
        pub cost: Option<i32>,
    }

    #[derive(SimpleObject)]
    #[graphql(extends)]
    pub struct User {
        #[graphql(external)]
        pub id: ID,
        #[graphql(provides = "id")]
        pub favourite: Option<Product>,
    }

    pub struct Query;
    #[Object]
    impl Query {
        #[graphql(entity)]
        async fn find_product_by_id(&self, _id: ID) -> Option<Product> {
            None
        }
        #[graphql(entity)]
        async fn find_user_by_id(&self, _id: ID) -> Option<User> {
            None
        }
        /// Everything on offer.
        async fn products(&self, #[graphql(tag = "arg-tag", default = 10)] _first: i32) -> Vec<Product> {
            vec![]
        }
    }
    pub fn schema() -> Schema<Query, EmptyMutation, EmptySubscription> {
        Schema::build(Query, EmptyMutation, EmptySubscription).finish()
    }
}
fn fed_model() -> SModel {
    SModel {
        query: "Query".into(),
        federation_enabled: true,
        directive_defs: vec![SDirDef {
            name: "costly".into(),
            args: vec![inp("weight", "Int!")],
            locations: vec!["FIELD_DEFINITION".into()],
            composable: Some("https://example.com/spec/v1.0".into()),
            ..Default::default()
        }],
        types: vec![
            {
                let mut t = object(
                    "Product",
                    &[],
                    vec![
                        fld("id", "ID!"),
                        fld("price", "Int!"),
                        fld("weight", "Int"),
                        fld("shipping", "Int").dir(dir("costly", vec![("weight", SVal::Int(3))])),
                        fld("cost", "Int").dep(Some("use price")),
                    ],
                )
                .desc("A product.");
                t.fed.keys = vec!["id".into()];
                t
            },
            {
                let mut t = object("User", &[], vec![fld("id", "ID!"), fld("favourite", "Product")]);
                t.fed.extends = true;
                t.fed.keys = vec!["id".into()];
                t
            },
            object(
                "Query",
                &[],
                vec![fld("products", "[Product!]!")
                    .desc("Everything on offer.")
                    .arg(inp("first", "Int!").default(SVal::Int(10)))],
            ),
        ],
        ..Default::default()
    }
}

pub fn family() -> Vec<StaticSchema> {
    macro_rules! entry {
        ($name:literal, $req:expr, $m:ident, $model:expr) => {{
            let schema = $m::schema();
            let schema2 = schema.clone();
            StaticSchema {
                name: $name,
                requires: $req,
                export: Box::new(move |o: &Opts| schema.sdl_with_options(o.to_sdl())),
                plain: Box::new(move || schema2.sdl()),
                model: $model,
            }
        }};
    }
    vec![
        entry!("clean", &[], clean, clean_model()),
        entry!("federation", &[], fed, fed_model()),
        entry!("interface_implements", &[], iface_plain, iface_plain_model()),
        entry!("interface_chain_four_levels", &[], iface_chain, iface_chain_model()),
        entry!("reason_quote", &["reason_quote"], reason_quote, reason_quote_model()),
        entry!("interface_directive_implements", &["interface_directive_with_implements"], iface_dir, iface_dir_model()),
        entry!("doc_triple_quote", &["desc_triple_quote"], doc_triple, doc_triple_model()),
        entry!("doc_backslash", &["desc_backslash_single_line"], doc_backslash, doc_backslash_model()),
        entry!("desc_edge_whitespace", &["desc_edge_whitespace"], desc_edge, desc_edge_model()),
        entry!("desc_carriage_return", &["desc_carriage_return"], desc_cr, desc_cr_model()),
        entry!("desc_control_char", &["desc_control_char"], desc_ctl, desc_ctl_model()),
        entry!(
            "directive_definition_argument_description",
            &["directive_definition_argument_description"],
            dirdef_desc,
            dirdef_model(Some("Who audits."), None)
        ),
        entry!(
            "directive_definition_argument_deprecation",
            &["directive_definition_argument_deprecation"],
            dirdef_dep,
            dirdef_model(None, Some("no longer read"))
        ),
    ]
}
