//! vh-gate: checks about what a request is allowed to reach — introspection
//! modes (C19), secret masking in logged query text (C21), persisted queries (C31).
//!
//! Every resolver of every schema built here appends an `Event` to a shared
//! `EvLog`; the monitors read (and clear) it after each request.

use std::sync::{Arc, Mutex};

mod c19;
mod c21;
mod c31;

#[derive(Clone, Debug, PartialEq, Eq)]
pub struct Event {
    /// "query" | "mutation" | "subscription" | "entity" | "field"
    pub kind: &'static str,
    pub field: String,
    pub args: String,
}

#[derive(Clone, Default)]
pub struct EvLog(Arc<Mutex<Vec<Event>>>);

impl EvLog {
    pub fn push(&self, kind: &'static str, field: &str, args: String) {
        self.0.lock().unwrap().push(Event {
            kind,
            field: field.to_string(),
            args,
        });
    }
    /// Return and clear what was logged since the last call.
    pub fn take(&self) -> Vec<Event> {
        std::mem::take(&mut *self.0.lock().unwrap())
    }
}

pub fn events_json(ev: &[Event]) -> vh_core::serde_json::Value {
    vh_core::serde_json::Value::Array(
        ev.iter()
            .map(|e| vh_core::serde_json::json!({"kind": e.kind, "field": e.field, "args": e.args}))
            .collect(),
    )
}

fn main() {
    let id = std::env::args().nth(1).unwrap_or_default();
    match id.as_str() {
        "C19" => c19::main(),
        "C21" => c21::main(),
        "C31" => c31::main(),
        other => {
            println!("INCONCLUSIVE property={other} reason=vh-gate has no check for this property");
            std::process::exit(2);
        }
    }
}
