//! C19 — introspection modes gate schema metadata and user resolvers.
//!
//! Matrix (enumerated completely): schema-level mode {Enabled, Disabled,
//! IntrospectionOnly} × request-level mode (same three) × {static derive-built
//! schema, dynamic schema} (both with federation and an entity resolver) ×
//! {query, mutation, subscription}. Inside every cell random documents mix
//! `__schema`, `__type`, `__typename` (root and nested), `_service{sdl}`,
//! `_entities`, ordinary fields, aliases of all of them and inline / named
//! fragments around them.
//!
//! Monitors (after every request, over `Response.data` and the resolver log):
//!   D  either level Disabled  ⇒ no non-null `__schema`/`__type` value, no string
//!      under `_service`, and none of the sentinel names that only schema
//!      metadata can produce (type description, a never-selected field, a
//!      never-passed argument, an input type) anywhere in the data — so an alias
//!      cannot hide metadata;
//!   O  either level IntrospectionOnly ⇒ the resolver log is empty;
//!   T  every `__typename` whose parent object is present in the data carries
//!      the right type name (all modes).

use std::collections::BTreeSet;

use async_graphql::dynamic;
use async_graphql::{Context, InputObject, Object, Request, Response, Schema, Subscription, Variables};
use futures_util::{Stream, StreamExt, stream};
use vh_core::serde_json::{self, Value as J, json};
use vh_core::vsched::block_on;
use vh_core::{Rng, Run, catch, rng};

use crate::{EvLog, Event, events_json};

// ---------------------------------------------------------------- the matrix

#[derive(Clone, Copy, PartialEq, Eq, Debug)]
enum Mode {
    Enabled,
    Disabled,
    Only,
}
const MODES: [Mode; 3] = [Mode::Enabled, Mode::Disabled, Mode::Only];

impl Mode {
    fn tag(self) -> &'static str {
        match self {
            Mode::Enabled => "enabled",
            Mode::Disabled => "disabled",
            Mode::Only => "introspection-only",
        }
    }
}

#[derive(Clone, Copy, PartialEq, Eq, Debug)]
enum Flavour {
    Static,
    Dynamic,
}

#[derive(Clone, Copy, PartialEq, Eq, Debug)]
enum Op {
    Query,
    Mutation,
    Subscription,
}

#[derive(Clone, Copy, Debug)]
struct Cell {
    flavour: Flavour,
    op: Op,
    schema: Mode,
    request: Mode,
}

impl Cell {
    fn name(&self) -> String {
        format!(
            "{}/{}/schema={}/request={}",
            match self.flavour {
                Flavour::Static => "static",
                Flavour::Dynamic => "dynamic",
            },
            match self.op {
                Op::Query => "query",
                Op::Mutation => "mutation",
                Op::Subscription => "subscription",
            },
            self.schema.tag(),
            self.request.tag()
        )
    }
    fn any_disabled(&self) -> bool {
        self.schema == Mode::Disabled || self.request == Mode::Disabled
    }
    fn any_only(&self) -> bool {
        self.schema == Mode::Only || self.request == Mode::Only
    }
}

fn all_cells() -> Vec<Cell> {
    let mut v = vec![];
    for flavour in [Flavour::Static, Flavour::Dynamic] {
        for op in [Op::Query, Op::Mutation, Op::Subscription] {
            for schema in MODES {
                for request in MODES {
                    v.push(Cell {
                        flavour,
                        op,
                        schema,
                        request,
                    });
                }
            }
        }
    }
    v
}

/// Names that can reach a response only through schema metadata: they are never
/// selected, passed or returned by any generated document.
const SENTINELS: [&str; 5] = [
    "ZZ_SENTINEL_DESC",
    "zzHiddenField",
    "zzHiddenArg",
    "zzHiddenInputField",
    "ZzSentinelInput",
];

// ------------------------------------------------------------ static schema

struct ZzSentinelType {
    id: i32,
}

#[derive(InputObject)]
struct ZzSentinelInput {
    zz_hidden_input_field: Option<i32>,
}

fn ev(ctx: &Context<'_>, kind: &'static str, field: &str, args: String) {
    ctx.data_unchecked::<EvLog>().push(kind, field, args);
}

/// ZZ_SENTINEL_DESC
#[Object]
impl ZzSentinelType {
    async fn id(&self, ctx: &Context<'_>) -> i32 {
        ev(ctx, "field", "ZzSentinelType.id", String::new());
        self.id
    }
    async fn label(&self, ctx: &Context<'_>) -> String {
        ev(ctx, "field", "ZzSentinelType.label", String::new());
        format!("thing-{}", self.id)
    }
    async fn zz_hidden_field(&self, ctx: &Context<'_>, zz_hidden_arg: Option<ZzSentinelInput>) -> Option<i32> {
        ev(ctx, "field", "ZzSentinelType.zzHiddenField", String::new());
        zz_hidden_arg.and_then(|a| a.zz_hidden_input_field)
    }
}

struct Query;

#[Object]
impl Query {
    async fn plain(&self, ctx: &Context<'_>, n: Option<i32>) -> i32 {
        ev(ctx, "query", "plain", format!("n={n:?}"));
        n.unwrap_or(0) + 1
    }
    async fn thing(&self, ctx: &Context<'_>) -> ZzSentinelType {
        ev(ctx, "query", "thing", String::new());
        ZzSentinelType { id: 1 }
    }
    async fn maybe(&self, ctx: &Context<'_>) -> Option<ZzSentinelType> {
        ev(ctx, "query", "maybe", String::new());
        Some(ZzSentinelType { id: 2 })
    }
    async fn things(&self, ctx: &Context<'_>) -> Vec<ZzSentinelType> {
        ev(ctx, "query", "things", String::new());
        vec![ZzSentinelType { id: 3 }, ZzSentinelType { id: 4 }]
    }
    #[graphql(entity)]
    async fn find_thing(&self, ctx: &Context<'_>, id: i32) -> ZzSentinelType {
        ev(ctx, "entity", "ZzSentinelType", format!("id={id}"));
        ZzSentinelType { id }
    }
}

struct Mutation;

#[Object]
impl Mutation {
    async fn bump(&self, ctx: &Context<'_>, by: Option<i32>) -> i32 {
        ev(ctx, "mutation", "bump", format!("by={by:?}"));
        by.unwrap_or(0) + 100
    }
    async fn make_thing(&self, ctx: &Context<'_>) -> ZzSentinelType {
        ev(ctx, "mutation", "makeThing", String::new());
        ZzSentinelType { id: 5 }
    }
}

struct SubscriptionRoot;

#[Subscription(name = "Subscription")]
impl SubscriptionRoot {
    async fn ticks(&self, ctx: &Context<'_>, n: Option<i32>) -> impl Stream<Item = i32> {
        ev(ctx, "subscription", "ticks", format!("n={n:?}"));
        stream::iter(0..n.unwrap_or(1).clamp(0, 3))
    }
    async fn things(&self, ctx: &Context<'_>) -> impl Stream<Item = ZzSentinelType> {
        ev(ctx, "subscription", "things", String::new());
        stream::iter(vec![ZzSentinelType { id: 7 }])
    }
}

type StaticSchema = Schema<Query, Mutation, SubscriptionRoot>;

fn build_static(mode: Mode, log: EvLog) -> StaticSchema {
    let b = Schema::build(Query, Mutation, SubscriptionRoot)
        .data(log)
        .enable_federation();
    match mode {
        Mode::Enabled => b,
        Mode::Disabled => b.disable_introspection(),
        Mode::Only => b.introspection_only(),
    }
    .finish()
}

// ----------------------------------------------------------- dynamic schema

struct DynThing {
    id: i32,
}

fn dyn_thing_id(ctx: &dynamic::ResolverContext<'_>) -> i32 {
    ctx.parent_value
        .try_downcast_ref::<DynThing>()
        .map(|t| t.id)
        .unwrap_or(-1)
}

fn build_dynamic(mode: Mode, log: EvLog) -> dynamic::Schema {
    use async_graphql::Value;
    use dynamic::{
        Field, FieldFuture, FieldValue, InputObject as DInput, InputValue, Object as DObject,
        Subscription as DSub, SubscriptionField, SubscriptionFieldFuture, TypeRef,
    };
    const T: &str = "ZzSentinelType";

    let input = DInput::new("ZzSentinelInput").field(InputValue::new(
        "zzHiddenInputField",
        TypeRef::named(TypeRef::INT),
    ));

    let (l1, l2, l3) = (log.clone(), log.clone(), log.clone());
    let thing = DObject::new(T)
        .description("ZZ_SENTINEL_DESC")
        .field(Field::new("id", TypeRef::named_nn(TypeRef::INT), move |ctx| {
            l1.push("field", "ZzSentinelType.id", String::new());
            FieldFuture::from_value(Some(Value::from(dyn_thing_id(&ctx))))
        }))
        .field(Field::new("label", TypeRef::named_nn(TypeRef::STRING), move |ctx| {
            l2.push("field", "ZzSentinelType.label", String::new());
            FieldFuture::from_value(Some(Value::from(format!("thing-{}", dyn_thing_id(&ctx)))))
        }))
        .field(
            Field::new("zzHiddenField", TypeRef::named(TypeRef::INT), move |_| {
                l3.push("field", "ZzSentinelType.zzHiddenField", String::new());
                FieldFuture::from_value(None)
            })
            .argument(InputValue::new("zzHiddenArg", TypeRef::named("ZzSentinelInput"))),
        )
        .key("id");

    let (q1, q2, q3, q4) = (log.clone(), log.clone(), log.clone(), log.clone());
    let query = DObject::new("Query")
        .field(
            Field::new("plain", TypeRef::named_nn(TypeRef::INT), move |ctx| {
                let n = ctx.args.get("n").and_then(|v| v.i64().ok());
                q1.push("query", "plain", format!("n={n:?}"));
                FieldFuture::from_value(Some(Value::from(n.unwrap_or(0) + 1)))
            })
            .argument(InputValue::new("n", TypeRef::named(TypeRef::INT))),
        )
        .field(Field::new("thing", TypeRef::named_nn(T), move |_| {
            q2.push("query", "thing", String::new());
            FieldFuture::new(async { Ok(Some(FieldValue::owned_any(DynThing { id: 1 }))) })
        }))
        .field(Field::new("maybe", TypeRef::named(T), move |_| {
            q3.push("query", "maybe", String::new());
            FieldFuture::new(async { Ok(Some(FieldValue::owned_any(DynThing { id: 2 }))) })
        }))
        .field(Field::new("things", TypeRef::named_nn_list_nn(T), move |_| {
            q4.push("query", "things", String::new());
            FieldFuture::new(async {
                Ok(Some(FieldValue::list(vec![
                    FieldValue::owned_any(DynThing { id: 3 }),
                    FieldValue::owned_any(DynThing { id: 4 }),
                ])))
            })
        }));

    let (m1, m2) = (log.clone(), log.clone());
    let mutation = DObject::new("Mutation")
        .field(
            Field::new("bump", TypeRef::named_nn(TypeRef::INT), move |ctx| {
                let by = ctx.args.get("by").and_then(|v| v.i64().ok());
                m1.push("mutation", "bump", format!("by={by:?}"));
                FieldFuture::from_value(Some(Value::from(by.unwrap_or(0) + 100)))
            })
            .argument(InputValue::new("by", TypeRef::named(TypeRef::INT))),
        )
        .field(Field::new("makeThing", TypeRef::named_nn(T), move |_| {
            m2.push("mutation", "makeThing", String::new());
            FieldFuture::new(async { Ok(Some(FieldValue::owned_any(DynThing { id: 5 }))) })
        }));

    let (s1, s2) = (log.clone(), log.clone());
    let subscription = DSub::new("Subscription")
        .field(
            SubscriptionField::new("ticks", TypeRef::named_nn(TypeRef::INT), move |ctx| {
                let n = ctx.args.get("n").and_then(|v| v.i64().ok());
                s1.push("subscription", "ticks", format!("n={n:?}"));
                let n = n.unwrap_or(1).clamp(0, 3);
                SubscriptionFieldFuture::new(async move {
                    Ok(stream::iter(0..n).map(|i| Ok(Value::from(i))))
                })
            })
            .argument(InputValue::new("n", TypeRef::named(TypeRef::INT))),
        )
        .field(SubscriptionField::new("things", TypeRef::named_nn(T), move |_| {
            s2.push("subscription", "things", String::new());
            SubscriptionFieldFuture::new(async move {
                Ok(stream::iter(vec![7]).map(|id| Ok(FieldValue::owned_any(DynThing { id }))))
            })
        }));

    let e1 = log.clone();
    let b = dynamic::Schema::build("Query", Some("Mutation"), Some("Subscription"))
        .register(input)
        .register(thing)
        .register(query)
        .register(mutation)
        .register(subscription)
        .enable_federation()
        .entity_resolver(move |ctx| {
            let e1 = e1.clone();
            FieldFuture::new(async move {
                let reps = ctx.args.try_get("representations")?.list()?;
                let mut out = vec![];
                for item in reps.iter() {
                    let item = item.object()?;
                    let tn = item.try_get("__typename").and_then(|v| v.string())?.to_string();
                    let id = item.get("id").and_then(|v| v.i64().ok()).unwrap_or(0) as i32;
                    e1.push("entity", &tn, format!("id={id}"));
                    out.push(FieldValue::owned_any(DynThing { id }).with_type("ZzSentinelType"));
                }
                Ok(Some(FieldValue::list(out)))
            })
        });
    match mode {
        Mode::Enabled => b,
        Mode::Disabled => b.disable_introspection(),
        Mode::Only => b.introspection_only(),
    }
    .finish()
    .expect("dynamic C19 schema builds")
}

// ------------------------------------------------------------- the schemas

struct Schemas {
    log: EvLog,
    stat: Vec<StaticSchema>,
    dynm: Vec<dynamic::Schema>,
}

impl Schemas {
    fn new() -> Schemas {
        let log = EvLog::default();
        Schemas {
            stat: MODES.iter().map(|m| build_static(*m, log.clone())).collect(),
            dynm: MODES.iter().map(|m| build_dynamic(*m, log.clone())).collect(),
            log,
        }
    }

    /// Execute one request in a cell; every response the library produced.
    fn exec(&self, cell: &Cell, doc: &Doc, via_stream: bool) -> Result<Vec<Response>, String> {
        let mi = MODES.iter().position(|m| *m == cell.schema).unwrap();
        let mut req = Request::new(doc.text.clone()).variables(Variables::from_json(doc.variables.clone()));
        if let Some(n) = &doc.operation_name {
            req = req.operation_name(n.clone());
        }
        req = match cell.request {
            Mode::Enabled => req,
            Mode::Disabled => req.disable_introspection(),
            Mode::Only => req.only_introspection(),
        };
        self.log.take();
        catch(|| match cell.flavour {
            Flavour::Static => {
                let s = &self.stat[mi];
                if via_stream {
                    block_on(s.execute_stream(req).take(16).collect::<Vec<_>>())
                } else {
                    vec![block_on(s.execute(req))]
                }
            }
            Flavour::Dynamic => {
                let s = &self.dynm[mi];
                if via_stream {
                    block_on(s.execute_stream(req).take(16).collect::<Vec<_>>())
                } else {
                    vec![block_on(s.execute(req))]
                }
            }
        })
    }
}

// --------------------------------------------------------- document generator

#[derive(Clone, Debug)]
enum ProbeKind {
    Schema,
    Type,
    Service,
    Typename(&'static str),
}

#[derive(Clone, Debug)]
struct Probe {
    path: Vec<String>,
    kind: ProbeKind,
}

#[derive(Clone, Debug)]
struct Doc {
    text: String,
    variables: J,
    operation_name: Option<String>,
    probes: Vec<Probe>,
    /// at least one introspection / federation / __typename selection
    has_meta: bool,
    /// at least one field with a user resolver
    has_user_field: bool,
}

#[derive(Clone, Copy)]
struct Feats {
    static_service_sdl_when_disabled: bool,
    dynamic_entities_under_introspection_only: bool,
    dynamic_subscription_under_introspection_only: bool,
    static_mutation_root_typename_under_introspection_only: bool,
}

struct DocGen<'a> {
    r: &'a mut Rng,
    cell: Cell,
    feats: Feats,
    nkey: u32,
    nfrag: u32,
    frags: Vec<String>,
    vars: Vec<(String, &'static str, J)>,
    probes: Vec<Probe>,
    has_meta: bool,
    has_user_field: bool,
}

impl DocGen<'_> {
    fn key(&mut self, used: &mut BTreeSet<String>, name: &str) -> (String, String) {
        if self.r.chance(3, 5) || used.contains(name) {
            let k = format!("k{}", self.nkey);
            self.nkey += 1;
            used.insert(k.clone());
            (format!("{k}: {name}"), k)
        } else {
            used.insert(name.to_string());
            (name.to_string(), name.to_string())
        }
    }

    fn var(&mut self, ty: &'static str, value: J) -> String {
        let n = format!("v{}", self.vars.len());
        self.vars.push((n.clone(), ty, value));
        format!("${n}")
    }

    /// Wrap a selection (valid on type `on`) in fragments; the response shape is unchanged.
    fn wrap(&mut self, on: &str, body: String) -> String {
        match self.r.below(10) {
            0 => format!("... on {on} {{ {body} }}"),
            1 => format!("... {{ {body} }}"),
            2 => {
                let f = format!("F{}", self.nfrag);
                self.nfrag += 1;
                self.frags.push(format!("fragment {f} on {on} {{ {body} }}"));
                format!("...{f}")
            }
            3 => {
                let (f, g) = (format!("F{}", self.nfrag), format!("F{}", self.nfrag + 1));
                self.nfrag += 2;
                self.frags.push(format!("fragment {g} on {on} {{ {body} }}"));
                self.frags.push(format!("fragment {f} on {on} {{ ... {{ ...{g} }} }}"));
                format!("...{f}")
            }
            4 => format!("... on {on} {{ ... {{ {body} }} }}"),
            _ => body,
        }
    }

    fn directive(&mut self) -> &'static str {
        match self.r.below(12) {
            0 => " @include(if: true)",
            1 => " @skip(if: false)",
            _ => "",
        }
    }

    fn thing_sel(&mut self, path: &[String]) -> String {
        let mut used = BTreeSet::new();
        let mut parts = vec![];
        for _ in 0..1 + self.r.below(3) {
            let name = *self.r.pick(&["id", "label", "__typename", "__typename"]);
            let (txt, k) = self.key(&mut used, name);
            if name == "__typename" {
                let mut p = path.to_vec();
                p.push(k);
                self.probes.push(Probe {
                    path: p,
                    kind: ProbeKind::Typename("ZzSentinelType"),
                });
                self.has_meta = true;
            }
            let d = self.directive();
            let w = self.wrap("ZzSentinelType", format!("{txt}{d}"));
            parts.push(w);
        }
        parts.join(" ")
    }

    fn typename_item(&mut self, used: &mut BTreeSet<String>, path: &[String], expect: &'static str) -> String {
        let (txt, k) = self.key(used, "__typename");
        let mut p = path.to_vec();
        p.push(k);
        self.probes.push(Probe {
            path: p,
            kind: ProbeKind::Typename(expect),
        });
        self.has_meta = true;
        txt
    }

    fn schema_item(&mut self, used: &mut BTreeSet<String>) -> String {
        let (txt, k) = self.key(used, "__schema");
        self.has_meta = true;
        self.probes.push(Probe {
            path: vec![k.clone()],
            kind: ProbeKind::Schema,
        });
        let mut inner_used = BTreeSet::new();
        let mut sel = vec![];
        for _ in 0..1 + self.r.below(3) {
            let s = match self.r.below(6) {
                0 | 1 => "types { name description fields { name args { name } } inputFields { name } }".to_string(),
                2 => "queryType { name fields { name } }".to_string(),
                3 => "mutationType { name } subscriptionType { name }".to_string(),
                4 => "directives { name args { name } }".to_string(),
                _ => self.typename_item(&mut inner_used, &[k.clone()], "__Schema"),
            };
            if !sel.contains(&s) {
                sel.push(s);
            }
        }
        format!("{txt} {{ {} }}", sel.join(" "))
    }

    fn type_item(&mut self, used: &mut BTreeSet<String>) -> String {
        let (txt, k) = self.key(used, "__type");
        self.has_meta = true;
        self.probes.push(Probe {
            path: vec![k.clone()],
            kind: ProbeKind::Type,
        });
        let tn = *self.r.pick(&[
            "ZzSentinelType",
            "ZzSentinelType",
            "ZzSentinelInput",
            "Query",
            "Mutation",
            "Subscription",
            "_Service",
            "NoSuchType",
        ]);
        let arg = if self.r.chance(1, 3) {
            self.var("String!", json!(tn))
        } else {
            format!("\"{tn}\"")
        };
        let mut inner_used = BTreeSet::new();
        let mut sel = vec![];
        for _ in 0..1 + self.r.below(3) {
            let s = match self.r.below(6) {
                0 => "name kind".to_string(),
                1 => "description".to_string(),
                2 | 3 => "fields { name args { name type { name } } }".to_string(),
                4 => "inputFields { name }".to_string(),
                _ => self.typename_item(&mut inner_used, &[k.clone()], "__Type"),
            };
            if !sel.contains(&s) {
                sel.push(s);
            }
        }
        format!("{txt}(name: {arg}) {{ {} }}", sel.join(" "))
    }

    fn service_item(&mut self, used: &mut BTreeSet<String>) -> String {
        let (txt, k) = self.key(used, "_service");
        self.has_meta = true;
        self.probes.push(Probe {
            path: vec![k.clone()],
            kind: ProbeKind::Service,
        });
        let mut inner_used = BTreeSet::new();
        let (sdl, _) = self.key(&mut inner_used, "sdl");
        let mut sel = vec![sdl];
        if self.r.chance(1, 3) {
            sel.push(self.typename_item(&mut inner_used, &[k.clone()], "_Service"));
        }
        if self.r.bool() {
            sel.reverse();
        }
        let body = self.wrap("_Service", sel.join(" "));
        format!("{txt} {{ {body} }}")
    }

    fn entities_item(&mut self, used: &mut BTreeSet<String>) -> String {
        let (txt, k) = self.key(used, "_entities");
        self.has_meta = true;
        self.has_user_field = true;
        let n = 1 + self.r.below(2);
        let ids: Vec<i64> = (0..n).map(|_| self.r.range(1, 9)).collect();
        let arg = if self.r.chance(1, 3) {
            let v: Vec<J> = ids
                .iter()
                .map(|i| json!({"__typename": "ZzSentinelType", "id": i}))
                .collect();
            self.var("[_Any!]!", J::Array(v))
        } else {
            format!(
                "[{}]",
                ids.iter()
                    .map(|i| format!("{{__typename: \"ZzSentinelType\", id: {i}}}"))
                    .collect::<Vec<_>>()
                    .join(", ")
            )
        };
        let mut inner_used = BTreeSet::new();
        let mut sel = vec![];
        if self.r.chance(2, 3) {
            sel.push(self.typename_item(&mut inner_used, &[k.clone()], "ZzSentinelType"));
        }
        if sel.is_empty() || self.r.bool() {
            let inner = self.thing_sel(&[k.clone()]);
            sel.push(format!("... on ZzSentinelType {{ {inner} }}"));
        }
        format!("{txt}(representations: {arg}) {{ {} }}", sel.join(" "))
    }

    fn int_arg(&mut self, name: &str) -> String {
        let n = if self.r.chance(1, 8) { 0 } else { self.r.range(1, 3) };
        match self.r.below(4) {
            0 => String::new(),
            1 => {
                let v = self.var("Int", json!(n));
                format!("({name}: {v})")
            }
            _ => format!("({name}: {n})"),
        }
    }

    fn object_field(&mut self, used: &mut BTreeSet<String>, name: &str) -> String {
        let (txt, k) = self.key(used, name);
        self.has_user_field = true;
        let inner = self.thing_sel(&[k]);
        let d = self.directive();
        format!("{txt}{d} {{ {inner} }}")
    }

    fn query_item(&mut self, used: &mut BTreeSet<String>) -> String {
        let c = self.cell;
        // generator features: a construct is left out only in the cells where a
        // *known* finding says it breaks the property (see known_findings.json)
        let service_ok = !(c.flavour == Flavour::Static
            && c.any_disabled()
            && !c.any_only()
            && !self.feats.static_service_sdl_when_disabled);
        let entities_ok = !(c.flavour == Flavour::Dynamic
            && c.any_only()
            && !c.any_disabled()
            && !self.feats.dynamic_entities_under_introspection_only);
        loop {
            return match self.r.below(12) {
                0 | 1 => self.schema_item(used),
                2 | 3 => self.type_item(used),
                4 => self.typename_item(used, &[], "Query"),
                5 | 6 if service_ok => self.service_item(used),
                7 | 8 if entities_ok => self.entities_item(used),
                9 => {
                    let (txt, _) = self.key(used, "plain");
                    self.has_user_field = true;
                    let a = self.int_arg("n");
                    format!("{txt}{a}")
                }
                10 => {
                    let f = *self.r.pick(&["thing", "maybe", "things"]);
                    self.object_field(used, f)
                }
                11 => {
                    let (txt, _) = self.key(used, "plain");
                    self.has_user_field = true;
                    txt
                }
                _ => continue,
            };
        }
    }

    fn mutation_item(&mut self, used: &mut BTreeSet<String>) -> String {
        let c = self.cell;
        let root_typename_ok = !(c.flavour == Flavour::Static
            && c.any_only()
            && !self.feats.static_mutation_root_typename_under_introspection_only);
        match self.r.below(5) {
            0 if root_typename_ok => self.typename_item(used, &[], "Mutation"),
            1 | 2 => {
                let (txt, _) = self.key(used, "bump");
                self.has_user_field = true;
                let a = self.int_arg("by");
                format!("{txt}{a}")
            }
            _ => self.object_field(used, "makeThing"),
        }
    }

    fn subscription_item(&mut self, used: &mut BTreeSet<String>) -> String {
        if self.r.bool() {
            let (txt, _) = self.key(used, "ticks");
            self.has_user_field = true;
            let a = self.int_arg("n");
            format!("{txt}{a}")
        } else {
            self.object_field(used, "things")
        }
    }

    fn finish(mut self) -> Doc {
        let (kw, root, max_items) = match self.cell.op {
            Op::Query => ("query", "Query", 5),
            Op::Mutation => ("mutation", "Mutation", 3),
            Op::Subscription => ("subscription", "Subscription", 1),
        };
        let mut used = BTreeSet::new();
        let mut items = vec![];
        let n = 1 + self.r.below(max_items);
        for _ in 0..n {
            let it = match self.cell.op {
                Op::Query => self.query_item(&mut used),
                Op::Mutation => self.mutation_item(&mut used),
                Op::Subscription => self.subscription_item(&mut used),
            };
            // a directive goes before a selection set; fields with one get theirs in object_field
            let d = if it.starts_with("...") || it.ends_with('}') { "" } else { self.directive() };
            // fragments at a subscription root are not executed by either
            // flavour (only plain root fields start streams), keep them rare
            let wrapped = if self.cell.op == Op::Subscription && !self.r.chance(1, 8) {
                format!("{it}{d}")
            } else {
                self.wrap(root, format!("{it}{d}"))
            };
            items.push(wrapped);
        }
        let decoy = self.r.chance(1, 6);
        let named = decoy || !self.vars.is_empty() || self.cell.op != Op::Query || self.r.bool();
        let mut text = String::new();
        let mut operation_name = None;
        if named {
            let with_name = decoy || self.r.bool();
            text.push_str(kw);
            if with_name {
                text.push_str(" Main");
                if decoy || self.r.bool() {
                    operation_name = Some("Main".to_string());
                }
            }
            if !self.vars.is_empty() {
                let defs: Vec<String> = self.vars.iter().map(|(n, t, _)| format!("${n}: {t}")).collect();
                text.push_str(&format!("({})", defs.join(", ")));
            }
            text.push(' ');
        }
        text.push_str(&format!("{{ {} }}", items.join(" ")));
        if decoy {
            text.push_str(match self.cell.op {
                Op::Mutation => " query Decoy { plain(n: 98) }",
                _ => " mutation Decoy { bump(by: 99) }",
            });
        }
        for f in &self.frags {
            text.push(' ');
            text.push_str(f);
        }
        let mut vars = serde_json::Map::new();
        for (n, _, v) in &self.vars {
            vars.insert(n.clone(), v.clone());
        }
        Doc {
            text,
            variables: J::Object(vars),
            operation_name,
            probes: self.probes,
            has_meta: self.has_meta,
            has_user_field: self.has_user_field,
        }
    }
}

fn gen_doc(r: &mut Rng, cell: Cell, feats: Feats) -> Doc {
    DocGen {
        r,
        cell,
        feats,
        nkey: 0,
        nfrag: 0,
        frags: vec![],
        vars: vec![],
        probes: vec![],
        has_meta: false,
        has_user_field: false,
    }
    .finish()
}

// ------------------------------------------------------------------ monitors

enum Reach<'a> {
    Val(&'a J),
    /// the parent object is in the data, the key is not
    Missing,
    /// some ancestor is null / absent: the selection was never reached
    Unreached,
}

fn walk<'a>(v: &'a J, path: &[String], out: &mut Vec<Reach<'a>>) {
    if let J::Array(a) = v {
        for x in a {
            walk(x, path, out);
        }
        return;
    }
    if path.is_empty() {
        out.push(Reach::Val(v));
        return;
    }
    match v {
        J::Object(m) => match m.get(&path[0]) {
            Some(x) => walk(x, &path[1..], out),
            None if path.len() == 1 => out.push(Reach::Missing),
            None => out.push(Reach::Unreached),
        },
        _ => out.push(Reach::Unreached),
    }
}

fn find_sentinels(v: &J, found: &mut BTreeSet<String>) {
    match v {
        J::String(s) => {
            for t in SENTINELS {
                if s.contains(t) {
                    found.insert(t.to_string());
                }
            }
        }
        J::Array(a) => a.iter().for_each(|x| find_sentinels(x, found)),
        J::Object(m) => {
            for (k, x) in m {
                for t in SENTINELS {
                    if k.contains(t) {
                        found.insert(t.to_string());
                    }
                }
                find_sentinels(x, found);
            }
        }
        _ => {}
    }
}

fn strings_under(v: &J, out: &mut Vec<String>) {
    match v {
        J::String(s) => out.push(s.clone()),
        J::Array(a) => a.iter().for_each(|x| strings_under(x, out)),
        J::Object(m) => m.values().for_each(|x| strings_under(x, out)),
        _ => {}
    }
}

#[derive(Default)]
struct Verdict {
    metadata: Vec<String>,
    resolvers: Vec<String>,
    typename: Vec<String>,
    metadata_seen: bool,
    typenames_checked: u64,
    typenames_unreached: u64,
    executed: bool,
}

fn judge(cell: &Cell, doc: &Doc, responses: &[Response], events: &[Event]) -> Verdict {
    let mut v = Verdict::default();
    for resp in responses {
        let data = serde_json::to_value(&resp.data).unwrap_or(J::Null);
        let errors = serde_json::to_string(&resp.errors).unwrap_or_default();
        if !data.is_object() {
            if cell.any_disabled() && errors.contains("ZZ_SENTINEL_DESC") {
                v.metadata.push("type description in the errors of the response".into());
            }
            continue;
        }
        v.executed = true;
        let mut found = BTreeSet::new();
        find_sentinels(&data, &mut found);
        if errors.contains("ZZ_SENTINEL_DESC") {
            found.insert("ZZ_SENTINEL_DESC (in errors)".into());
        }
        let mut meta_here: Vec<String> = vec![];
        for p in &doc.probes {
            let mut reach = vec![];
            walk(&data, &p.path, &mut reach);
            for r in reach {
                match (&p.kind, r) {
                    (ProbeKind::Schema, Reach::Val(x)) if !x.is_null() => {
                        meta_here.push(format!("`{}` (__schema) is non-null", p.path.join(".")))
                    }
                    (ProbeKind::Type, Reach::Val(x)) if !x.is_null() => {
                        meta_here.push(format!("`{}` (__type) is non-null: {}", p.path.join("."), vh_core::run::truncate(&x.to_string(), 120)))
                    }
                    (ProbeKind::Service, Reach::Val(x)) => {
                        let mut ss = vec![];
                        strings_under(x, &mut ss);
                        for s in ss {
                            if s != "_Service" {
                                meta_here.push(format!(
                                    "`{}` (_service) carries an sdl string of {} bytes starting {:?}",
                                    p.path.join("."),
                                    s.len(),
                                    vh_core::run::truncate(&s, 60)
                                ));
                            }
                        }
                    }
                    (ProbeKind::Typename(want), Reach::Val(x)) => {
                        v.typenames_checked += 1;
                        if x.as_str() != Some(want) {
                            v.typename.push(format!("`{}` is {x}, expected \"{want}\"", p.path.join(".")));
                        }
                    }
                    (ProbeKind::Typename(want), Reach::Missing) => {
                        v.typenames_checked += 1;
                        v.typename.push(format!(
                            "`{}` (__typename, expected \"{want}\") is missing from its parent object",
                            p.path.join(".")
                        ));
                    }
                    (ProbeKind::Typename(_), Reach::Unreached) => v.typenames_unreached += 1,
                    _ => {}
                }
            }
        }
        if !found.is_empty() {
            meta_here.push(format!("metadata-only names in data: {:?}", found));
        }
        if !meta_here.is_empty() {
            v.metadata_seen = true;
            if cell.any_disabled() {
                v.metadata.extend(meta_here);
            }
        }
    }
    if cell.any_only() && !events.is_empty() {
        for e in events {
            v.resolvers.push(format!("{} resolver `{}`({}) ran", e.kind, e.field, e.args));
        }
    }
    v
}

fn report(run: &Run, cell: &Cell, doc: &Doc, responses: &[Response], events: &[Event], v: &Verdict, sig_prefix: &str) {
    let case_hash = rng::hash_str(&format!("{}|{}|{}", cell.name(), doc.text, doc.variables));
    let replay = json!({
        "cell": cell.name(),
        "document": doc.text,
        "variables": doc.variables,
        "operationName": doc.operation_name,
        "responses": responses.iter().map(|r| serde_json::to_value(r).unwrap_or(J::Null)).collect::<Vec<_>>(),
        "resolver_log": events_json(events),
    });
    if !v.metadata.is_empty() {
        run.count("violations_metadata_when_disabled", 1);
        let what = if v.metadata.iter().any(|m| m.contains("(_service)")) { "_service sdl" } else { "other" };
        run.seen("violation_classes", &format!("{}|metadata|{what}", cell.name()));
        run.violation(
            &format!("{sig_prefix}metadata-when-disabled:{case_hash:x}"),
            &format!("[{}] introspection is disabled but the response contains schema metadata: {} — document: {}", cell.name(), v.metadata.join("; "), doc.text),
            replay.clone(),
        );
    }
    if !v.resolvers.is_empty() {
        run.count("violations_resolver_under_introspection_only", 1);
        let kinds: BTreeSet<&str> = events.iter().map(|e| e.kind).collect();
        run.seen("violation_classes", &format!("{}|resolver-ran|{:?}", cell.name(), kinds));
        run.violation(
            &format!("{sig_prefix}resolver-under-introspection-only:{case_hash:x}"),
            &format!("[{}] introspection-only, yet {} — document: {}", cell.name(), v.resolvers.join("; "), doc.text),
            replay.clone(),
        );
    }
    if !v.typename.is_empty() {
        run.count("violations_typename", 1);
        let what = if v.typename.iter().all(|m| m.contains("EmptyMutation") || m.contains("is missing")) { "EmptyMutation/missing" } else { "other" };
        run.seen("violation_classes", &format!("{}|typename|{what}", cell.name()));
        run.violation(
            &format!("{sig_prefix}typename:{case_hash:x}"),
            &format!("[{}] __typename did not resolve: {} — document: {}", cell.name(), v.typename.join("; "), doc.text),
            replay,
        );
    }
}

// ----------------------------------------------------------- pinned witnesses

fn witness_doc(text: &str) -> Doc {
    Doc {
        text: text.to_string(),
        variables: json!({}),
        operation_name: None,
        probes: vec![],
        has_meta: true,
        has_user_field: false,
    }
}

fn witnesses(run: &Run, s: &Schemas) {
    let mk = |flavour, op, schema, request| Cell {
        flavour,
        op,
        schema,
        request,
    };
    use Mode::*;
    // W1: static `_service { sdl }` with introspection disabled
    {
        let doc = witness_doc("{ _service { sdl } }");
        let mut obs = vec![];
        let mut bad = false;
        let mut replay = vec![];
        for (tag, sm, rm) in [("schema-disabled", Disabled, Enabled), ("request-disabled", Enabled, Disabled), ("both-disabled", Disabled, Disabled)] {
            let cell = mk(Flavour::Static, Op::Query, sm, rm);
            run.eval();
            match s.exec(&cell, &doc, false) {
                Err(p) => {
                    run.inconclusive(&format!("library panicked on witness W19-static-service-sdl: {p}"));
                    return;
                }
                Ok(resps) => {
                    let data = serde_json::to_value(&resps[0].data).unwrap_or(J::Null);
                    let served = data["_service"]["sdl"].as_str().map(|x| x.contains("ZzSentinelType")).unwrap_or(false);
                    bad |= served;
                    obs.push(format!("{tag}:{}", if served { "sdl-served" } else { "no-sdl" }));
                    replay.push(json!({"cell": cell.name(), "data_prefix": vh_core::run::truncate(&data.to_string(), 200)}));
                }
            }
        }
        if bad {
            run.violation(
                &format!("W19-static-service-sdl|{}", obs.join(",")),
                &format!("static schema, introspection disabled: `{{ _service {{ sdl }} }}` returns the full federation SDL ({})", obs.join(", ")),
                json!({"document": doc.text, "observations": replay}),
            );
        } else {
            run.count("witness_clean", 1);
        }
    }
    // W2: dynamic `_entities` under introspection-only
    {
        let doc = witness_doc("{ _entities(representations: [{__typename: \"ZzSentinelType\", id: 1}]) { __typename } }");
        let mut obs = vec![];
        let mut bad = false;
        let mut replay = vec![];
        for (tag, sm, rm) in [("schema-only", Only, Enabled), ("request-only", Enabled, Only), ("both-only", Only, Only)] {
            let cell = mk(Flavour::Dynamic, Op::Query, sm, rm);
            run.eval();
            match s.exec(&cell, &doc, false) {
                Err(p) => {
                    run.inconclusive(&format!("library panicked on witness W19-dynamic-entities: {p}"));
                    return;
                }
                Ok(resps) => {
                    let events = s.log.take();
                    let ran = events.iter().any(|e| e.kind == "entity");
                    bad |= ran;
                    obs.push(format!("{tag}:{}", if ran { "entity-resolver-ran" } else { "no-resolver" }));
                    replay.push(json!({"cell": cell.name(), "resolver_log": events_json(&events), "data": serde_json::to_value(&resps[0].data).unwrap_or(J::Null)}));
                }
            }
        }
        if bad {
            run.violation(
                &format!("W19-dynamic-entities-introspection-only|{}", obs.join(",")),
                &format!("dynamic schema, introspection-only: the entity resolver is invoked for `_entities` ({})", obs.join(", ")),
                json!({"document": doc.text, "observations": replay}),
            );
        } else {
            run.count("witness_clean", 1);
        }
    }
    // W3: dynamic subscription under introspection-only
    {
        let doc = witness_doc("subscription { ticks(n: 1) }");
        let mut obs = vec![];
        let mut bad = false;
        let mut replay = vec![];
        for (tag, sm, rm) in [
            ("schema-only", Only, Enabled),
            ("request-only", Enabled, Only),
            ("both-only", Only, Only),
            ("schema-only+request-disabled", Only, Disabled),
            ("schema-disabled+request-only", Disabled, Only),
        ] {
            let cell = mk(Flavour::Dynamic, Op::Subscription, sm, rm);
            run.eval();
            match s.exec(&cell, &doc, true) {
                Err(p) => {
                    run.inconclusive(&format!("library panicked on witness W19-dynamic-subscription: {p}"));
                    return;
                }
                Ok(resps) => {
                    let events = s.log.take();
                    let ran = events.iter().any(|e| e.kind == "subscription");
                    let delivered = resps.iter().any(|r| serde_json::to_value(&r.data).map(|d| d["ticks"].is_number()).unwrap_or(false));
                    bad |= ran;
                    obs.push(format!(
                        "{tag}:{}",
                        match (ran, delivered) {
                            (true, true) => "resolver-ran+event-delivered",
                            (true, false) => "resolver-ran",
                            _ => "no-resolver",
                        }
                    ));
                    replay.push(json!({"cell": cell.name(), "resolver_log": events_json(&events),
                        "responses": resps.iter().map(|r| serde_json::to_value(r).unwrap_or(J::Null)).collect::<Vec<_>>()}));
                }
            }
        }
        if bad {
            run.violation(
                &format!("W19-dynamic-subscription-introspection-only|{}", obs.join(",")),
                &format!("dynamic schema, introspection-only: a subscription resolver runs and its events are delivered ({})", obs.join(", ")),
                json!({"document": doc.text, "observations": replay}),
            );
        } else {
            run.count("witness_clean", 1);
        }
    }
    // W4: static mutation root `__typename` under introspection-only
    {
        let doc = witness_doc("mutation { __typename }");
        let mut obs = vec![];
        let mut bad = false;
        let mut replay = vec![];
        for (tag, sm, rm) in [("schema-only", Only, Enabled), ("request-only", Enabled, Only), ("both-only", Only, Only)] {
            let cell = mk(Flavour::Static, Op::Mutation, sm, rm);
            run.eval();
            match s.exec(&cell, &doc, false) {
                Err(p) => {
                    run.inconclusive(&format!("library panicked on witness W19-static-mutation-root-typename: {p}"));
                    return;
                }
                Ok(resps) => {
                    s.log.take();
                    let data = serde_json::to_value(&resps[0].data).unwrap_or(J::Null);
                    let got = match &data["__typename"] {
                        J::String(x) => x.clone(),
                        other => format!("<{other}>"),
                    };
                    bad |= got != "Mutation";
                    obs.push(format!("{tag}:{got}"));
                    replay.push(json!({"cell": cell.name(), "response": serde_json::to_value(&resps[0]).unwrap_or(J::Null)}));
                }
            }
        }
        if bad {
            run.violation(
                &format!("W19-static-mutation-root-typename|{}", obs.join(",")),
                &format!("static schema, introspection-only: `mutation {{ __typename }}` does not answer the schema's mutation type \"Mutation\" ({})", obs.join(", ")),
                json!({"document": doc.text, "observations": replay}),
            );
        } else {
            run.count("witness_clean", 1);
        }
    }
}

// ------------------------------------------------------------------ the check

pub fn main() {
    let mut run = Run::from_args(
        "exploration",
        "the matrix schema-level mode {enabled,disabled,introspection-only} x request-level mode (same) x {static derive-built, dynamic} \
         schema with federation x {query,mutation,subscription via execute_stream} is enumerated completely (`exhaustive` refers to this \
         matrix of 54 cells, not to the documents); inside each cell documents are random: 1-5 root selections drawn from __schema / \
         __type(name: literal or variable) / __typename / _service{sdl} / _entities(representations: literal or variable) / ordinary \
         scalar and object fields with nested __typename, each aliased with p=0.6, optionally carrying @include/@skip, wrapped in typed, \
         untyped, named and nested-named fragments, optionally with a decoy second operation selected away by operationName; queries \
         and mutations also go through execute_stream (1 in 4). A case is non-trivial when the document contains at least one \
         introspection/federation/__typename selection; distinct by hash of (cell, document, variables)",
    );
    run.assume("serde_json serialisation of Response.data is faithful (oracle side)");
    run.assume("the harness resolver log is complete: every query/mutation/subscription/entity/object-field resolver of both schemas appends an event before doing anything else");
    run.assume("metadata is recognised by (a) the response keys the generator itself chose for __schema/__type/_service and (b) five sentinel names (type description, never-selected field, never-passed argument, input type and its field) that no document selects, passes or returns; only Response.data is searched for (b), plus the description sentinel in errors — validation messages that merely name fields ('did you mean') are not counted as metadata from __schema/__type/_service");
    run.assume("__typename at the ROOT of a subscription operation is not generated (the GraphQL spec forbids introspection fields there); nested __typename inside subscription events is checked");
    run.assume("'the request executes at all' = Response.data is an object; a __typename whose parent object is null/absent is counted as unreached, not as a failure");
    run.assume("in introspection-only mode nothing is asserted about which metadata is served; in disabled mode nothing is asserted about user resolvers");

    let feats = Feats {
        static_service_sdl_when_disabled: run.feature("static_service_sdl_when_disabled"),
        dynamic_entities_under_introspection_only: run.feature("dynamic_entities_under_introspection_only"),
        dynamic_subscription_under_introspection_only: run.feature("dynamic_subscription_under_introspection_only"),
        static_mutation_root_typename_under_introspection_only: run
            .feature("static_mutation_root_typename_under_introspection_only"),
    };
    let per_cell = run.scale(500, 40_000);
    run.set_floors(54 * 100, 3000);
    run.require_counter("metadata_seen_when_enabled");
    run.require_counter("resolver_events_seen_when_not_introspection_only");
    run.require_counter("typenames_checked");
    run.require_counter("disabled_requests_judged");
    run.require_counter("introspection_only_requests_judged");

    // pinned witnesses of the known findings first (regression cases once fixed)
    {
        let schemas = Schemas::new();
        witnesses(&run, &schemas);
    }

    let cells = all_cells();
    let run_ref = &run;
    let cells_ref = &cells;
    let shards = 16u64;
    let skipped: std::sync::Mutex<BTreeSet<String>> = Default::default();
    let skipped_ref = &skipped;
    std::thread::scope(|sc| {
        for shard in 0..shards {
            sc.spawn(move || {
                let run = run_ref;
                let schemas = Schemas::new();
                for (ci, cell) in cells_ref.iter().enumerate() {
                    if cell.flavour == Flavour::Dynamic
                        && cell.op == Op::Subscription
                        && cell.any_only()
                        && !feats.dynamic_subscription_under_introspection_only
                    {
                        // every subscription document starts a resolver here: the
                        // cell is covered by the pinned witness only
                        skipped_ref.lock().unwrap().insert(cell.name());
                        continue;
                    }
                    let mut i = shard;
                    while i < per_cell {
                        let mut r = Rng::new(rng::mix(&[run.seed, 19, ci as u64, i]));
                        let doc = gen_doc(&mut r, *cell, feats);
                        let via_stream = cell.op == Op::Subscription || r.chance(1, 4);
                        run.eval();
                        let responses = match schemas.exec(cell, &doc, via_stream) {
                            Ok(x) => x,
                            Err(p) => {
                                run.inconclusive(&format!("library panicked while executing [{}] {}: {p}", cell.name(), doc.text));
                                i += shards;
                                continue;
                            }
                        };
                        let events = schemas.log.take();
                        let v = judge(cell, &doc, &responses, &events);
                        run.seen("cells_executed", &cell.name());
                        run.count("requests", 1);
                        run.count("responses", responses.len() as u64);
                        if v.executed {
                            run.count("requests_with_data", 1);
                            run.count(&format!("with_data/{}", cell.name()), 1);
                        }
                        if doc.has_meta {
                            run.nontrivial(rng::hash_str(&format!("{}|{}|{}", cell.name(), doc.text, doc.variables)));
                        }
                        run.count("typenames_checked", v.typenames_checked);
                        run.count("typenames_unreached_parent_null", v.typenames_unreached);
                        if cell.any_disabled() {
                            run.count("disabled_requests_judged", 1);
                        } else if v.metadata_seen {
                            run.count("metadata_seen_when_enabled", 1);
                        }
                        if cell.any_only() {
                            run.count("introspection_only_requests_judged", 1);
                        } else if !events.is_empty() {
                            run.count("resolver_events_seen_when_not_introspection_only", events.len() as u64);
                        }
                        if doc.has_user_field && doc.has_meta {
                            run.count("documents_mixing_meta_and_user_fields", 1);
                        }
                        if i < 2 && ci % 11 == 0 {
                            run.sample_upto(
                                8,
                                json!({"cell": cell.name(), "document": doc.text, "variables": doc.variables,
                                   "via_stream": via_stream,
                                   "data": responses.first().map(|r| vh_core::run::truncate(&serde_json::to_string(&r.data).unwrap_or_default(), 300)),
                                   "resolver_log": events_json(&events)}),
                            );
                        }
                        report(run, cell, &doc, &responses, &events, &v, "gen-");
                        i += shards;
                    }
                }
            });
        }
    });


    let skipped = skipped.into_inner().unwrap();
    let executed_all = skipped.is_empty();
    run.exhaustive(executed_all);
    run.extra("matrix_cells", json!(cells.len()));
    run.extra(
        "matrix_cells_covered_by_pinned_witness_only",
        json!(skipped.iter().collect::<Vec<_>>()),
    );
    run.extra("documents_per_cell", json!(per_cell));
    if !executed_all {
        run.note(&format!(
            "{} of 54 matrix cells (dynamic subscription with an introspection-only level) have no clean random workload while the known finding excludes them; they are exercised by the pinned witness only, so `exhaustive` is reported false",
            skipped.len()
        ));
    }
    run.finish();
}
