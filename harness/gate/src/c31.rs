//! C31 — persisted queries execute only the document registered under the hash.
//!
//! Random request histories against `ApolloPersistedQueries` over
//! `LruCacheStorage::new(1..=4)` and over a harness `CacheStorage` (unbounded
//! HashMap that also records every get/set call). Every query text carries its
//! own `tag` arguments, the resolvers log the tag, so the resolver log shows
//! which text was executed.
//!
//! Reference model (DESIGN A.6): `store: hash -> text`; insertion only when
//! version = 1 ∧ sha256(text) = hash ∧ text parses; lookup by hash-only request.
//! Monitors, per request:
//!   S  any executed document belongs to a text whose SHA-256 (harness side,
//!      sha2) equals the hash the request supplied;
//!   L  a hash-only request runs exactly the text registered under the hash, or
//!      fails with `PersistedQueryNotFound` (allowed for a registered hash only
//!      under LRU when at least `cap` other distinct texts were registered since);
//!   N  mismatching / wrong-version / malformed / unparsable / plain requests
//!      change nothing: later lookups follow the unchanged model and, with the
//!      harness store, the store content equals the model after every step.

use std::collections::{BTreeMap, BTreeSet, HashMap};
use std::sync::{Arc, Mutex};

use async_graphql::extensions::apollo_persisted_queries::{ApolloPersistedQueries, CacheStorage, LruCacheStorage};
use async_graphql::parser::parse_query;
use async_graphql::parser::types::ExecutableDocument;
use async_graphql::{Context, EmptySubscription, Object, Request, Response, Schema, Value, Variables};
use sha2::{Digest, Sha256};
use vh_core::serde_json::{self, Value as J, json};
use vh_core::vsched::block_on;
use vh_core::{Rng, Run, catch, rng};

use crate::{EvLog, Event, events_json};

// ------------------------------------------------------------------- schema

fn ev(ctx: &Context<'_>, kind: &'static str, field: &str, args: String) {
    ctx.data_unchecked::<EvLog>().push(kind, field, args);
}

struct Query;

#[Object]
impl Query {
    async fn q(&self, ctx: &Context<'_>, tag: i32, v: Option<i32>) -> i32 {
        ev(ctx, "query", "q", format!("tag={tag} v={v:?}"));
        tag
    }
}

struct Mutation;

#[Object]
impl Mutation {
    async fn m(&self, ctx: &Context<'_>, tag: i32) -> i32 {
        ev(ctx, "mutation", "m", format!("tag={tag} v=None"));
        tag
    }
}

type S = Schema<Query, Mutation, EmptySubscription>;

// ------------------------------------------------- harness cache storage

#[derive(Clone, Default)]
struct MapStorage {
    map: Arc<Mutex<HashMap<String, ExecutableDocument>>>,
    calls: Arc<Mutex<Vec<(&'static str, String)>>>,
    faulty: bool,
}

#[async_graphql::async_trait::async_trait]
impl CacheStorage for MapStorage {
    async fn get(&self, key: String) -> Option<ExecutableDocument> {
        self.calls.lock().unwrap().push(("get", key.clone()));
        let map = self.map.lock().unwrap();
        if self.faulty && !map.contains_key(&key) {
            // monitor self-test (VH_GATE_SELFTEST=1): a store that answers an
            // unknown hash with some other registered document
            return map.values().next().cloned();
        }
        map.get(&key).cloned()
    }
    async fn set(&self, key: String, query: ExecutableDocument) {
        self.calls.lock().unwrap().push(("set", key.clone()));
        self.map.lock().unwrap().insert(key, query);
    }
}

#[derive(Clone)]
enum Store {
    Lru(usize),
    Map(MapStorage),
}

fn build(store: &Store, log: EvLog) -> S {
    let b = Schema::build(Query, Mutation, EmptySubscription).data(log);
    match store {
        Store::Lru(cap) => b.extension(ApolloPersistedQueries::new(LruCacheStorage::new(*cap))),
        Store::Map(m) => b.extension(ApolloPersistedQueries::new(m.clone())),
    }
    .finish()
}

// -------------------------------------------------------------------- texts

fn sha_hex(text: &str) -> String {
    let d = Sha256::digest(text.as_bytes());
    d.iter().map(|b| format!("{b:02x}")).collect()
}

#[derive(Clone, Debug)]
struct Text {
    text: String,
    hash: String,
    /// (operation name, tags its fields log, in order)
    ops: Vec<(Option<&'static str>, Vec<i32>)>,
    uses_var: bool,
    parses: bool,
}

fn gen_text(r: &mut Rng, next_tag: &mut i32, parsable: bool) -> Text {
    let mut tag = || {
        *next_tag += 1;
        *next_tag
    };
    let (text, ops, uses_var) = if !parsable {
        let t = tag();
        let s = match r.below(4) {
            0 => format!("{{ q(tag: {t} "),
            1 => format!("query {{ q(tag: {t}) }}}} }}"),
            2 => format!("{{ q(tag: {t}) ... }}"),
            _ => format!("mutation {{ m(tag: {t} }}"),
        };
        (s, vec![(None, vec![t])], false)
    } else {
        match r.below(8) {
            0 => {
                let t = tag();
                (format!("{{ q(tag: {t}) }}"), vec![(None, vec![t])], false)
            }
            1 => {
                let (a, b) = (tag(), tag());
                (format!("query {{ a: q(tag: {a}) b: q(tag: {b}) }}"), vec![(None, vec![a, b])], false)
            }
            2 => {
                let t = tag();
                (format!("mutation {{ m(tag: {t}) }}"), vec![(None, vec![t])], false)
            }
            3 => {
                let t = tag();
                (format!("query Q($v: Int) {{ q(tag: {t}, v: $v) }}"), vec![(Some("Q"), vec![t])], true)
            }
            4 => {
                let (a, b) = (tag(), tag());
                (
                    format!("query A {{ q(tag: {a}) }} query B {{ x: q(tag: {b}) }}"),
                    vec![(Some("A"), vec![a]), (Some("B"), vec![b])],
                    false,
                )
            }
            5 => {
                let t = tag();
                (format!("  {{\n  q( tag : {t} ) # persisted\n}}\n"), vec![(None, vec![t])], false)
            }
            6 => {
                let (a, b) = (tag(), tag());
                (
                    format!("mutation M {{ first: m(tag: {a}) second: m(tag: {b}) }}"),
                    vec![(Some("M"), vec![a, b])],
                    false,
                )
            }
            _ => {
                let t = tag();
                (
                    format!("query {{ ...F }} fragment F on Query {{ q(tag: {t}) }}"),
                    vec![(None, vec![t])],
                    false,
                )
            }
        }
    };
    Text {
        hash: sha_hex(&text),
        parses: parse_query(&text).is_ok(),
        text,
        ops,
        uses_var,
    }
}

// ------------------------------------------------------------------ actions

#[derive(Clone, Debug)]
enum Action {
    /// text + version 1 + its own hash
    Register { t: usize, extra_field: bool },
    /// hash only (`query` empty or absent)
    Lookup { t: usize, extra_field: bool },
    /// hash-only with a hash nobody could have registered
    LookupUnknown { hash: String },
    /// text `t` with the hash of another text (`other`) or a random digest
    Mismatch { t: usize, hash: String, other: Option<usize> },
    WrongVersion { t: usize, version: i64, hash_only: bool },
    Malformed { t: usize, payload: J, with_text: bool },
    /// unparsable text with its correct hash
    Unparsable { t: usize },
    /// no persistedQuery extension at all
    Plain { t: usize },
    /// correct hash spelled in upper-case hex (equality of hex strings is not
    /// specified by the property: outcome not asserted, only its consequences)
    UppercaseRegister { t: usize },
    UppercaseLookup { t: usize },
    /// `persistedQuery: [1, "<hash>"]`: serde reads a struct from a sequence too.
    /// Whether that spelling counts as "version 1 + this hash" is not specified:
    /// outcome open, whatever runs must still hash to the digest given
    Positional { t: usize, with_text: bool },
}

impl Action {
    fn class(&self) -> &'static str {
        match self {
            Action::Register { .. } => "register",
            Action::Lookup { .. } => "lookup",
            Action::LookupUnknown { .. } => "lookup-unknown",
            Action::Mismatch { .. } => "mismatch",
            Action::WrongVersion { .. } => "wrong-version",
            Action::Malformed { .. } => "malformed",
            Action::Unparsable { .. } => "unparsable",
            Action::Plain { .. } => "plain",
            Action::UppercaseRegister { .. } => "uppercase-register",
            Action::UppercaseLookup { .. } => "uppercase-lookup",
            Action::Positional { .. } => "positional-payload",
        }
    }
}

struct Built {
    request_json: J,
    request: Request,
    /// the hash string the request supplies, if it supplies one
    supplied_hash: Option<String>,
    op_name: Option<&'static str>,
    var_v: Option<i32>,
}

fn build_request(r: &mut Rng, texts: &[Text], a: &Action) -> Built {
    let (t, query, payload): (Option<usize>, Option<String>, Option<J>) = match a {
        Action::Register { t, extra_field } => {
            let mut p = json!({"version": 1, "sha256Hash": texts[*t].hash});
            if *extra_field {
                p["ignoredExtra"] = json!({"x": [1, 2]});
            }
            (Some(*t), Some(texts[*t].text.clone()), Some(p))
        }
        Action::Lookup { t, extra_field } => {
            let mut p = json!({"version": 1, "sha256Hash": texts[*t].hash});
            if *extra_field {
                p["ignoredExtra"] = json!("y");
            }
            (Some(*t), None, Some(p))
        }
        Action::LookupUnknown { hash } => (None, None, Some(json!({"version": 1, "sha256Hash": hash}))),
        Action::Mismatch { t, hash, .. } => (
            Some(*t),
            Some(texts[*t].text.clone()),
            Some(json!({"version": 1, "sha256Hash": hash})),
        ),
        Action::WrongVersion { t, version, hash_only } => (
            Some(*t),
            if *hash_only { None } else { Some(texts[*t].text.clone()) },
            Some(json!({"version": version, "sha256Hash": texts[*t].hash})),
        ),
        Action::Malformed { t, payload, with_text } => (
            Some(*t),
            if *with_text { Some(texts[*t].text.clone()) } else { None },
            Some(payload.clone()),
        ),
        Action::Unparsable { t } => (
            Some(*t),
            Some(texts[*t].text.clone()),
            Some(json!({"version": 1, "sha256Hash": texts[*t].hash})),
        ),
        Action::Plain { t } => (Some(*t), Some(texts[*t].text.clone()), None),
        Action::UppercaseRegister { t } => (
            Some(*t),
            Some(texts[*t].text.clone()),
            Some(json!({"version": 1, "sha256Hash": texts[*t].hash.to_uppercase()})),
        ),
        Action::UppercaseLookup { t } => (
            Some(*t),
            None,
            Some(json!({"version": 1, "sha256Hash": texts[*t].hash.to_uppercase()})),
        ),
        Action::Positional { t, with_text } => (
            Some(*t),
            if *with_text { Some(texts[*t].text.clone()) } else { None },
            Some(json!([1, texts[*t].hash])),
        ),
    };
    // which operation / variable value the request asks for
    let (op_name, var_v) = match t {
        Some(t) if texts[t].parses => {
            let ops = &texts[t].ops;
            let pick = &ops[r.below(ops.len())];
            let name = if ops.len() > 1 || r.bool() { pick.0 } else { None };
            let v = if texts[t].uses_var && r.chance(3, 4) { Some(r.range(1, 99) as i32) } else { None };
            (name, v)
        }
        _ => (None, None),
    };
    let mut body = serde_json::Map::new();
    let via_serde = r.bool();
    match &query {
        Some(q) => {
            body.insert("query".into(), json!(q));
        }
        None => {
            // hash-only: the `query` key is absent or an empty string
            if !via_serde || r.bool() {
                body.insert("query".into(), json!(""));
            }
        }
    }
    if let Some(n) = op_name {
        body.insert("operationName".into(), json!(n));
    }
    if let Some(v) = var_v {
        body.insert("variables".into(), json!({"v": v}));
    }
    if let Some(p) = &payload {
        body.insert("extensions".into(), json!({"persistedQuery": p}));
    }
    let request_json = J::Object(body);
    let request = if via_serde {
        serde_json::from_value::<Request>(request_json.clone()).expect("request JSON deserialises")
    } else {
        let mut req = Request::new(query.clone().unwrap_or_default());
        if let Some(n) = op_name {
            req = req.operation_name(n);
        }
        if let Some(v) = var_v {
            req = req.variables(Variables::from_json(json!({"v": v})));
        }
        if let Some(p) = &payload {
            req.extensions
                .insert("persistedQuery".to_string(), Value::from_json(p.clone()).expect("payload converts"));
        }
        req
    };
    let supplied_hash = match a {
        Action::Positional { t, .. } => Some(texts[*t].hash.clone()),
        _ => payload
            .as_ref()
            .and_then(|p| p.get("sha256Hash"))
            .and_then(|h| h.as_str())
            .map(|s| s.to_string()),
    };
    Built {
        request_json,
        request,
        supplied_hash,
        op_name,
        var_v,
    }
}

fn gen_malformed(r: &mut Rng, hash: &str) -> J {
    match r.below(15) {
        14 => json!([1]),
        0 => json!({}),
        1 => json!({"version": 1}),
        2 => json!({"sha256Hash": hash}),
        3 => json!({"version": "1", "sha256Hash": hash}),
        4 => json!({"version": 1, "sha256Hash": 5}),
        5 => J::Null,
        6 => json!("persisted"),
        7 => json!([hash, 1]),
        8 => json!({"version": 1.5, "sha256Hash": hash}),
        9 => json!({"version": null, "sha256Hash": hash}),
        10 => json!({"version": true, "sha256Hash": hash}),
        11 => json!({"version": 2147483649u64, "sha256Hash": hash}),
        12 => json!({"version": 1, "sha256Hash": [hash]}),
        _ => json!({"version": 1, "sha256hash": hash}),
    }
}

// -------------------------------------------------------------------- model

#[derive(Default)]
struct Model {
    /// hash (exact string) -> text index
    store: BTreeMap<String, usize>,
    /// per registered hash: other distinct hashes registered since it was (last) registered
    since: BTreeMap<String, BTreeSet<String>>,
    /// hashes whose state the property leaves open (upper-case spellings)
    uncertain: BTreeSet<String>,
}

impl Model {
    fn register(&mut self, hash: &str, t: usize) {
        for (k, s) in self.since.iter_mut() {
            if k != hash {
                s.insert(hash.to_string());
            }
        }
        self.store.insert(hash.to_string(), t);
        self.since.insert(hash.to_string(), BTreeSet::new());
    }
}

fn tags_of(events: &[Event]) -> Vec<(i32, Option<i32>)> {
    events
        .iter()
        .map(|e| {
            let mut tag = -1;
            let mut v = None;
            for part in e.args.split(' ') {
                if let Some(x) = part.strip_prefix("tag=") {
                    tag = x.parse().unwrap_or(-1);
                }
                if let Some(x) = part.strip_prefix("v=Some(") {
                    v = x.trim_end_matches(')').parse().ok();
                }
            }
            (tag, v)
        })
        .collect()
}

fn error_messages(resp: &Response) -> Vec<String> {
    resp.errors.iter().map(|e| e.message.clone()).collect()
}

// ------------------------------------------------------------------ history

struct HistoryResult {
    violation: Option<(String, usize)>,
    steps: Vec<J>,
    nontrivial: bool,
    shape_hash: u64,
}

fn run_history(run: &Run, r: &mut Rng) -> Result<HistoryResult, String> {
    let store = if r.chance(2, 5) {
        Store::Map(MapStorage {
            faulty: std::env::var("VH_GATE_SELFTEST").is_ok(),
            ..Default::default()
        })
    } else {
        Store::Lru(1 + r.below(4))
    };
    let log = EvLog::default();
    let schema = build(&store, log.clone());
    let mut next_tag = 0;
    let n_texts = 3 + r.below(6);
    let mut texts: Vec<Text> = (0..n_texts).map(|_| gen_text(r, &mut next_tag, true)).collect();
    let n_bad = 1 + r.below(2);
    for _ in 0..n_bad {
        texts.push(gen_text(r, &mut next_tag, false));
    }
    let good: Vec<usize> = (0..texts.len()).filter(|i| texts[*i].parses).collect();
    let bad: Vec<usize> = (0..texts.len()).filter(|i| !texts[*i].parses).collect();
    if bad.is_empty() || good.len() < 3 {
        return Err("text generator produced an unexpected parse result".into());
    }
    let tag_owner: HashMap<i32, usize> = texts
        .iter()
        .enumerate()
        .flat_map(|(i, t)| t.ops.iter().flat_map(move |(_, tags)| tags.iter().map(move |g| (*g, i))))
        .collect();

    let mut model = Model::default();
    let mut steps_json: Vec<J> = vec![];
    let mut shape = String::new();
    let mut registered_then_looked_up = false;
    let n_steps = 8 + r.below(33);
    let cap_desc = match &store {
        Store::Lru(c) => format!("LruCacheStorage::new({c})"),
        Store::Map(_) => "harness HashMap storage".to_string(),
    };
    run.seen("storages", &cap_desc);

    for step in 0..n_steps {
        let action = match r.weighted(&[25, 30, 6, 8, 6, 6, 4, 5, 2, 3, 1]) {
            0 => Action::Register {
                t: *r.pick(&good),
                extra_field: r.chance(1, 8),
            },
            1 => {
                // mostly hashes that were registered, sometimes a pool text that was not
                let known: Vec<usize> = model.store.values().copied().collect();
                let t = if !known.is_empty() && r.chance(3, 4) { *r.pick(&known) } else { *r.pick(&good) };
                Action::Lookup {
                    t,
                    extra_field: r.chance(1, 8),
                }
            }
            2 => Action::LookupUnknown {
                hash: match r.below(5) {
                    0 => "def".to_string(),
                    1 => String::new(),
                    2 => sha_hex(&format!("never registered {}", r.next_u64())),
                    3 => texts[*r.pick(&bad)].hash.clone(),
                    _ => format!("{:064x}", r.next_u64()),
                },
            },
            3 => {
                let t = *r.pick(&good);
                let others: Vec<usize> = good.iter().copied().filter(|x| *x != t).collect();
                if r.chance(3, 4) {
                    // prefer a hash that IS registered for another text: must not be overwritten
                    let reg: Vec<usize> = others.iter().copied().filter(|o| model.store.contains_key(&texts[*o].hash)).collect();
                    let o = if !reg.is_empty() && r.chance(3, 4) { *r.pick(&reg) } else { *r.pick(&others) };
                    Action::Mismatch {
                        t,
                        hash: texts[o].hash.clone(),
                        other: Some(o),
                    }
                } else {
                    // a digest of a near-by text, or a mangled spelling of the true digest (a proper prefix of even
                    // length, the empty string, the digest with extra digits): none of them is the SHA-256 of the text
                    let true_hash = texts[t].hash.clone();
                    let hash = match r.below(5) {
                        0 => true_hash[..8].to_string(),
                        1 => true_hash[..62].to_string(),
                        2 => String::new(),
                        3 => format!("{true_hash}00"),
                        _ => sha_hex(&format!("{} ", texts[t].text)),
                    };
                    Action::Mismatch { t, hash, other: None }
                }
            }
            4 => Action::WrongVersion {
                t: *r.pick(&good),
                version: *r.pick(&[0i64, 2, -1, 1000, 10, i32::MAX as i64]),
                hash_only: r.chance(1, 3),
            },
            5 => {
                let t = *r.pick(&good);
                Action::Malformed {
                    t,
                    payload: gen_malformed(r, &texts[t].hash),
                    with_text: r.chance(2, 3),
                }
            }
            6 => Action::Unparsable { t: *r.pick(&bad) },
            7 => Action::Plain { t: *r.pick(&good) },
            8 => Action::UppercaseRegister { t: *r.pick(&good) },
            9 => Action::UppercaseLookup { t: *r.pick(&good) },
            _ => Action::Positional {
                t: *r.pick(&good),
                with_text: r.chance(2, 3),
            },
        };
        shape.push_str(&format!("{:?};", action));
        let built = build_request(r, &texts, &action);
        let request_json = built.request_json.clone();
        if let Store::Map(m) = &store {
            m.calls.lock().unwrap().clear();
        }
        log.take();
        run.eval();
        let resp = catch(|| block_on(schema.execute(built.request)))?;
        let events = log.take();
        let tags = tags_of(&events);
        let msgs = error_messages(&resp);
        let not_found = msgs.iter().any(|m| m == "PersistedQueryNotFound");
        run.seen("actions", action.class());
        for m in &msgs {
            run.seen("error_messages", &format!("{}: {}", action.class(), normalise(m)));
        }
        let mut step_json = json!({
            "step": step, "action": format!("{action:?}"), "request": request_json,
            "response": serde_json::to_value(&resp).unwrap_or(J::Null),
            "resolver_log": events_json(&events),
        });
        if let Store::Map(m) = &store {
            step_json["storage_calls"] = json!(m.calls.lock().unwrap().iter().map(|(o, k)| format!("{o}({k})")).collect::<Vec<_>>());
        }
        steps_json.push(step_json);
        let mut bad_here: Vec<String> = vec![];

        // ---- S: executed documents hash to the supplied hash
        if let Some(h) = &built.supplied_hash {
            for (tag, _) in &tags {
                run.count("executed_fields_hash_checked", 1);
                match tag_owner.get(tag) {
                    Some(owner) if texts[*owner].hash == h.to_lowercase() => {}
                    Some(owner) => bad_here.push(format!(
                        "executed tag {tag} belongs to text #{owner} {:?} whose SHA-256 is {}, but the request supplied hash {h:?}",
                        texts[*owner].text, texts[*owner].hash
                    )),
                    None => bad_here.push(format!("executed tag {tag} belongs to no text of this history")),
                }
            }
        }

        // expected exact run of a text (operation chosen by the request)
        let expect_run = |t: usize| -> Vec<(i32, Option<i32>)> {
            let ops = &texts[t].ops;
            let op = match built.op_name {
                Some(n) => ops.iter().find(|(name, _)| *name == Some(n)),
                None => ops.first(),
            };
            op.map(|(_, tags)| tags.iter().map(|g| (*g, if texts[t].uses_var { built.var_v } else { None })).collect())
                .unwrap_or_default()
        };
        let sorted = |mut v: Vec<(i32, Option<i32>)>| {
            v.sort();
            v
        };

        // ---- model step + L / N
        match &action {
            Action::Register { t, .. } => {
                model.register(&texts[*t].hash, *t);
                model.uncertain.remove(&texts[*t].hash);
                run.count("registrations", 1);
                if sorted(tags.clone()) == sorted(expect_run(*t)) && msgs.is_empty() {
                    run.count("registrations_executed", 1);
                } else {
                    // not demanded by the property ("only if"), recorded for the evidence
                    run.count("registrations_not_executed_as_written", 1);
                }
            }
            Action::Lookup { t, .. } => {
                let h = &texts[*t].hash;
                if model.uncertain.contains(h) {
                    run.count("lookups_outcome_open", 1);
                } else if model.store.contains_key(h) {
                    let ran = sorted(tags.clone()) == sorted(expect_run(*t)) && !tags.is_empty() && msgs.is_empty();
                    let evictable = match &store {
                        Store::Lru(cap) => model.since[h].len() >= *cap,
                        Store::Map(_) => false,
                    };
                    if ran {
                        run.count("lookups_found", 1);
                        registered_then_looked_up = true;
                    } else if evictable && not_found && tags.is_empty() {
                        run.count("lookups_not_found_after_possible_eviction", 1);
                    } else {
                        bad_here.push(format!(
                            "hash-only request for {h} (registered for text #{t} {:?}, {} other texts registered since, {cap_desc}) should run tags {:?}; ran {:?}, errors {:?}",
                            texts[*t].text, model.since[h].len(), expect_run(*t), tags, msgs
                        ));
                    }
                } else if not_found && tags.is_empty() {
                    run.count("lookups_not_found", 1);
                } else {
                    bad_here.push(format!(
                        "hash-only request for {h}, never registered in this history: expected PersistedQueryNotFound, ran {tags:?}, errors {msgs:?}"
                    ));
                }
            }
            Action::LookupUnknown { hash } => {
                if not_found && tags.is_empty() {
                    run.count("lookups_not_found", 1);
                } else {
                    bad_here.push(format!(
                        "hash-only request for unregistered hash {hash:?}: expected PersistedQueryNotFound, ran {tags:?}, errors {msgs:?}"
                    ));
                }
            }
            Action::Mismatch { other, .. } => {
                if tags.is_empty() && !msgs.is_empty() {
                    run.count("mismatch_rejected", 1);
                } else {
                    run.count("mismatch_not_rejected", 1);
                }
                if other.map(|o| model.store.contains_key(&texts[o].hash)).unwrap_or(false) {
                    run.count("mismatch_against_registered_hash", 1);
                }
            }
            Action::WrongVersion { .. } => {
                if tags.is_empty() && !msgs.is_empty() {
                    run.count("wrong_version_rejected", 1);
                } else {
                    run.count("wrong_version_not_rejected", 1);
                }
            }
            Action::Malformed { .. } => {
                if tags.is_empty() && !msgs.is_empty() {
                    run.count("malformed_rejected", 1);
                } else {
                    run.count("malformed_not_rejected", 1);
                }
            }
            Action::Unparsable { .. } => {
                if !tags.is_empty() {
                    bad_here.push(format!("an unparsable text executed {tags:?}"));
                }
                run.count("unparsable_requests", 1);
            }
            Action::Plain { .. } => run.count("plain_requests", 1),
            Action::UppercaseRegister { t } => {
                // open: may be refused or accepted; either spelling may now be known
                model.uncertain.insert(texts[*t].hash.clone());
                model.uncertain.insert(texts[*t].hash.to_uppercase());
                run.count(if tags.is_empty() { "uppercase_register_refused" } else { "uppercase_register_executed" }, 1);
            }
            Action::UppercaseLookup { t } => {
                // open: NotFound or exactly the text with this hash (S above already judged what ran)
                let ran = sorted(tags.clone()) == sorted(expect_run(*t)) && !tags.is_empty();
                if !(ran || (not_found && tags.is_empty())) {
                    bad_here.push(format!(
                        "hash-only request with upper-case hash of text #{t}: neither PersistedQueryNotFound nor a run of that text; ran {tags:?}, errors {msgs:?}"
                    ));
                }
                run.count(if ran { "uppercase_lookup_found" } else { "uppercase_lookup_not_found" }, 1);
            }
            Action::Positional { t, with_text } => {
                if *with_text {
                    // may or may not have registered the text
                    model.uncertain.insert(texts[*t].hash.clone());
                }
                run.count(if tags.is_empty() { "positional_payload_refused" } else { "positional_payload_executed" }, 1);
            }
        }

        // ---- N (direct): with the harness store, content == model after every step
        if let Store::Map(m) = &store {
            let map = m.map.lock().unwrap();
            let calls = m.calls.lock().unwrap();
            for (op, key) in calls.iter() {
                if *op == "set" {
                    run.count("store_set_calls_checked", 1);
                    if !matches!(action, Action::Register { .. } | Action::UppercaseRegister { .. } | Action::Positional { .. }) {
                        bad_here.push(format!("a {} request stored a document under key {key:?}", action.class()));
                    }
                }
            }
            for (k, doc) in map.iter() {
                if model.uncertain.contains(k) {
                    continue;
                }
                match model.store.get(k) {
                    None => bad_here.push(format!("store holds key {k:?} which the model never registered")),
                    Some(t) => {
                        let want = parse_query(&texts[*t].text).map(|d| canon(&d)).unwrap_or_default();
                        if canon(doc) != want {
                            bad_here.push(format!("document stored under {k} is not the parse of text #{t} {:?}", texts[*t].text));
                        }
                        if sha_hex(&texts[*t].text) != *k {
                            bad_here.push(format!("store key {k} is not the SHA-256 of the text it holds"));
                        }
                    }
                }
            }
            for k in model.store.keys() {
                if !map.contains_key(k) && !model.uncertain.contains(k) {
                    bad_here.push(format!("model holds {k} but the unbounded store lost it"));
                }
            }
            run.count("store_snapshots_compared", 1);
        }

        if !bad_here.is_empty() {
            return Ok(HistoryResult {
                violation: Some((bad_here.join("; "), step)),
                steps: steps_json,
                nontrivial: registered_then_looked_up,
                shape_hash: rng::hash_str(&shape),
            });
        }
    }
    run.sample(json!({"storage": cap_desc, "texts": texts.iter().map(|t| json!({"text": t.text, "sha256": t.hash, "parses": t.parses})).collect::<Vec<_>>(),
        "first_steps": steps_json.iter().take(6).cloned().collect::<Vec<_>>()}));
    Ok(HistoryResult {
        violation: None,
        steps: steps_json,
        nontrivial: registered_then_looked_up,
        shape_hash: rng::hash_str(&format!("{cap_desc}|{shape}")),
    })
}

/// Order-independent rendering of a parsed document (operations and fragments
/// live in hash maps whose iteration order differs between two parses).
fn canon(doc: &ExecutableDocument) -> String {
    let mut ops: Vec<String> = doc.operations.iter().map(|(n, op)| format!("{n:?} => {op:?}")).collect();
    ops.sort();
    let mut frags: Vec<String> = doc.fragments.iter().map(|(n, f)| format!("{n} => {f:?}")).collect();
    frags.sort();
    format!("{ops:?} | {frags:?}")
}

/// Keep the set of distinct error messages small: digits and hex runs collapsed.
fn normalise(m: &str) -> String {
    let mut out = String::new();
    let mut last_hash = false;
    for c in m.chars() {
        if c.is_ascii_digit() {
            if !last_hash {
                out.push('#');
            }
            last_hash = true;
        } else {
            out.push(c);
            last_hash = false;
        }
    }
    vh_core::run::truncate(&out, 110)
}

pub fn main() {
    let mut run = Run::from_args(
        "exploration",
        "random request histories (8-40 requests) against a schema with ApolloPersistedQueries over LruCacheStorage::new(1..=4) (3 in 5) \
         or a harness HashMap CacheStorage that records get/set (2 in 5); per history a pool of 3-8 parsable texts (shorthand, named, \
         two-field, mutation, variable-using, multi-operation, whitespace/comment variant, fragment) and 1-2 unparsable ones, every text \
         with its own tag argument(s); actions: register, hash-only lookup (query empty or absent, of registered and of never registered \
         pool texts), lookup of unknown/garbage/empty hash, text with another text's (preferably registered) hash or a random digest, \
         version in {0,2,-1,10,1000,i32::MAX}, 15 malformed payload shapes, the positional spelling [1, hash] (outcome open), unparsable text with its correct hash, plain request, upper-case \
         hash; requests built through Request::new + extensions.insert or deserialised from JSON. A history is non-trivial when a \
         registered text was later run by a hash-only request; distinct by hash of (storage, action sequence)",
    );
    run.assume("SHA-256 is computed on the oracle side with the sha2 crate; hex digests are compared lower-case");
    run.assume("which document ran is read from the resolver log: every text has tag arguments no other text of the history has");
    run.assume("equality of hex spellings is not specified: for an upper-case spelling of a correct hash the outcome is not asserted (refusal or acceptance), only that whatever ran hashes to the supplied digest; hashes touched that way are excluded from store comparisons");
    run.assume("`persistedQuery: [1, \"<hash>\"]` is read by serde as version 1 + hash: the property does not say whether that spelling is a valid payload, so its outcome is open like the upper-case one");
    run.assume("the property says 'executed only if': that a valid registration request also executes its query is recorded (registrations_executed), not asserted");
    run.assume("LRU: a registered hash may answer PersistedQueryNotFound only when at least `cap` other distinct texts were registered since its last registration; the harness HashMap store is unbounded, there the model is exact and the store content is compared with the model after every request");
    run.assume("a mismatching / wrong-version / malformed request is allowed to fail or to execute something that hashes to the supplied digest; asserted is only that it changes nothing");

    let n_hist = run.scale(3_000, 400_000);
    run.set_floors(20_000, 1_000);
    for c in [
        "registrations",
        "lookups_found",
        "lookups_not_found",
        "executed_fields_hash_checked",
        "mismatch_against_registered_hash",
        "wrong_version_rejected",
        "malformed_rejected",
        "unparsable_requests",
        "store_snapshots_compared",
        "store_set_calls_checked",
    ] {
        run.require_counter(c);
    }

    let shards = 16u64;
    let run_ref = &run;
    std::thread::scope(|sc| {
        for shard in 0..shards {
            sc.spawn(move || {
                let run = run_ref;
                let mut i = shard;
                while i < n_hist {
                    let mut r = Rng::new(rng::mix(&[run.seed, 31, i]));
                    match run_history(run, &mut r) {
                        Err(e) => run.inconclusive(&format!("history {i}: {e}")),
                        Ok(h) => {
                            run.count("histories", 1);
                            run.count("requests", h.steps.len() as u64);
                            if h.nontrivial {
                                run.nontrivial(h.shape_hash);
                            }
                            if let Some((what, step)) = h.violation {
                                run.violation(
                                    &format!("gen-history:{:x}", rng::mix(&[run.seed, i])),
                                    &format!("history {i}, request {step}: {what}"),
                                    json!({"history_index": i, "failing_step": step, "steps": h.steps}),
                                );
                            }
                        }
                    }
                    i += shards;
                }
            });
        }
    });
    run.finish();
}
