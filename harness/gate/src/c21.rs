//! C21 — secret arguments never appear in logged or traced query text.
//!
//! Three observation points on the same requests:
//!   * a harness extension whose `parse_query` hook calls
//!     `ctx.stringify_execute_doc(&doc, variables)` exactly as
//!     `extensions::Logger` does and records the returned string,
//!   * the real `extensions::Logger` (captured through a `log::Log`
//!     implementation), and
//!   * the real `extensions::Tracing` (the `source` field recorded on its
//!     `parse` span, captured through a `tracing::Subscriber`).
//!
//! Every string the generator writes into a document or into the variables is
//! a unique sentinel `S3CR3T_<n>Z`; the generator knows from the schema whether
//! the position is secret. Oracle: no sentinel of a secret position is a
//! substring of any recorded text. Sentinels of non-secret positions may appear
//! and are counted, so the monitor is known to look at real text.

use std::cell::RefCell;
use std::collections::{BTreeSet, HashMap};
use std::sync::atomic::{AtomicU64, Ordering};
use std::sync::{Arc, Mutex};

use async_graphql::extensions::{
    Extension, ExtensionContext, ExtensionFactory, Logger, NextParseQuery, Tracing,
};
use async_graphql::parser::types::ExecutableDocument;
use async_graphql::{
    Context, InputObject, Interface, Object, Request, Schema, ServerResult, Subscription, Union, Variables,
};
use futures_util::{Stream, StreamExt, stream};
use vh_core::serde_json::{self, Value as J, json};
use vh_core::vsched::block_on;
use vh_core::{Rng, Run, catch, rng};

use crate::EvLog;

// ------------------------------------------------------------------- schema

#[derive(InputObject, Debug)]
struct Cred {
    user: Option<String>,
    #[graphql(secret)]
    pass: Option<String>,
    inner: Option<Box<Cred>>,
    inners: Option<Vec<Cred>>,
    #[graphql(secret)]
    tokens: Option<Vec<String>>,
    #[graphql(secret)]
    vault: Option<Box<Cred>>,
}

fn ev(ctx: &Context<'_>, kind: &'static str, field: &str, args: String) {
    ctx.data_unchecked::<EvLog>().push(kind, field, args);
}

// `#[Object]` only sees methods written inside the impl block it is attached
// to, so the macro produces the whole attributed impl.
macro_rules! secret_object {
    ($ty:ident, $kind:literal, { $($extra:tt)* }) => {
        #[Object]
        impl $ty {
            async fn login(
                &self,
                ctx: &Context<'_>,
                user: Option<String>,
                #[graphql(secret)] password: Option<String>,
            ) -> bool {
                ev(ctx, $kind, "login", format!("user={user:?} password={password:?}"));
                true
            }
            async fn login_rev(
                &self,
                ctx: &Context<'_>,
                #[graphql(secret)] password: Option<String>,
                user: Option<String>,
            ) -> bool {
                ev(ctx, $kind, "loginRev", format!("password={password:?} user={user:?}"));
                true
            }
            async fn use_tokens(
                &self,
                ctx: &Context<'_>,
                #[graphql(secret)] tokens: Option<Vec<String>>,
                label: Option<String>,
            ) -> i32 {
                ev(ctx, $kind, "useTokens", format!("tokens={tokens:?} label={label:?}"));
                tokens.map(|t| t.len() as i32).unwrap_or(0)
            }
            async fn auth(
                &self,
                ctx: &Context<'_>,
                #[graphql(secret)] cred: Option<Cred>,
                note: Option<String>,
            ) -> bool {
                ev(ctx, $kind, "auth", format!("cred={cred:?} note={note:?}"));
                true
            }
            async fn signin(&self, ctx: &Context<'_>, cred: Option<Cred>, note: Option<String>) -> bool {
                ev(ctx, $kind, "signin", format!("cred={cred:?} note={note:?}"));
                true
            }
            async fn signin_many(&self, ctx: &Context<'_>, creds: Option<Vec<Cred>>, note: Option<String>) -> i32 {
                ev(ctx, $kind, "signinMany", format!("creds={creds:?} note={note:?}"));
                creds.map(|c| c.len() as i32).unwrap_or(0)
            }
            $($extra)*
        }
    };
}

struct Account;

secret_object!(Account, "field", {});

struct Robot;

#[Object]
impl Robot {
    async fn login(&self, ctx: &Context<'_>, user: Option<String>, #[graphql(secret)] password: Option<String>) -> bool {
        ev(ctx, "field", "Robot.login", format!("user={user:?} password={password:?}"));
        false
    }
}

#[derive(Interface)]
#[graphql(field(
    name = "login",
    ty = "bool",
    arg(name = "user", ty = "Option<String>"),
    arg(name = "password", ty = "Option<String>", secret)
))]
enum Node {
    Account(Account),
    Robot(Robot),
}

#[derive(Union)]
enum Actor {
    Account(Account),
    Robot(Robot),
}

struct Query;

secret_object!(Query, "query", {
    async fn account(&self, ctx: &Context<'_>) -> Account {
        ev(ctx, "query", "account", String::new());
        Account
    }
    async fn node(&self, ctx: &Context<'_>) -> Node {
        ev(ctx, "query", "node", String::new());
        Node::Account(Account)
    }
    async fn actor(&self, ctx: &Context<'_>) -> Actor {
        ev(ctx, "query", "actor", String::new());
        Actor::Account(Account)
    }
});

struct Mutation;

secret_object!(Mutation, "mutation", {
    async fn account(&self, ctx: &Context<'_>) -> Account {
        ev(ctx, "mutation", "account", String::new());
        Account
    }
});

struct SubscriptionRoot;

#[Subscription(name = "Subscription")]
impl SubscriptionRoot {
    async fn login(
        &self,
        ctx: &Context<'_>,
        user: Option<String>,
        #[graphql(secret)] password: Option<String>,
    ) -> impl Stream<Item = bool> {
        ev(ctx, "subscription", "login", format!("user={user:?} password={password:?}"));
        stream::iter(vec![true])
    }
    async fn signin(&self, ctx: &Context<'_>, cred: Option<Cred>, note: Option<String>) -> impl Stream<Item = bool> {
        ev(ctx, "subscription", "signin", format!("cred={cred:?} note={note:?}"));
        stream::iter(vec![true])
    }
    async fn signin_many(
        &self,
        ctx: &Context<'_>,
        creds: Option<Vec<Cred>>,
        note: Option<String>,
    ) -> impl Stream<Item = i32> {
        ev(ctx, "subscription", "signinMany", format!("creds={creds:?} note={note:?}"));
        stream::iter(vec![creds.map(|c| c.len() as i32).unwrap_or(0)])
    }
    async fn auth(
        &self,
        ctx: &Context<'_>,
        #[graphql(secret)] cred: Option<Cred>,
        note: Option<String>,
    ) -> impl Stream<Item = bool> {
        ev(ctx, "subscription", "auth", format!("cred={cred:?} note={note:?}"));
        stream::iter(vec![true])
    }
}

// ------------------------------------------------- the recording extension

#[derive(Clone, Default)]
struct Recorded(Arc<Mutex<Vec<String>>>);

struct Recorder(Recorded);

impl ExtensionFactory for Recorder {
    fn create(&self) -> Arc<dyn Extension> {
        Arc::new(RecorderExt(self.0.clone()))
    }
}

struct RecorderExt(Recorded);

#[async_graphql::async_trait::async_trait]
impl Extension for RecorderExt {
    // same shape as extensions::Logger::parse_query
    async fn parse_query(
        &self,
        ctx: &ExtensionContext<'_>,
        query: &str,
        variables: &Variables,
        next: NextParseQuery<'_>,
    ) -> ServerResult<ExecutableDocument> {
        let document = next.run(ctx, query, variables).await?;
        let text = ctx.stringify_execute_doc(&document, variables);
        self.0.0.lock().unwrap().push(text);
        Ok(document)
    }
}

// ---------------------------------------------- capturing `log` and `tracing`

thread_local! {
    static LOGGED: RefCell<Vec<String>> = const { RefCell::new(Vec::new()) };
    static TRACED: RefCell<Vec<String>> = const { RefCell::new(Vec::new()) };
    static SPAN_STACK: RefCell<Vec<u64>> = const { RefCell::new(Vec::new()) };
}

struct CapLog;

impl log::Log for CapLog {
    fn enabled(&self, _: &log::Metadata<'_>) -> bool {
        true
    }
    fn log(&self, record: &log::Record<'_>) {
        if record.target() == "async-graphql" {
            let line = format!("{}", record.args());
            LOGGED.with(|l| l.borrow_mut().push(line));
        }
    }
    fn flush(&self) {}
}

static CAPLOG: CapLog = CapLog;

struct CapSub {
    next: AtomicU64,
    meta: Mutex<HashMap<u64, &'static tracing::Metadata<'static>>>,
}

struct SourceVisitor;

impl tracing::field::Visit for SourceVisitor {
    fn record_str(&mut self, field: &tracing::field::Field, value: &str) {
        if field.name() == "source" {
            TRACED.with(|t| t.borrow_mut().push(value.to_string()));
        }
    }
    fn record_debug(&mut self, field: &tracing::field::Field, value: &dyn std::fmt::Debug) {
        if field.name() == "source" {
            TRACED.with(|t| t.borrow_mut().push(format!("{value:?}")));
        }
    }
}

impl tracing::Subscriber for CapSub {
    fn enabled(&self, _: &tracing::Metadata<'_>) -> bool {
        true
    }
    fn new_span(&self, attrs: &tracing::span::Attributes<'_>) -> tracing::span::Id {
        let id = self.next.fetch_add(1, Ordering::Relaxed) + 1;
        attrs.record(&mut SourceVisitor);
        // only the `parse` span is ever looked up again (Span::current().record)
        if attrs.metadata().name() == "parse" {
            self.meta.lock().unwrap().insert(id, attrs.metadata());
        }
        tracing::span::Id::from_u64(id)
    }
    fn record(&self, _: &tracing::span::Id, values: &tracing::span::Record<'_>) {
        values.record(&mut SourceVisitor);
    }
    fn record_follows_from(&self, _: &tracing::span::Id, _: &tracing::span::Id) {}
    fn event(&self, event: &tracing::Event<'_>) {
        event.record(&mut SourceVisitor);
    }
    fn enter(&self, id: &tracing::span::Id) {
        SPAN_STACK.with(|s| s.borrow_mut().push(id.into_u64()));
    }
    fn exit(&self, id: &tracing::span::Id) {
        SPAN_STACK.with(|s| {
            let mut s = s.borrow_mut();
            if let Some(pos) = s.iter().rposition(|x| *x == id.into_u64()) {
                s.remove(pos);
            }
        });
    }
    fn current_span(&self) -> tracing_core::span::Current {
        let top = SPAN_STACK.with(|s| s.borrow().last().copied());
        match top.and_then(|id| self.meta.lock().unwrap().get(&id).map(|m| (id, *m))) {
            Some((id, m)) => tracing_core::span::Current::new(tracing::span::Id::from_u64(id), m),
            None => tracing_core::span::Current::none(),
        }
    }
    fn try_close(&self, id: tracing::span::Id) -> bool {
        self.meta.lock().unwrap().remove(&id.into_u64());
        true
    }
}

fn install_capture() {
    use std::sync::Once;
    static ONCE: Once = Once::new();
    ONCE.call_once(|| {
        let _ = log::set_logger(&CAPLOG);
        log::set_max_level(log::LevelFilter::Info);
        let _ = tracing::subscriber::set_global_default(CapSub {
            next: AtomicU64::new(0),
            meta: Mutex::new(HashMap::new()),
        });
    });
}

// ---------------------------------------------------------------- generator

/// How a sentinel got into the request; the three `leak_*` flags mark the
/// constructs that known findings exclude (generator features).
#[derive(Clone, Debug)]
struct Placement {
    sentinel: String,
    secret: bool,
    /// human-readable syntactic position
    how: String,
    under_list_of_objects: bool,
    under_untyped_inline: bool,
    as_variable_default: bool,
}

#[derive(Clone, Copy)]
struct Feats {
    list_of_objects: bool,
    untyped_inline: bool,
    variable_default: bool,
}

#[derive(Clone, Debug)]
enum V {
    /// index into `placements`
    Str(usize),
    List(Vec<V>),
    Obj(Vec<(&'static str, V)>),
}

#[derive(Clone, Copy, PartialEq, Eq, Debug)]
enum OpKind {
    Query,
    Mutation,
    Subscription,
}

#[derive(Clone, Copy, PartialEq, Eq, Debug)]
enum Parent {
    Root(OpKind),
    Account,
    Robot,
    Node,
    Actor,
}

impl Parent {
    fn type_name(self) -> &'static str {
        match self {
            Parent::Root(OpKind::Query) => "Query",
            Parent::Root(OpKind::Mutation) => "Mutation",
            Parent::Root(OpKind::Subscription) => "Subscription",
            Parent::Account => "Account",
            Parent::Robot => "Robot",
            Parent::Node => "Node",
            Parent::Actor => "Actor",
        }
    }
}

struct VarDef {
    name: String,
    ty: String,
    default: Option<String>,
    value: Option<J>,
}

struct Gen<'a> {
    r: &'a mut Rng,
    feats: Feats,
    base: u64,
    placements: Vec<Placement>,
    vars: Vec<VarDef>,
    frags: Vec<String>,
    nalias: u32,
    nfrag: u32,
}

#[derive(Clone, Copy)]
struct Ctx {
    /// the printer has lost the parent type (inside `... { }` without a typed fragment in between)
    lost: bool,
    depth: u32,
}

struct GenDoc {
    text: String,
    variables: J,
    operation_name: Option<String>,
    kind: OpKind,
    placements: Vec<Placement>,
}

impl Gen<'_> {
    fn sentinel(&mut self, secret: bool, how: &str, listed: bool, lost: bool) -> usize {
        let n = self.base + self.placements.len() as u64;
        self.placements.push(Placement {
            sentinel: format!("S3CR3T_{n}Z"),
            secret,
            how: how.to_string(),
            under_list_of_objects: secret && listed,
            under_untyped_inline: secret && lost,
            as_variable_default: false,
        });
        self.placements.len() - 1
    }

    fn alias(&mut self) -> String {
        if self.r.chance(2, 3) {
            self.nalias += 1;
            format!("a{}: ", self.nalias)
        } else {
            String::new()
        }
    }

    // ---- value trees

    /// A `Cred` value in a non-secret position. `listed`: a list of input
    /// objects lies between the argument and here (the printer stops masking
    /// there); `allow_secret`: may secret-marked fields be generated here at all.
    fn cred(&mut self, depth: u32, listed: bool, lost: bool, allow_secret: bool, path: &str) -> V {
        let mut fields: Vec<(&'static str, V)> = vec![];
        let marked_ok = allow_secret && (!listed || self.feats.list_of_objects);
        let mut order = vec!["user", "pass", "inner", "inners", "tokens", "vault"];
        self.r.shuffle(&mut order);
        for f in order {
            match f {
                "user" if self.r.chance(2, 3) => {
                    let i = self.sentinel(false, &format!("{path}.user"), false, lost);
                    fields.push(("user", V::Str(i)));
                }
                "pass" if marked_ok && self.r.chance(3, 4) => {
                    let i = self.sentinel(true, &format!("{path}.pass (secret input field)"), listed, lost);
                    fields.push(("pass", V::Str(i)));
                }
                "inner" if depth < 3 && self.r.chance(1, 2) => {
                    let v = self.cred(depth + 1, listed, lost, allow_secret, &format!("{path}.inner"));
                    fields.push(("inner", v));
                }
                "inners" if depth < 3 && self.r.chance(1, 4) => {
                    let n = 1 + self.r.below(2);
                    let items = (0..n)
                        .map(|k| self.cred(depth + 1, true, lost, allow_secret, &format!("{path}.inners[{k}]")))
                        .collect();
                    fields.push(("inners", V::List(items)));
                }
                "tokens" if marked_ok && self.r.chance(1, 3) => {
                    let n = 1 + self.r.below(3);
                    let items = (0..n)
                        .map(|k| {
                            V::Str(self.sentinel(
                                true,
                                &format!("{path}.tokens[{k}] (secret list input field)"),
                                listed,
                                lost,
                            ))
                        })
                        .collect();
                    fields.push(("tokens", V::List(items)));
                }
                "vault" if marked_ok && depth < 3 && self.r.chance(1, 4) => {
                    let v = self.cred_all_secret(
                        depth + 1,
                        listed,
                        lost,
                        &format!("{path}.vault (secret object input field)"),
                    );
                    fields.push(("vault", v));
                }
                _ => {}
            }
        }
        if fields.is_empty() {
            let i = self.sentinel(false, &format!("{path}.user"), false, lost);
            fields.push(("user", V::Str(i)));
        }
        V::Obj(fields)
    }

    /// A `Cred` below a secret marker: every string in it is secret.
    fn cred_all_secret(&mut self, depth: u32, listed: bool, lost: bool, path: &str) -> V {
        let mut fields: Vec<(&'static str, V)> = vec![];
        for f in ["user", "pass", "inner", "inners", "tokens"] {
            if !self.r.chance(1, 2) {
                continue;
            }
            match f {
                "user" | "pass" => {
                    let i = self.sentinel(true, &format!("{path}.{f}"), listed, lost);
                    fields.push((f, V::Str(i)));
                }
                "inner" if depth < 3 => {
                    let v = self.cred_all_secret(depth + 1, listed, lost, &format!("{path}.inner"));
                    fields.push(("inner", v));
                }
                "inners" if depth < 3 => {
                    let v = self.cred_all_secret(depth + 1, listed, lost, &format!("{path}.inners[0]"));
                    fields.push(("inners", V::List(vec![v])));
                }
                "tokens" => {
                    let i = self.sentinel(true, &format!("{path}.tokens[0]"), listed, lost);
                    fields.push(("tokens", V::List(vec![V::Str(i)])));
                }
                _ => {}
            }
        }
        if fields.is_empty() {
            let i = self.sentinel(true, &format!("{path}.pass"), listed, lost);
            fields.push(("pass", V::Str(i)));
        }
        V::Obj(fields)
    }

    fn has_secret(&self, v: &V) -> bool {
        match v {
            V::Str(i) => self.placements[*i].secret,
            V::List(l) => l.iter().any(|x| self.has_secret(x)),
            V::Obj(o) => o.iter().any(|(_, x)| self.has_secret(x)),
        }
    }

    fn to_json(&self, v: &V) -> J {
        match v {
            V::Str(i) => J::String(self.placements[*i].sentinel.clone()),
            V::List(l) => J::Array(l.iter().map(|x| self.to_json(x)).collect()),
            V::Obj(o) => {
                let mut m = serde_json::Map::new();
                for (k, x) in o {
                    m.insert(k.to_string(), self.to_json(x));
                }
                J::Object(m)
            }
        }
    }

    fn render_const(&self, v: &V) -> String {
        match v {
            V::Str(i) => format!("\"{}\"", self.placements[*i].sentinel),
            V::List(l) => format!("[{}]", l.iter().map(|x| self.render_const(x)).collect::<Vec<_>>().join(", ")),
            V::Obj(o) => format!(
                "{{{}}}",
                o.iter()
                    .map(|(k, x)| format!("{k}: {}", self.render_const(x)))
                    .collect::<Vec<_>>()
                    .join(", ")
            ),
        }
    }

    fn annotate(&mut self, v: &V, note: &str, is_default: bool) {
        match v {
            V::Str(i) => {
                let p = &mut self.placements[*i];
                p.how.push_str(note);
                if is_default && p.secret {
                    p.as_variable_default = true;
                }
            }
            V::List(l) => l.iter().for_each(|x| self.annotate(x, note, is_default)),
            V::Obj(o) => o.iter().for_each(|(_, x)| self.annotate(x, note, is_default)),
        }
    }

    /// Write a value as it appears in the document; with some probability a
    /// node is supplied through a variable instead (value in the variables JSON,
    /// a default value in the definition, or both).
    fn render(&mut self, v: &V, ty: &str) -> String {
        let p_var = match v {
            V::Str(_) => 3,
            _ => 2,
        };
        if self.r.chance(p_var, 10) {
            let name = format!("v{}", self.vars.len());
            let default_ok = !self.has_secret(v) || self.feats.variable_default;
            // a variable without a JSON value makes the printer write the whole
            // argument as `null`, which hides everything else in it: keep that rare
            let mode = if default_ok { self.r.below(10) } else { 0 };
            let (default, value, note, is_default) = match mode {
                6 => (Some(self.render_const(v)), None, " via variable DEFAULT value", true),
                7..=9 => (
                    Some(self.render_const(v)),
                    Some(self.to_json(v)),
                    " via variable with the same DEFAULT and JSON value",
                    true,
                ),
                _ => (None, Some(self.to_json(v)), " via variable (JSON value)", false),
            };
            self.annotate(v, note, is_default);
            self.vars.push(VarDef {
                name: name.clone(),
                ty: ty.to_string(),
                default,
                value,
            });
            return format!("${name}");
        }
        match v {
            V::Str(i) => format!("\"{}\"", self.placements[*i].sentinel),
            V::List(l) => {
                let inner_ty = ty.trim_start_matches('[').trim_end_matches(']').trim_end_matches('!').to_string();
                let parts: Vec<String> = l.iter().map(|x| self.render(x, &inner_ty)).collect();
                format!("[{}]", parts.join(", "))
            }
            V::Obj(o) => {
                let parts: Vec<String> = o
                    .iter()
                    .map(|(k, x)| {
                        let t = match *k {
                            "user" | "pass" => "String",
                            "inner" | "vault" => "Cred",
                            "inners" => "[Cred!]",
                            "tokens" => "[String!]",
                            _ => "String",
                        };
                        format!("{k}: {}", self.render(x, t))
                    })
                    .collect();
                format!("{{{}}}", parts.join(", "))
            }
        }
    }

    // ---- fields with arguments

    fn str_arg(&mut self, name: &str, secret: bool, how: &str, lost: bool) -> String {
        let i = self.sentinel(secret, how, false, lost);
        let v = V::Str(i);
        format!("{name}: {}", self.render(&v, "String"))
    }

    fn leaf_field(&mut self, parent: Parent, c: Ctx) -> String {
        let allow_secret = !c.lost || self.feats.untyped_inline;
        let pname = parent.type_name();
        let names: &[&str] = match parent {
            Parent::Root(OpKind::Subscription) => &["login", "signin", "signinMany", "auth"],
            Parent::Robot | Parent::Node => &["login"],
            _ => &["login", "loginRev", "useTokens", "auth", "signin", "signinMany"],
        };
        let f = *self.r.pick(names);
        let mut args: Vec<String> = vec![];
        match f {
            "login" | "loginRev" => {
                let mut want_pw = allow_secret && self.r.chance(5, 6);
                let want_user = self.r.chance(3, 4) || !want_pw;
                if !want_user && !want_pw {
                    want_pw = allow_secret;
                }
                if want_user {
                    args.push(self.str_arg("user", false, &format!("{pname}.{f}(user:)"), c.lost));
                }
                if want_pw {
                    args.push(self.str_arg("password", true, &format!("{pname}.{f}(password:) secret argument"), c.lost));
                }
                // secret argument first or last, whatever the declaration order
                if self.r.bool() {
                    args.reverse();
                }
            }
            "useTokens" => {
                if allow_secret && self.r.chance(5, 6) {
                    let n = 1 + self.r.below(3);
                    let items: Vec<V> = (0..n)
                        .map(|k| V::Str(self.sentinel(true, &format!("{pname}.useTokens(tokens:[{k}]) secret list argument"), false, c.lost)))
                        .collect();
                    let v = V::List(items);
                    args.push(format!("tokens: {}", self.render(&v, "[String!]")));
                }
                if args.is_empty() || self.r.bool() {
                    args.push(self.str_arg("label", false, &format!("{pname}.useTokens(label:)"), c.lost));
                }
                if self.r.bool() {
                    args.reverse();
                }
            }
            "auth" => {
                if allow_secret && self.r.chance(5, 6) {
                    let v = self.cred_all_secret(1, false, c.lost, &format!("{pname}.auth(cred:) secret input-object argument"));
                    args.push(format!("cred: {}", self.render(&v, "Cred")));
                }
                if args.is_empty() || self.r.bool() {
                    args.push(self.str_arg("note", false, &format!("{pname}.auth(note:)"), c.lost));
                }
                if self.r.bool() {
                    args.reverse();
                }
            }
            "signin" => {
                let v = self.cred(1, false, c.lost, allow_secret, &format!("{pname}.signin(cred:)"));
                args.push(format!("cred: {}", self.render(&v, "Cred")));
                if self.r.bool() {
                    args.push(self.str_arg("note", false, &format!("{pname}.signin(note:)"), c.lost));
                }
                if self.r.bool() {
                    args.reverse();
                }
            }
            _ => {
                // signinMany: a list of input objects, or (list coercion) a single object
                let v = if self.r.chance(1, 6) {
                    self.cred(1, false, c.lost, allow_secret, &format!("{pname}.signinMany(creds: single object)"))
                } else {
                    let n = 1 + self.r.below(3);
                    V::List(
                        (0..n)
                            .map(|k| self.cred(1, true, c.lost, allow_secret, &format!("{pname}.signinMany(creds:[{k}])")))
                            .collect(),
                    )
                };
                args.push(format!("creds: {}", self.render(&v, "[Cred!]")));
                if self.r.bool() {
                    args.push(self.str_arg("note", false, &format!("{pname}.signinMany(note:)"), c.lost));
                }
            }
        }
        let a = self.alias();
        format!("{a}{f}({})", args.join(", "))
    }

    fn selection(&mut self, parent: Parent, c: Ctx) -> String {
        let n = 1 + self.r.below(if c.depth == 0 { 3 } else { 2 });
        let mut items = vec![];
        for _ in 0..n {
            items.push(self.item(parent, c));
        }
        items.join(" ")
    }

    fn item(&mut self, parent: Parent, c: Ctx) -> String {
        let deeper = Ctx {
            depth: c.depth + 1,
            ..c
        };
        if parent == Parent::Actor {
            // a union has no fields of its own
            let (t, p) = if self.r.chance(3, 4) { ("Account", Parent::Account) } else { ("Robot", Parent::Robot) };
            let inner = self.selection(p, Ctx { lost: false, ..deeper });
            return format!("... on {t} {{ {inner} }}");
        }
        let can_nest = c.depth < 4;
        let pick = if can_nest { self.r.below(12) } else { 0 };
        match pick {
            // object-typed fields of the roots
            5 if matches!(parent, Parent::Root(OpKind::Query) | Parent::Root(OpKind::Mutation)) => {
                let a = self.alias();
                let inner = self.selection(Parent::Account, deeper);
                format!("{a}account {{ {inner} }}")
            }
            6 if parent == Parent::Root(OpKind::Query) => {
                let a = self.alias();
                let inner = self.selection(Parent::Node, deeper);
                format!("{a}node {{ {inner} }}")
            }
            7 if parent == Parent::Root(OpKind::Query) => {
                let a = self.alias();
                let inner = self.selection(Parent::Actor, deeper);
                format!("{a}actor {{ {inner} }}")
            }
            // interface: fields of a concrete implementor through a typed fragment
            6 | 7 if parent == Parent::Node => {
                let inner = self.selection(Parent::Account, Ctx { lost: false, ..deeper });
                format!("... on Account {{ {inner} }}")
            }
            8 => {
                let inner = self.selection(parent, Ctx { lost: false, ..deeper });
                format!("... on {} {{ {inner} }}", parent.type_name())
            }
            9 => {
                let inner = self.selection(parent, Ctx { lost: true, ..deeper });
                format!("... {{ {inner} }}")
            }
            10 => {
                let f = format!("F{}", self.nfrag);
                self.nfrag += 1;
                let inner = self.selection(parent, Ctx { lost: false, ..deeper });
                self.frags.push(format!("fragment {f} on {} {{ {inner} }}", parent.type_name()));
                format!("...{f}")
            }
            11 => {
                // nested spreads: F -> (untyped inline) -> G
                let (f, g) = (format!("F{}", self.nfrag), format!("F{}", self.nfrag + 1));
                self.nfrag += 2;
                let inner = self.selection(parent, Ctx { lost: false, ..deeper });
                self.frags.push(format!("fragment {g} on {} {{ {inner} }}", parent.type_name()));
                self.frags.push(format!("fragment {f} on {} {{ ... {{ ...{g} }} }}", parent.type_name()));
                format!("...{f}")
            }
            _ => self.leaf_field(parent, c),
        }
    }

    fn operation(&mut self, kind: OpKind, name: Option<&str>) -> String {
        let var_start = self.vars.len();
        let body = self.selection(Parent::Root(kind), Ctx { lost: false, depth: 0 });
        let kw = match kind {
            OpKind::Query => "query",
            OpKind::Mutation => "mutation",
            OpKind::Subscription => "subscription",
        };
        let defs: Vec<String> = self.vars[var_start..]
            .iter()
            .map(|v| match &v.default {
                Some(d) => format!("${}: {} = {d}", v.name, v.ty),
                None => format!("${}: {}", v.name, v.ty),
            })
            .collect();
        let defs = if defs.is_empty() { String::new() } else { format!("({})", defs.join(", ")) };
        match name {
            Some(n) => format!("{kw} {n}{defs} {{ {body} }}"),
            None if kind == OpKind::Query && defs.is_empty() && self.r.bool() => format!("{{ {body} }}"),
            None => format!("{kw}{defs} {{ {body} }}"),
        }
    }
}

fn gen_doc(r: &mut Rng, feats: Feats, base: u64) -> GenDoc {
    let kind = match r.below(6) {
        0 | 1 | 2 => OpKind::Query,
        3 | 4 => OpKind::Mutation,
        _ => OpKind::Subscription,
    };
    let extra_ops = if r.chance(1, 5) { 1 + r.below(2) } else { 0 };
    let named = extra_ops > 0 || r.chance(3, 4);
    let mut g = Gen {
        r,
        feats,
        base,
        placements: vec![],
        vars: vec![],
        frags: vec![],
        nalias: 0,
        nfrag: 0,
    };
    let mut ops = vec![];
    ops.push(g.operation(kind, if named { Some("Main") } else { None }));
    let frags = std::mem::take(&mut g.frags);
    for k in 0..extra_ops {
        let ek = match g.r.below(3) {
            0 => OpKind::Query,
            1 => OpKind::Mutation,
            _ => OpKind::Subscription,
        };
        // extra operations keep their own named fragments and variables (all definitions are printed)
        let text = g.operation(ek, Some(&format!("Other{k}")));
        ops.push(text);
    }
    let more_frags = std::mem::take(&mut g.frags);
    // operationName selects the main operation; order of definitions is shuffled
    let mut defs: Vec<String> = ops;
    defs.extend(frags);
    defs.extend(more_frags);
    g.r.shuffle(&mut defs);
    let mut vars = serde_json::Map::new();
    for v in &g.vars {
        if let Some(val) = &v.value {
            vars.insert(v.name.clone(), val.clone());
        }
    }
    GenDoc {
        text: defs.join(" "),
        variables: J::Object(vars),
        operation_name: if named && (extra_ops > 0 || g.r.bool()) { Some("Main".into()) } else { None },
        kind,
        placements: g.placements,
    }
}

// --------------------------------------------------------------- execution

type S = Schema<Query, Mutation, SubscriptionRoot>;

struct Harness {
    schema: S,
    recorded: Recorded,
    log: EvLog,
}

struct Observed {
    recorder: Vec<String>,
    logger: Vec<String>,
    tracing: Vec<String>,
    events: usize,
    errors: usize,
}

impl Harness {
    fn new() -> Harness {
        install_capture();
        let recorded = Recorded::default();
        let log = EvLog::default();
        let schema = Schema::build(Query, Mutation, SubscriptionRoot)
            .data(log.clone())
            .extension(Recorder(recorded.clone()))
            .extension(Logger)
            .extension(Tracing)
            .finish();
        Harness { schema, recorded, log }
    }

    fn exec(&self, text: &str, variables: &J, operation_name: Option<&str>, stream: bool) -> Result<Observed, String> {
        let mut req = Request::new(text).variables(Variables::from_json(variables.clone()));
        if let Some(n) = operation_name {
            req = req.operation_name(n);
        }
        self.recorded.0.lock().unwrap().clear();
        self.log.take();
        LOGGED.with(|l| l.borrow_mut().clear());
        TRACED.with(|l| l.borrow_mut().clear());
        let responses = catch(|| {
            if stream {
                block_on(self.schema.execute_stream(req).take(8).collect::<Vec<_>>())
            } else {
                vec![block_on(self.schema.execute(req))]
            }
        })?;
        Ok(Observed {
            recorder: std::mem::take(&mut *self.recorded.0.lock().unwrap()),
            logger: LOGGED
                .with(|l| std::mem::take(&mut *l.borrow_mut()))
                .into_iter()
                .filter(|l| l.starts_with("[Execute]"))
                .collect(),
            tracing: TRACED.with(|l| std::mem::take(&mut *l.borrow_mut())),
            events: self.log.take().len(),
            errors: responses.iter().map(|r| r.errors.len()).sum(),
        })
    }
}

// ------------------------------------------------------------------- check

const WITNESSES: [(&str, &str, &str, &str); 3] = [
    (
        "W21-list-of-input-objects",
        "secret_in_list_of_input_objects",
        "{ signinMany(creds: [{user: \"u\", pass: \"S3CR3T_1Z\"}]) }",
        "S3CR3T_1Z",
    ),
    (
        "W21-untyped-inline-fragment",
        "secret_under_untyped_inline_fragment",
        "{ ... { login(user: \"u\", password: \"S3CR3T_2Z\") } }",
        "S3CR3T_2Z",
    ),
    (
        "W21-variable-default",
        "secret_as_variable_default",
        "query Q($p: String = \"S3CR3T_3Z\") { login(user: \"u\", password: $p) }",
        "S3CR3T_3Z",
    ),
];

pub fn main() {
    let mut run = Run::from_args(
        "exploration",
        "random documents over a derive-built schema whose Query/Mutation/Subscription roots, a nested object (Account), an interface \
         (Node) and a union (Actor) carry fields with #[graphql(secret)] arguments (string, list of strings, whole input object) and a \
         recursive input object Cred with secret fields (string, list, nested object) at depth 1-3 and in lists of input objects; every \
         string written anywhere is a unique sentinel S3CR3T_<n>Z whose secrecy the generator knows; positions: literal, variable with \
         JSON value, variable DEFAULT value, both, whole object/list in a variable, list elements, aliases, secret argument first/last, \
         typed / untyped inline fragments, named and nested named fragments, several operations selected by operationName, shuffled \
         definition order. A case is non-trivial when it places at least one secret sentinel; distinct by hash of (document, variables)",
    );
    run.assume("the harness extension calls ExtensionContext::stringify_execute_doc from parse_query with the parsed document and the request variables, exactly as extensions::Logger does");
    run.assume("extensions::Logger output is observed through a log::Log implementation (target \"async-graphql\", lines starting \"[Execute]\"); extensions::Tracing through the `source` field of its `parse` span via a minimal tracing::Subscriber");
    run.assume("a position is secret iff the schema marks the argument or an enclosing input-object field #[graphql(secret)]; the same sentinel is never written into a secret and a non-secret position");
    run.assume("only the query text is judged: resolver-side data, error messages and the response are out of scope of the property");

    let feats = Feats {
        list_of_objects: run.feature("secret_in_list_of_input_objects"),
        untyped_inline: run.feature("secret_under_untyped_inline_fragment"),
        variable_default: run.feature("secret_as_variable_default"),
    };
    let n_docs = run.scale(6_000, 600_000);
    run.set_floors(3_000, 2_000);
    run.require_counter("public_sentinels_seen_in_text");
    run.require_counter("secret_placements_checked");
    run.require_counter("texts_recorded");
    run.require_counter("logger_lines_checked");
    run.require_counter("tracing_sources_checked");
    run.require_counter("masked_marker_seen");

    // pinned witnesses
    {
        let h = Harness::new();
        for (id, _feature, doc, sentinel) in WITNESSES {
            run.eval();
            match h.exec(doc, &json!({}), None, false) {
                Err(p) => run.inconclusive(&format!("library panicked on witness {id}: {p}")),
                Ok(obs) => {
                    let text = obs.recorder.first().cloned().unwrap_or_default();
                    let leaked_in: Vec<&str> = [
                        ("recorder", &obs.recorder),
                        ("logger", &obs.logger),
                        ("tracing", &obs.tracing),
                    ]
                    .iter()
                    .filter(|(_, v)| v.iter().any(|t| t.contains(sentinel)))
                    .map(|(n, _)| *n)
                    .collect();
                    if leaked_in.is_empty() {
                        run.count("witness_clean", 1);
                    } else {
                        run.violation(
                            &format!("{id}|{text}"),
                            &format!("secret value {sentinel} of `{doc}` is printed in clear by stringify_execute_doc: {text:?} (seen in {leaked_in:?})"),
                            json!({"document": doc, "recorded": obs.recorder, "logger": obs.logger, "tracing": obs.tracing}),
                        );
                    }
                }
            }
        }
    }

    let shards = 16u64;
    let run_ref = &run;
    std::thread::scope(|sc| {
        for shard in 0..shards {
            sc.spawn(move || {
                let run = run_ref;
                let h = Harness::new();
                let mut i = shard;
                while i < n_docs {
                    let mut r = Rng::new(rng::mix(&[run.seed, 21, i]));
                    let doc = gen_doc(&mut r, feats, 100 + i * 1000);
                    one_case(run, &h, &doc);
                    i += shards;
                }
            });
        }
    });
    run.finish();
}

fn one_case(run: &Run, h: &Harness, doc: &GenDoc) {
    run.eval();
    let obs = match h.exec(
        &doc.text,
        &doc.variables,
        doc.operation_name.as_deref(),
        doc.kind == OpKind::Subscription,
    ) {
        Ok(o) => o,
        Err(p) => {
            run.inconclusive(&format!("library panicked on {}: {p}", doc.text));
            return;
        }
    };
    let case_hash = rng::hash_str(&format!("{}|{}", doc.text, doc.variables));
    let n_secret = doc.placements.iter().filter(|p| p.secret).count();
    if n_secret > 0 {
        run.nontrivial(case_hash);
    }
    run.count("texts_recorded", obs.recorder.len() as u64);
    run.count("logger_lines_checked", obs.logger.len() as u64);
    run.count("tracing_sources_checked", obs.tracing.len() as u64);
    run.count("resolver_events", obs.events as u64);
    if obs.recorder.is_empty() {
        run.count("documents_not_parsed", 1);
        run.sample_upto(12, json!({"NOT_PARSED": doc.text}));
        return;
    }
    if obs.errors == 0 {
        run.count("requests_without_errors", 1);
    }
    if obs.recorder.iter().any(|t| t.contains("\"<secret>\"")) {
        run.count("masked_marker_seen", 1);
    }
    if doc.text.len() < 500 {
        run.sample(json!({"document": doc.text, "variables": doc.variables, "operationName": doc.operation_name,
        "recorded": obs.recorder.first(),
        "secret_sentinels": doc.placements.iter().filter(|p| p.secret).map(|p| p.sentinel.clone()).collect::<Vec<_>>()}));
    }

    let mut leaks: Vec<String> = vec![];
    let mut classes: BTreeSet<&'static str> = BTreeSet::new();
    let sources: [(&str, &Vec<String>); 3] = [("recorder", &obs.recorder), ("logger", &obs.logger), ("tracing", &obs.tracing)];
    for p in &doc.placements {
        let seen_in: Vec<&str> = sources
            .iter()
            .filter(|(_, texts)| texts.iter().any(|t| t.contains(&p.sentinel)))
            .map(|(n, _)| *n)
            .collect();
        if p.secret {
            run.count("secret_placements_checked", 1);
            let (marker, supply, ctx) = position_classes(p);
            run.seen("secret_markers", &marker);
            run.seen("secret_supply_modes", supply);
            run.seen("secret_contexts", &ctx);
            if !seen_in.is_empty() {
                let mut cls = vec![];
                if p.under_list_of_objects {
                    cls.push("list-of-input-objects");
                }
                if p.under_untyped_inline {
                    cls.push("untyped-inline-fragment");
                }
                if p.as_variable_default {
                    cls.push("variable-default");
                }
                if cls.is_empty() {
                    cls.push("UNEXPLAINED");
                }
                for c in &cls {
                    classes.insert(c);
                }
                leaks.push(format!("{} [{}] in {:?} ({})", p.sentinel, p.how, seen_in, cls.join("+")));
            }
        } else if !seen_in.is_empty() {
            run.count("public_sentinels_seen_in_text", 1);
        } else {
            run.count("public_sentinels_not_printed", 1);
        }
    }
    if !leaks.is_empty() {
        run.count("documents_leaking", 1);
        for c in &classes {
            run.seen("leak_classes", c);
        }
        run.violation(
            &format!("gen-leak:{case_hash:x}"),
            &format!(
                "secret value(s) printed in clear: {} — document: {} variables: {} recorded: {:?}",
                leaks.join("; "),
                doc.text,
                doc.variables,
                obs.recorder.first()
            ),
            json!({"document": doc.text, "variables": doc.variables, "operationName": doc.operation_name,
                "recorded": obs.recorder, "logger": obs.logger, "tracing": obs.tracing, "leaks": leaks}),
        );
    }
}

/// Coarse coverage classes of a secret placement: (marker kind @ nesting),
/// how the value was supplied, and where the field sits.
fn position_classes(p: &Placement) -> (String, &'static str, String) {
    let how = &p.how;
    let marker = [
        ("secret list argument", "argument:[String!]"),
        ("secret input-object argument", "argument:Cred"),
        ("secret argument", "argument:String"),
        ("(secret input field)", "input-field:String"),
        ("(secret list input field)", "input-field:[String!]"),
        ("(secret object input field)", "input-field:Cred"),
    ]
    .iter()
    .find(|(k, _)| how.contains(k))
    .map(|(_, v)| *v)
    .unwrap_or("?");
    let nesting = how.matches(".inner").count() + how.matches(".vault").count() + 1;
    let supply = if how.contains("DEFAULT and JSON") {
        "variable with default and JSON value"
    } else if how.contains("DEFAULT") {
        "variable default only"
    } else if how.contains("via variable") {
        "variable (JSON value)"
    } else {
        "literal"
    };
    let parent = how.split('.').next().unwrap_or("?");
    let mut ctx = parent.to_string();
    if p.under_list_of_objects {
        ctx.push_str(" +inside list of input objects");
    }
    if p.under_untyped_inline {
        ctx.push_str(" +under untyped inline fragment");
    }
    (format!("{marker} @nesting {nesting}"), supply, ctx)
}
