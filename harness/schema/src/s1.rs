//! S1 — the hand-written derive-built schema family and its hand model.
//!
//! Every resolver is data-driven: it logs what it received, optionally awaits
//! its schedule gate, asks the data world (through the hand model `model()`)
//! what to yield and converts that into its declared Rust return type. The
//! hand model states what the Rust source declares; it is written by hand next
//! to the source and is the reference for every static-flavour check.

use std::sync::Arc;

use async_graphql::*;
use futures_util::Stream;
use vh_model::types::{ArgDef, FieldDef, Kind, Ty, TypeDef, TypeSystem, Val};
use vh_model::world::PlanVal;

use crate::dynb::world_key;
use crate::env::{Ek, Env};

// ---------------------------------------------------------------- echo of received arguments

/// What a resolver received, as a harness value. `None` = the Rust type can
/// tell that the argument was not provided (MaybeUndefined::Undefined).
pub trait Echo {
    fn echo(&self) -> Option<Val>;
}
impl Echo for i32 {
    fn echo(&self) -> Option<Val> {
        Some(Val::Int(*self as i64))
    }
}
impl Echo for f64 {
    fn echo(&self) -> Option<Val> {
        Some(Val::Float(*self))
    }
}
impl Echo for bool {
    fn echo(&self) -> Option<Val> {
        Some(Val::Bool(*self))
    }
}
impl Echo for String {
    fn echo(&self) -> Option<Val> {
        Some(Val::Str(self.clone()))
    }
}
impl Echo for ID {
    fn echo(&self) -> Option<Val> {
        Some(Val::Str(self.0.clone()))
    }
}
impl<T: Echo> Echo for Option<T> {
    fn echo(&self) -> Option<Val> {
        match self {
            None => Some(Val::Null),
            Some(x) => x.echo(),
        }
    }
}
impl<T: Echo> Echo for MaybeUndefined<T> {
    fn echo(&self) -> Option<Val> {
        match self {
            MaybeUndefined::Undefined => None,
            MaybeUndefined::Null => Some(Val::Null),
            MaybeUndefined::Value(x) => x.echo(),
        }
    }
}
impl<T: Echo> Echo for Vec<T> {
    fn echo(&self) -> Option<Val> {
        Some(Val::List(self.iter().map(|x| x.echo().unwrap_or(Val::Null)).collect()))
    }
}
impl<T: Echo> Echo for Box<T> {
    fn echo(&self) -> Option<Val> {
        (**self).echo()
    }
}

fn obj(fields: Vec<(&str, Option<Val>)>) -> Option<Val> {
    Some(Val::Obj(fields.into_iter().filter_map(|(k, v)| v.map(|v| (k.to_string(), v))).collect()))
}

// ---------------------------------------------------------------- enums and inputs

#[derive(Enum, Copy, Clone, Eq, PartialEq, Debug)]
pub enum Color {
    Red,
    Green,
    Blue,
}
impl Echo for Color {
    fn echo(&self) -> Option<Val> {
        Some(Val::Enum(match self { Color::Red => "RED", Color::Green => "GREEN", Color::Blue => "BLUE" }.to_string()))
    }
}

#[derive(Enum, Copy, Clone, Eq, PartialEq, Debug)]
pub enum PetKind {
    Dog,
    Cat,
}
impl Echo for PetKind {
    fn echo(&self) -> Option<Val> {
        Some(Val::Enum(match self { PetKind::Dog => "DOG", PetKind::Cat => "CAT" }.to_string()))
    }
}

#[derive(InputObject, Clone, Debug)]
pub struct Range {
    #[graphql(default_with = "Some(0)")]
    pub min: Option<i32>,
    pub max: Option<i32>,
    #[graphql(default = 1)]
    pub step: i32,
}
impl Echo for Range {
    fn echo(&self) -> Option<Val> {
        obj(vec![("min", self.min.echo()), ("max", self.max.echo()), ("step", self.step.echo())])
    }
}

fn default_colors() -> Option<Vec<Color>> {
    Some(vec![Color::Red])
}

#[derive(InputObject, Clone, Debug)]
pub struct Filter {
    pub name: Option<String>,
    pub range: Option<Range>,
    #[graphql(default_with = "default_colors()")]
    pub colors: Option<Vec<Color>>,
    pub deep: Option<Box<Filter>>,
    #[graphql(default)]
    pub ids: Vec<ID>,
    pub note: MaybeUndefined<String>,
}
impl Echo for Filter {
    fn echo(&self) -> Option<Val> {
        obj(vec![
            ("name", self.name.echo()),
            ("range", self.range.echo()),
            ("colors", self.colors.echo()),
            ("deep", self.deep.echo()),
            ("ids", self.ids.echo()),
            ("note", self.note.echo()),
        ])
    }
}

#[derive(OneofObject, Clone, Debug)]
pub enum Pick {
    ById(ID),
    ByName(String),
    ByRange(Range),
}
impl Echo for Pick {
    fn echo(&self) -> Option<Val> {
        match self {
            Pick::ById(x) => obj(vec![("byId", x.echo())]),
            Pick::ByName(x) => obj(vec![("byName", x.echo())]),
            Pick::ByRange(x) => obj(vec![("byRange", x.echo())]),
        }
    }
}

// ---------------------------------------------------------------- planned value -> Rust value

pub trait FromPlan: Sized {
    fn from_plan(pv: PlanVal, cx: &Cx) -> Result<Self>;
}

/// Context for eager construction (SimpleObject fields).
pub struct Cx {
    pub env: Env,
}

fn bad<T>(what: &str, pv: &PlanVal) -> Result<T> {
    Err(Error::new(format!("harness: cannot express {pv:?} as {what}")))
}

impl FromPlan for i32 {
    fn from_plan(pv: PlanVal, _: &Cx) -> Result<Self> {
        match pv {
            PlanVal::Leaf(Val::Int(i)) => Ok(i as i32),
            other => bad("i32", &other),
        }
    }
}
impl FromPlan for f64 {
    fn from_plan(pv: PlanVal, _: &Cx) -> Result<Self> {
        match pv {
            PlanVal::Leaf(Val::Float(f)) => Ok(f),
            PlanVal::Leaf(Val::Int(i)) => Ok(i as f64),
            // BadLeaf fault for Float: a non-finite value is the only invalid float a Rust resolver can yield
            PlanVal::Leaf(Val::Str(_)) => Ok(f64::NAN),
            other => bad("f64", &other),
        }
    }
}
impl FromPlan for bool {
    fn from_plan(pv: PlanVal, _: &Cx) -> Result<Self> {
        match pv {
            PlanVal::Leaf(Val::Bool(b)) => Ok(b),
            other => bad("bool", &other),
        }
    }
}
impl FromPlan for String {
    fn from_plan(pv: PlanVal, _: &Cx) -> Result<Self> {
        match pv {
            PlanVal::Leaf(Val::Str(s)) => Ok(s),
            other => bad("String", &other),
        }
    }
}
impl FromPlan for ID {
    fn from_plan(pv: PlanVal, _: &Cx) -> Result<Self> {
        match pv {
            PlanVal::Leaf(Val::Str(s)) => Ok(ID(s)),
            other => bad("ID", &other),
        }
    }
}
impl FromPlan for Color {
    fn from_plan(pv: PlanVal, _: &Cx) -> Result<Self> {
        match pv {
            PlanVal::Leaf(Val::Enum(e)) => match e.as_str() {
                "RED" => Ok(Color::Red),
                "GREEN" => Ok(Color::Green),
                "BLUE" => Ok(Color::Blue),
                _ => bad("Color", &PlanVal::Leaf(Val::Enum(e))),
            },
            other => bad("Color", &other),
        }
    }
}
impl<T: FromPlan> FromPlan for Option<T> {
    fn from_plan(pv: PlanVal, cx: &Cx) -> Result<Self> {
        match pv {
            PlanVal::Null => Ok(None),
            other => T::from_plan(other, cx).map(Some),
        }
    }
}
impl<T: FromPlan> FromPlan for Vec<T> {
    fn from_plan(pv: PlanVal, cx: &Cx) -> Result<Self> {
        match pv {
            PlanVal::List(items) => items.into_iter().map(|i| T::from_plan(i, cx)).collect(),
            other => bad("Vec", &other),
        }
    }
}
/// list items that can fail individually
impl<T: FromPlan> FromPlan for Result<T> {
    fn from_plan(pv: PlanVal, cx: &Cx) -> Result<Self> {
        match pv {
            PlanVal::Error(m) => Ok(Err(Error::new(m))),
            other => Ok(T::from_plan(other, cx)),
        }
    }
}

macro_rules! node_type {
    ($name:ident, $gql:literal) => {
        #[derive(Clone, Debug)]
        pub struct $name(pub u64);
        impl FromPlan for $name {
            fn from_plan(pv: PlanVal, _: &Cx) -> Result<Self> {
                match pv {
                    PlanVal::Node { ty, id } if ty == $gql => Ok($name(id)),
                    other => bad($gql, &other),
                }
            }
        }
    };
}
node_type!(Dog, "Dog");
node_type!(Cat, "Cat");
node_type!(Person, "Person");
node_type!(Counter, "Counter");
node_type!(Tick, "Tick");

// ---------------------------------------------------------------- the generic resolver body

fn path_of(ctx: &Context<'_>) -> String {
    ctx.path_node.map(|p| p.to_string()).unwrap_or_default()
}

/// Log, gate, consult the world, convert.
pub async fn plan<T: FromPlan>(
    ctx: &Context<'_>,
    parent_ty: &str,
    id: u64,
    field: &str,
    args: Vec<(&str, Option<Val>)>,
) -> Result<T> {
    let env = ctx.data::<Env>()?.clone();
    let path = path_of(ctx);
    let received = Val::Obj(args.into_iter().filter_map(|(k, v)| v.map(|v| (k.to_string(), v))).collect());
    env.log.push(Ek::Start, &path, parent_ty, field, Some(received.clone()), "");
    if env.record_views {
        record_views(ctx, &env, &path, parent_ty, field);
    }
    if let Some(s) = &env.sched {
        s.gate(format!("r:{path}")).await;
    }
    let fd = env
        .ts
        .field(parent_ty, field)
        .cloned()
        .ok_or_else(|| Error::new(format!("harness: model has no field {parent_ty}.{field}")))?;
    let key = world_key(&env.ts, &fd, &received);
    let pv = env.world.resolve(&env.ts, parent_ty, id, &fd, &key, &path);
    env.log.push(Ek::Finish, &path, parent_ty, field, None, "");
    match pv {
        PlanVal::Error(m) => Err(Error::new(m)),
        other => T::from_plan(other, &Cx { env }),
    }
}

/// Record what `ctx.look_ahead()` / `ctx.field().selection_set()` report below this field (C22).
fn record_views(ctx: &Context<'_>, env: &Env, path: &str, parent_ty: &str, field: &str) {
    fn walk(f: SelectionField<'_>, prefix: &str, out: &mut Vec<String>) {
        for c in f.selection_set() {
            let args = c
                .arguments()
                .map(|a| {
                    let mut a: Vec<String> = a.iter().map(|(k, v)| format!("{k}:{}", crate::conv::to_val(v).canon())).collect();
                    a.sort();
                    a.join(",")
                })
                .unwrap_or_else(|e| format!("<err {}>", e.message));
            let key = c.alias().unwrap_or(c.name()).to_string();
            let p = format!("{prefix}/{key}");
            out.push(format!("{p}={}({args})", c.name()));
            walk(c, &p, out);
        }
    }
    let mut out = vec![];
    walk(ctx.field(), "", &mut out);
    env.log.push(Ek::View, path, parent_ty, field, None, &out.join(";"));
    record_views_json(ctx, env, path, parent_ty, field);
}

/// Structured form of the two views of the current field (C22), pushed as two further `Ek::View`
/// events whose `extra` is JSON (only for fields that have a selection set):
/// `{"view":"selection","entries":[[[key,…], name, args],…]}` — `ctx.field().selection_set()` walked
/// recursively, entries addressed by the response keys below the field;
/// `{"view":"lookahead","entries":[[[name,…], key, args],…]}` — `ctx.look_ahead().field(n)…` asked for every
/// field name of the type system at every level, entries (one per `selection_fields()` item) addressed by the
/// field names below the field. `args` is `{argument: resolved value}` or `{"<error>": message}`.
pub fn record_views_json(ctx: &Context<'_>, env: &Env, path: &str, parent_ty: &str, field: &str) {
    use serde_json::{Value as J, json};
    fn args_of(f: &SelectionField<'_>) -> J {
        match f.arguments() {
            Ok(a) => J::Object(a.iter().map(|(k, v)| (k.to_string(), crate::conv::to_val(v).json())).collect()),
            Err(e) => json!({"<error>": e.message}),
        }
    }
    fn walk(f: SelectionField<'_>, prefix: &[String], out: &mut Vec<J>) {
        for c in f.selection_set() {
            let mut p = prefix.to_vec();
            p.push(c.alias().unwrap_or(c.name()).to_string());
            out.push(json!([p, c.name(), args_of(&c)]));
            walk(c, &p, out);
        }
    }
    fn la_walk(la: &Lookahead<'_>, names: &[String], prefix: &[String], out: &mut Vec<J>) {
        if prefix.len() > 12 {
            return;
        }
        for n in names {
            let sub = la.field(n);
            if !sub.exists() {
                continue;
            }
            let mut p = prefix.to_vec();
            p.push(n.clone());
            let fields = sub.selection_fields();
            if fields.is_empty() {
                out.push(json!([p, J::Null, {}]));
            }
            for sf in &fields {
                out.push(json!([p, sf.alias().unwrap_or(sf.name()), args_of(sf)]));
            }
            la_walk(&sub, names, &p, out);
        }
    }
    if ctx.field().selection_set().next().is_none() {
        return;
    }
    let mut out = vec![];
    walk(ctx.field(), &[], &mut out);
    env.log.push(Ek::View, path, parent_ty, field, None, &json!({"view": "selection", "entries": out}).to_string());
    let mut names: Vec<String> = vec!["__typename".to_string()];
    for t in &env.ts.types {
        if let Kind::Object { fields, .. } | Kind::Interface { fields, .. } = &t.kind {
            names.extend(fields.iter().map(|f| f.name.clone()));
        }
    }
    names.sort();
    names.dedup();
    let mut out = vec![];
    la_walk(&ctx.look_ahead(), &names, &[], &mut out);
    env.log.push(Ek::View, path, parent_ty, field, None, &json!({"view": "lookahead", "entries": out}).to_string());
}

macro_rules! args {
    ($(($k:literal, $v:expr)),* $(,)?) => { vec![$(($k, Echo::echo(&$v))),*] };
}

// ---------------------------------------------------------------- guard driven by the world

pub struct WorldGuard;
impl Guard for WorldGuard {
    async fn check(&self, ctx: &Context<'_>) -> Result<()> {
        let env = ctx.data::<Env>()?;
        let path = path_of(ctx);
        if env.world.faults.get(&path) == Some(&vh_model::world::Fault::Err) {
            env.log.push(Ek::Hook, &path, "", "guard", None, "rejected");
            return Err(Error::new(format!("guard rejected {path}")));
        }
        Ok(())
    }
}

// ---------------------------------------------------------------- interfaces and unions

#[derive(Interface)]
#[graphql(name = "Node", field(name = "id", ty = "ID"))]
pub enum NodeI {
    Dog(Dog),
    Cat(Cat),
}
impl FromPlan for NodeI {
    fn from_plan(pv: PlanVal, _: &Cx) -> Result<Self> {
        match pv {
            PlanVal::Node { ty, id } if ty == "Dog" => Ok(NodeI::Dog(Dog(id))),
            PlanVal::Node { ty, id } if ty == "Cat" => Ok(NodeI::Cat(Cat(id))),
            other => bad("Node", &other),
        }
    }
}

#[derive(Interface)]
#[graphql(
    field(name = "name", ty = "String"),
    field(name = "nick", ty = "Option<String>"),
    field(name = "greet", ty = "String", arg(name = "loud", ty = "Option<bool>", default_with = "Some(false)"))
)]
pub enum Named {
    Dog(Dog),
    Cat(Cat),
    Person(Person),
}
impl FromPlan for Named {
    fn from_plan(pv: PlanVal, _: &Cx) -> Result<Self> {
        match pv {
            PlanVal::Node { ty, id } if ty == "Dog" => Ok(Named::Dog(Dog(id))),
            PlanVal::Node { ty, id } if ty == "Cat" => Ok(Named::Cat(Cat(id))),
            PlanVal::Node { ty, id } if ty == "Person" => Ok(Named::Person(Person(id))),
            other => bad("Named", &other),
        }
    }
}

#[derive(Union)]
pub enum Pet {
    Dog(Dog),
    Cat(Cat),
}
impl FromPlan for Pet {
    fn from_plan(pv: PlanVal, _: &Cx) -> Result<Self> {
        match pv {
            PlanVal::Node { ty, id } if ty == "Dog" => Ok(Pet::Dog(Dog(id))),
            PlanVal::Node { ty, id } if ty == "Cat" => Ok(Pet::Cat(Cat(id))),
            other => bad("Pet", &other),
        }
    }
}

#[derive(Union)]
pub enum Thing {
    #[graphql(flatten)]
    Pet(Pet),
    Person(Person),
}
impl FromPlan for Thing {
    fn from_plan(pv: PlanVal, cx: &Cx) -> Result<Self> {
        match pv {
            PlanVal::Node { ty, id } if ty == "Person" => Ok(Thing::Person(Person(id))),
            other => Pet::from_plan(other, cx).map(Thing::Pet),
        }
    }
}

// ---------------------------------------------------------------- objects

#[Object(cache_control(max_age = 5, private))]
impl Dog {
    async fn id(&self, ctx: &Context<'_>) -> Result<ID> {
        plan(ctx, "Dog", self.0, "id", args![]).await
    }
    async fn name(&self, ctx: &Context<'_>) -> Result<String> {
        plan(ctx, "Dog", self.0, "name", args![]).await
    }
    async fn nick(&self, ctx: &Context<'_>) -> Result<Option<String>> {
        plan(ctx, "Dog", self.0, "nick", args![]).await
    }
    async fn greet(&self, ctx: &Context<'_>, #[graphql(default_with = "Some(false)")] loud: Option<bool>) -> Result<String> {
        plan(ctx, "Dog", self.0, "greet", args![("loud", loud)]).await
    }
    async fn bark(&self, ctx: &Context<'_>) -> Result<i32> {
        plan(ctx, "Dog", self.0, "bark", args![]).await
    }
    async fn weight(&self, ctx: &Context<'_>) -> Result<f64> {
        plan(ctx, "Dog", self.0, "weight", args![]).await
    }
    async fn ratio(&self, ctx: &Context<'_>) -> Result<Option<f64>> {
        plan(ctx, "Dog", self.0, "ratio", args![]).await
    }
    async fn color(&self, ctx: &Context<'_>) -> Result<Color> {
        plan(ctx, "Dog", self.0, "color", args![]).await
    }
    async fn colors(&self, ctx: &Context<'_>) -> Result<Option<Vec<Color>>> {
        plan(ctx, "Dog", self.0, "colors", args![]).await
    }
    async fn tags(&self, ctx: &Context<'_>) -> Result<Vec<Option<String>>> {
        plan(ctx, "Dog", self.0, "tags", args![]).await
    }
    async fn matrix(&self, ctx: &Context<'_>) -> Result<Option<Vec<Vec<Option<i32>>>>> {
        plan(ctx, "Dog", self.0, "matrix", args![]).await
    }
    #[graphql(cache_control(max_age = 30))]
    async fn owner(&self, ctx: &Context<'_>) -> Result<Option<Person>> {
        plan(ctx, "Dog", self.0, "owner", args![]).await
    }
    async fn friends(&self, ctx: &Context<'_>) -> Result<Vec<Pet>> {
        plan(ctx, "Dog", self.0, "friends", args![]).await
    }
    async fn mate(&self, ctx: &Context<'_>) -> Result<Option<Dog>> {
        plan(ctx, "Dog", self.0, "mate", args![]).await
    }
    async fn litter(&self, ctx: &Context<'_>, #[graphql(default = 2)] n: i32) -> Result<Vec<Option<Dog>>> {
        plan(ctx, "Dog", self.0, "litter", args![("n", n)]).await
    }
    #[graphql(guard = "WorldGuard")]
    async fn guarded(&self, ctx: &Context<'_>) -> Result<Option<i32>> {
        plan(ctx, "Dog", self.0, "guarded", args![]).await
    }
    /// `Result<Option<T>>`
    async fn risky(&self, ctx: &Context<'_>) -> Result<Option<i32>> {
        plan(ctx, "Dog", self.0, "risky", args![]).await
    }
    /// `Option<Result<T>>`
    async fn risky2(&self, ctx: &Context<'_>) -> Option<Result<i32>> {
        match plan::<Option<i32>>(ctx, "Dog", self.0, "risky2", args![]).await {
            Ok(None) => None,
            Ok(Some(v)) => Some(Ok(v)),
            Err(e) => Some(Err(e)),
        }
    }
    async fn must(&self, ctx: &Context<'_>) -> Result<i32> {
        plan(ctx, "Dog", self.0, "must", args![]).await
    }
    /// `Vec<Option<i32>>` in a nullable list
    async fn items(&self, ctx: &Context<'_>) -> Result<Option<Vec<Option<i32>>>> {
        plan(ctx, "Dog", self.0, "items", args![]).await
    }
}

/// Eagerly built simple object (derive(SimpleObject)) with a complex field.
#[derive(SimpleObject, Clone, Debug)]
#[graphql(complex)]
pub struct Stats {
    pub speed: i32,
    pub label: Option<String>,
    #[graphql(skip)]
    pub id: u64,
}
#[ComplexObject]
impl Stats {
    async fn derived(&self, ctx: &Context<'_>) -> Result<i32> {
        plan(ctx, "Stats", self.id, "derived", args![]).await
    }
}
impl FromPlan for Stats {
    fn from_plan(pv: PlanVal, cx: &Cx) -> Result<Self> {
        match pv {
            PlanVal::Node { ty, id } if ty == "Stats" => {
                let ts = &cx.env.ts;
                let f = |name: &str| {
                    let fd = ts.field("Stats", name).cloned().expect("Stats field in model");
                    cx.env.world.resolve(ts, "Stats", id, &fd, "{}", "<simple-object-field>")
                };
                Ok(Stats { speed: i32::from_plan(f("speed"), cx)?, label: Option::<String>::from_plan(f("label"), cx)?, id })
            }
            other => bad("Stats", &other),
        }
    }
}

#[Object(cache_control(max_age = 50))]
impl Cat {
    /// field-level hint on a field that is also reachable through the `Node` interface (C20)
    #[graphql(cache_control(max_age = 2))]
    async fn id(&self, ctx: &Context<'_>) -> Result<ID> {
        plan(ctx, "Cat", self.0, "id", args![]).await
    }
    async fn name(&self, ctx: &Context<'_>) -> Result<String> {
        plan(ctx, "Cat", self.0, "name", args![]).await
    }
    async fn nick(&self, ctx: &Context<'_>) -> Result<Option<String>> {
        plan(ctx, "Cat", self.0, "nick", args![]).await
    }
    async fn greet(&self, ctx: &Context<'_>, #[graphql(default_with = "Some(false)")] loud: Option<bool>) -> Result<String> {
        plan(ctx, "Cat", self.0, "greet", args![("loud", loud)]).await
    }
    async fn meow(&self, ctx: &Context<'_>) -> Result<Option<i32>> {
        plan(ctx, "Cat", self.0, "meow", args![]).await
    }
    async fn lives(&self, ctx: &Context<'_>) -> Result<i32> {
        plan(ctx, "Cat", self.0, "lives", args![]).await
    }
    async fn enemy(&self, ctx: &Context<'_>) -> Result<Option<Pet>> {
        plan(ctx, "Cat", self.0, "enemy", args![]).await
    }
    async fn stats(&self, ctx: &Context<'_>) -> Result<Stats> {
        plan(ctx, "Cat", self.0, "stats", args![]).await
    }
}

#[Object(cache_control(no_cache))]
impl Person {
    async fn name(&self, ctx: &Context<'_>) -> Result<String> {
        plan(ctx, "Person", self.0, "name", args![]).await
    }
    async fn nick(&self, ctx: &Context<'_>) -> Result<Option<String>> {
        plan(ctx, "Person", self.0, "nick", args![]).await
    }
    async fn greet(&self, ctx: &Context<'_>, #[graphql(default_with = "Some(false)")] loud: Option<bool>) -> Result<String> {
        plan(ctx, "Person", self.0, "greet", args![("loud", loud)]).await
    }
    async fn pets(&self, ctx: &Context<'_>, first: Option<i32>, kind: Option<PetKind>) -> Result<Vec<Pet>> {
        plan(ctx, "Person", self.0, "pets", args![("first", first), ("kind", kind)]).await
    }
    async fn best(&self, ctx: &Context<'_>) -> Result<Option<Pet>> {
        plan(ctx, "Person", self.0, "best", args![]).await
    }
    async fn named(&self, ctx: &Context<'_>) -> Result<Option<Named>> {
        plan(ctx, "Person", self.0, "named", args![]).await
    }
    async fn things(&self, ctx: &Context<'_>) -> Result<Vec<Option<Thing>>> {
        plan(ctx, "Person", self.0, "things", args![]).await
    }
}

// ---------------------------------------------------------------- Query = MergedObject(QueryA, QueryB)

#[derive(Default)]
pub struct QueryA;
#[Object(cache_control(max_age = 100))]
impl QueryA {
    async fn node(&self, ctx: &Context<'_>, id: ID) -> Result<Option<NodeI>> {
        plan(ctx, "Query", 0, "node", args![("id", id)]).await
    }
    async fn dog(&self, ctx: &Context<'_>, i: Option<i32>) -> Result<Option<Dog>> {
        plan(ctx, "Query", 0, "dog", args![("i", i)]).await
    }
    #[graphql(cache_control(max_age = 10))]
    async fn dogs(&self, ctx: &Context<'_>, #[graphql(default = 3)] n: i32) -> Result<Vec<Dog>> {
        plan(ctx, "Query", 0, "dogs", args![("n", n)]).await
    }
    async fn pet(&self, ctx: &Context<'_>, i: Option<i32>) -> Result<Option<Pet>> {
        plan(ctx, "Query", 0, "pet", args![("i", i)]).await
    }
    async fn pets(&self, ctx: &Context<'_>) -> Result<Vec<Option<Pet>>> {
        plan(ctx, "Query", 0, "pets", args![]).await
    }
    async fn named(&self, ctx: &Context<'_>, i: Option<i32>) -> Result<Option<Named>> {
        plan(ctx, "Query", 0, "named", args![("i", i)]).await
    }
    async fn people(&self, ctx: &Context<'_>) -> Result<Option<Vec<Option<Person>>>> {
        plan(ctx, "Query", 0, "people", args![]).await
    }
    async fn thing(&self, ctx: &Context<'_>, pick: Pick) -> Result<Option<Thing>> {
        plan(ctx, "Query", 0, "thing", args![("pick", pick)]).await
    }
    #[graphql(complexity = "(count.max(0) as usize).saturating_mul(child_complexity).saturating_add(2)")]
    async fn page(&self, ctx: &Context<'_>, #[graphql(default = 5)] count: i32) -> Result<Vec<Dog>> {
        plan(ctx, "Query", 0, "page", args![("count", count)]).await
    }
}

#[derive(Default)]
pub struct QueryB;
#[Object(cache_control(max_age = 100))]
impl QueryB {
    async fn echo_int(&self, ctx: &Context<'_>, v: i32) -> Result<String> {
        plan(ctx, "Query", 0, "echoInt", args![("v", v)]).await
    }
    async fn echo_int_def(&self, ctx: &Context<'_>, #[graphql(default = 7)] v: i32) -> Result<String> {
        plan(ctx, "Query", 0, "echoIntDef", args![("v", v)]).await
    }
    async fn echo_opt(&self, ctx: &Context<'_>, v: Option<i32>) -> Result<String> {
        plan(ctx, "Query", 0, "echoOpt", args![("v", v)]).await
    }
    async fn echo_opt_def(&self, ctx: &Context<'_>, #[graphql(default_with = "Some(7)")] v: Option<i32>) -> Result<String> {
        plan(ctx, "Query", 0, "echoOptDef", args![("v", v)]).await
    }
    async fn echo_maybe(&self, ctx: &Context<'_>, v: MaybeUndefined<i32>) -> Result<String> {
        plan(ctx, "Query", 0, "echoMaybe", args![("v", v)]).await
    }
    async fn echo_list(&self, ctx: &Context<'_>, v: Vec<i32>) -> Result<String> {
        plan(ctx, "Query", 0, "echoList", args![("v", v)]).await
    }
    async fn echo_list_opt(&self, ctx: &Context<'_>, v: Option<Vec<Option<Vec<Option<i32>>>>>) -> Result<String> {
        plan(ctx, "Query", 0, "echoListOpt", args![("v", v)]).await
    }
    async fn echo_enum(&self, ctx: &Context<'_>, #[graphql(default_with = "Some(Color::Green)")] v: Option<Color>) -> Result<String> {
        plan(ctx, "Query", 0, "echoEnum", args![("v", v)]).await
    }
    async fn echo_id(&self, ctx: &Context<'_>, v: Option<ID>) -> Result<String> {
        plan(ctx, "Query", 0, "echoId", args![("v", v)]).await
    }
    async fn echo_float(&self, ctx: &Context<'_>, v: Option<f64>) -> Result<String> {
        plan(ctx, "Query", 0, "echoFloat", args![("v", v)]).await
    }
    async fn echo_filter(&self, ctx: &Context<'_>, f: Option<Filter>) -> Result<String> {
        plan(ctx, "Query", 0, "echoFilter", args![("f", f)]).await
    }
    async fn echo_filters(&self, ctx: &Context<'_>, fs: Option<Vec<Filter>>) -> Result<String> {
        plan(ctx, "Query", 0, "echoFilters", args![("fs", fs)]).await
    }
    async fn echo_pick(&self, ctx: &Context<'_>, p: Pick) -> Result<String> {
        plan(ctx, "Query", 0, "echoPick", args![("p", p)]).await
    }
}

#[derive(MergedObject, Default)]
pub struct Query(QueryA, QueryB);

// ---------------------------------------------------------------- Mutation, Subscription

pub struct Mutation;
#[Object]
impl Mutation {
    async fn incr(&self, ctx: &Context<'_>, #[graphql(default = 1)] by: i32) -> Result<Counter> {
        plan(ctx, "Mutation", 0, "incr", args![("by", by)]).await
    }
    async fn set_name(&self, ctx: &Context<'_>, id: ID, name: String) -> Result<Option<Dog>> {
        plan(ctx, "Mutation", 0, "setName", args![("id", id), ("name", name)]).await
    }
    async fn fail(&self, ctx: &Context<'_>) -> Result<i32> {
        plan(ctx, "Mutation", 0, "fail", args![]).await
    }
}

#[Object]
impl Counter {
    async fn value(&self, ctx: &Context<'_>) -> Result<i32> {
        plan(ctx, "Counter", self.0, "value", args![]).await
    }
    async fn history(&self, ctx: &Context<'_>) -> Result<Vec<i32>> {
        plan(ctx, "Counter", self.0, "history", args![]).await
    }
    async fn slow(&self, ctx: &Context<'_>) -> Result<Option<i32>> {
        plan(ctx, "Counter", self.0, "slow", args![]).await
    }
}

#[Object]
impl Tick {
    async fn n(&self, ctx: &Context<'_>) -> Result<i32> {
        plan(ctx, "Tick", self.0, "n", args![]).await
    }
    async fn maybe(&self, ctx: &Context<'_>) -> Result<Option<i32>> {
        plan(ctx, "Tick", self.0, "maybe", args![]).await
    }
    async fn bad(&self, ctx: &Context<'_>) -> Result<Option<i32>> {
        plan(ctx, "Tick", self.0, "bad", args![]).await
    }
    async fn nested(&self, ctx: &Context<'_>) -> Result<Option<Dog>> {
        plan(ctx, "Tick", self.0, "nested", args![]).await
    }
}

/// Node id of the k-th event of a subscription root field.
pub fn event_id(seed: u64, root: &str, k: usize) -> u64 {
    vh_core::rng::mix(&[seed, vh_core::rng::hash_str(root), k as u64, 0xe7])
}

pub struct Subscription;
#[Subscription]
impl Subscription {
    /// `n` events; with a scheduler each event waits for gate "ev:<response key>:<k>".
    async fn ticks(&self, ctx: &Context<'_>, #[graphql(default = 3)] n: i32) -> Result<impl Stream<Item = Tick>> {
        let env = ctx.data::<Env>()?.clone();
        let key = ctx.field().alias().unwrap_or(ctx.field().name()).to_string();
        env.log.push(Ek::Stream, &key, "Subscription", "ticks", Some(Val::Obj(vec![("n".into(), Val::Int(n as i64))])), "subscribed");
        let count = n.clamp(0, 4) as usize;
        Ok(futures_util::stream::unfold(0usize, move |k| {
            let env = env.clone();
            let key = key.clone();
            async move {
                if k >= count {
                    return None;
                }
                if let Some(s) = &env.sched {
                    s.gate(format!("ev:{key}:{k}")).await;
                }
                env.log.push(Ek::Stream, &key, "Subscription", "ticks", None, &format!("event {k}"));
                let idroot = if env.world.event_ids_by_key { key.as_str() } else { "ticks" };
                Some((Tick(event_id(env.world.seed, idroot, k)), k + 1))
            }
        }))
    }
    async fn events(&self, ctx: &Context<'_>, kind: Option<PetKind>) -> Result<impl Stream<Item = Option<Pet>>> {
        let env = ctx.data::<Env>()?.clone();
        let key = ctx.field().alias().unwrap_or(ctx.field().name()).to_string();
        env.log.push(Ek::Stream, &key, "Subscription", "events", Some(Val::Obj(vec![("kind".into(), kind.echo().unwrap_or(Val::Null))])), "subscribed");
        Ok(futures_util::stream::unfold(0usize, move |k| {
            let env = env.clone();
            let key = key.clone();
            async move {
                if k >= 3 {
                    return None;
                }
                if let Some(s) = &env.sched {
                    s.gate(format!("ev:{key}:{k}")).await;
                }
                env.log.push(Ek::Stream, &key, "Subscription", "events", None, &format!("event {k}"));
                let idroot = if env.world.event_ids_by_key { key.as_str() } else { "events" };
                let id = event_id(env.world.seed, idroot, k);
                let pet = match (kind, id % 3) {
                    (_, 0) => None,
                    (Some(PetKind::Cat), _) => Some(Pet::Cat(Cat(id))),
                    (Some(PetKind::Dog), _) => Some(Pet::Dog(Dog(id))),
                    (None, 1) => Some(Pet::Dog(Dog(id))),
                    (None, _) => Some(Pet::Cat(Cat(id))),
                };
                Some((pet, k + 1))
            }
        }))
    }
}

pub type S1Schema = Schema<Query, Mutation, Subscription>;

/// A custom field directive without effect: `@vhNote(tag: String!, level: Int! = 1)`. It exists so that
/// documents can use a directive whose non-null argument has a default (validation rules about directive
/// arguments have something to look at besides @skip/@include).
struct NoEffect;
impl CustomDirective for NoEffect {}

#[Directive(location = "Field", name = "vhNote")]
fn vh_note(tag: String, #[graphql(default = 1)] level: i32) -> impl CustomDirective {
    let _ = (tag, level);
    NoEffect
}

pub fn builder() -> SchemaBuilder<Query, Mutation, Subscription> {
    Schema::build(Query::default(), Mutation, Subscription).directive(vh_note)
}

pub fn schema() -> S1Schema {
    builder().finish()
}

// ---------------------------------------------------------------- the hand model

fn f(name: &str, ty: &str) -> FieldDef {
    FieldDef { name: name.into(), args: vec![], ty: Ty::parse(ty) }
}
fn fa(name: &str, ty: &str, args: Vec<ArgDef>) -> FieldDef {
    FieldDef { name: name.into(), args, ty: Ty::parse(ty) }
}
fn a(name: &str, ty: &str, default: Option<Val>) -> ArgDef {
    ArgDef { name: name.into(), ty: Ty::parse(ty), default }
}

/// What the Rust source above declares, written by hand.
pub fn model() -> Arc<TypeSystem> {
    let mut ts = TypeSystem::new("Query");
    ts.mutation = Some("Mutation".into());
    ts.subscription = Some("Subscription".into());
    let e = |n: &str, v: &[&str]| TypeDef { name: n.into(), kind: Kind::Enum(v.iter().map(|s| s.to_string()).collect()) };
    ts.add(e("Color", &["RED", "GREEN", "BLUE"]));
    ts.add(e("PetKind", &["DOG", "CAT"]));
    ts.add(TypeDef {
        name: "Range".into(),
        kind: Kind::Input {
            fields: vec![a("min", "Int", Some(Val::Int(0))), a("max", "Int", None), a("step", "Int!", Some(Val::Int(1)))],
            oneof: false,
        },
    });
    ts.add(TypeDef {
        name: "Filter".into(),
        kind: Kind::Input {
            fields: vec![
                a("name", "String", None),
                a("range", "Range", None),
                a("colors", "[Color!]", Some(Val::List(vec![Val::Enum("RED".into())]))),
                a("deep", "Filter", None),
                a("ids", "[ID!]!", Some(Val::List(vec![]))),
                a("note", "String", None),
            ],
            oneof: false,
        },
    });
    ts.add(TypeDef {
        name: "Pick".into(),
        kind: Kind::Input { fields: vec![a("byId", "ID", None), a("byName", "String", None), a("byRange", "Range", None)], oneof: true },
    });
    let greet = || fa("greet", "String!", vec![a("loud", "Boolean", Some(Val::Bool(false)))]);
    let named = || vec![f("name", "String!"), f("nick", "String"), greet()];
    ts.add(TypeDef { name: "Node".into(), kind: Kind::Interface { fields: vec![f("id", "ID!")], implements: vec![] } });
    ts.add(TypeDef { name: "Named".into(), kind: Kind::Interface { fields: named(), implements: vec![] } });
    let mut dog = vec![f("id", "ID!")];
    dog.extend(named());
    dog.extend(vec![
        f("bark", "Int!"),
        f("weight", "Float!"),
        f("ratio", "Float"),
        f("color", "Color!"),
        f("colors", "[Color!]"),
        f("tags", "[String]!"),
        f("matrix", "[[Int]!]"),
        f("owner", "Person"),
        f("friends", "[Pet!]!"),
        f("mate", "Dog"),
        fa("litter", "[Dog]!", vec![a("n", "Int!", Some(Val::Int(2)))]),
        f("guarded", "Int"),
        f("risky", "Int"),
        f("risky2", "Int"),
        f("must", "Int!"),
        f("items", "[Int]"),
    ]);
    ts.add(TypeDef { name: "Dog".into(), kind: Kind::Object { fields: dog, implements: vec!["Node".into(), "Named".into()] } });
    let mut cat = vec![f("id", "ID!")];
    cat.extend(named());
    cat.extend(vec![f("meow", "Int"), f("lives", "Int!"), f("enemy", "Pet"), f("stats", "Stats!")]);
    ts.add(TypeDef { name: "Cat".into(), kind: Kind::Object { fields: cat, implements: vec!["Node".into(), "Named".into()] } });
    ts.add(TypeDef {
        name: "Stats".into(),
        kind: Kind::Object { fields: vec![f("speed", "Int!"), f("label", "String"), f("derived", "Int!")], implements: vec![] },
    });
    let mut person = named();
    person.extend(vec![
        fa("pets", "[Pet!]!", vec![a("first", "Int", None), a("kind", "PetKind", None)]),
        f("best", "Pet"),
        f("named", "Named"),
        f("things", "[Thing]!"),
    ]);
    ts.add(TypeDef { name: "Person".into(), kind: Kind::Object { fields: person, implements: vec!["Named".into()] } });
    ts.add(TypeDef { name: "Pet".into(), kind: Kind::Union(vec!["Dog".into(), "Cat".into()]) });
    ts.add(TypeDef { name: "Thing".into(), kind: Kind::Union(vec!["Dog".into(), "Cat".into(), "Person".into()]) });
    ts.add(TypeDef {
        name: "Query".into(),
        kind: Kind::Object {
            fields: vec![
                fa("node", "Node", vec![a("id", "ID!", None)]),
                fa("dog", "Dog", vec![a("i", "Int", None)]),
                fa("dogs", "[Dog!]!", vec![a("n", "Int!", Some(Val::Int(3)))]),
                fa("pet", "Pet", vec![a("i", "Int", None)]),
                f("pets", "[Pet]!"),
                fa("named", "Named", vec![a("i", "Int", None)]),
                f("people", "[Person]"),
                fa("thing", "Thing", vec![a("pick", "Pick!", None)]),
                fa("page", "[Dog!]!", vec![a("count", "Int!", Some(Val::Int(5)))]),
                fa("echoInt", "String!", vec![a("v", "Int!", None)]),
                fa("echoIntDef", "String!", vec![a("v", "Int!", Some(Val::Int(7)))]),
                fa("echoOpt", "String!", vec![a("v", "Int", None)]),
                fa("echoOptDef", "String!", vec![a("v", "Int", Some(Val::Int(7)))]),
                fa("echoMaybe", "String!", vec![a("v", "Int", None)]),
                fa("echoList", "String!", vec![a("v", "[Int!]!", None)]),
                fa("echoListOpt", "String!", vec![a("v", "[[Int]]", None)]),
                fa("echoEnum", "String!", vec![a("v", "Color", Some(Val::Enum("GREEN".into())))]),
                fa("echoId", "String!", vec![a("v", "ID", None)]),
                fa("echoFloat", "String!", vec![a("v", "Float", None)]),
                fa("echoFilter", "String!", vec![a("f", "Filter", None)]),
                fa("echoFilters", "String!", vec![a("fs", "[Filter!]", None)]),
                fa("echoPick", "String!", vec![a("p", "Pick!", None)]),
            ],
            implements: vec![],
        },
    });
    ts.add(TypeDef {
        name: "Mutation".into(),
        kind: Kind::Object {
            fields: vec![
                fa("incr", "Counter!", vec![a("by", "Int!", Some(Val::Int(1)))]),
                fa("setName", "Dog", vec![a("id", "ID!", None), a("name", "String!", None)]),
                f("fail", "Int!"),
            ],
            implements: vec![],
        },
    });
    ts.add(TypeDef {
        name: "Counter".into(),
        kind: Kind::Object { fields: vec![f("value", "Int!"), f("history", "[Int!]!"), f("slow", "Int")], implements: vec![] },
    });
    ts.add(TypeDef {
        name: "Subscription".into(),
        kind: Kind::Object {
            fields: vec![
                fa("ticks", "Tick!", vec![a("n", "Int!", Some(Val::Int(3)))]),
                fa("events", "Pet", vec![a("kind", "PetKind", None)]),
            ],
            implements: vec![],
        },
    });
    ts.custom_directives.push(("vhNote".into(), vec![a("tag", "String!", None), a("level", "Int!", Some(Val::Int(1)))]));
    ts.add(TypeDef {
        name: "Tick".into(),
        kind: Kind::Object { fields: vec![f("n", "Int!"), f("maybe", "Int"), f("bad", "Int"), f("nested", "Dog")], implements: vec![] },
    });
    Arc::new(ts)
}
