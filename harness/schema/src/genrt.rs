//! Runtime pieces shared by the *generated* derive-built schema family (harness/gens).
//!
//! The generated modules reuse S1's data-driven resolver body (`s1::plan`, `FromPlan`, `Echo`); this file adds
//! what they need besides: an object-safe handle on a concrete `Schema<Q, M, S>` (`StaticExec`), the two custom
//! scalars of the model (`ScalarKind::EvenInt`, `ScalarKind::ShortStr`) as `#[Scalar]` newtypes, eager
//! construction of `SimpleObject` fields, and the `gargs!` macro. Nothing here changes S1.

use std::sync::Arc;

use async_graphql::extensions::{Extension, ExtensionFactory};
use async_graphql::*;
use futures_util::future::BoxFuture;
use futures_util::stream::BoxStream;
use vh_model::Val;
use vh_model::world::PlanVal;

use crate::s1::{Cx, Echo, FromPlan};

// ---------------------------------------------------------------- object-safe schema handle

/// A derive-built schema whose concrete `Schema<Q, M, S>` type the caller need not name.
pub trait StaticExec: Send + Sync {
    fn execute(&self, req: Request) -> BoxFuture<'static, Response>;
    fn execute_stream(&self, req: Request) -> BoxStream<'static, Response>;
    /// The same schema built again with the given extension factories registered in this order.
    fn with_extensions(&self, exts: Vec<Arc<dyn ExtensionFactory>>) -> Arc<dyn StaticExec>;
    /// The same schema built again with another validation mode.
    fn with_validation_mode(&self, mode: ValidationMode) -> Arc<dyn StaticExec>;
    /// Is `parent_ty.field` built eagerly (a `SimpleObject` struct member, no resolver that could fail or be gated)?
    fn eager_field(&self, parent_ty: &str, field: &str) -> bool;
    /// SDL export of the real schema (information for samples / replays; not an oracle).
    fn sdl(&self) -> String;
}

struct ArcFactory(Arc<dyn ExtensionFactory>);
impl ExtensionFactory for ArcFactory {
    fn create(&self) -> Arc<dyn Extension> {
        self.0.create()
    }
}

pub struct StaticSchema<Q, M, S> {
    mk: Arc<dyn Fn() -> SchemaBuilder<Q, M, S> + Send + Sync>,
    schema: Schema<Q, M, S>,
    eager: &'static [(&'static str, &'static str)],
}

/// Wrap a schema builder function. `eager` lists the (type, field) pairs that are `SimpleObject` members.
pub fn static_exec<Q, M, S>(
    mk: impl Fn() -> SchemaBuilder<Q, M, S> + Send + Sync + 'static,
    eager: &'static [(&'static str, &'static str)],
) -> Arc<dyn StaticExec>
where
    Q: ObjectType + 'static,
    M: ObjectType + 'static,
    S: SubscriptionType + 'static,
{
    let schema = mk().finish();
    Arc::new(StaticSchema { mk: Arc::new(mk), schema, eager })
}

impl<Q, M, S> StaticExec for StaticSchema<Q, M, S>
where
    Q: ObjectType + 'static,
    M: ObjectType + 'static,
    S: SubscriptionType + 'static,
{
    fn execute(&self, req: Request) -> BoxFuture<'static, Response> {
        let s = self.schema.clone();
        Box::pin(async move { s.execute(req).await })
    }
    fn execute_stream(&self, req: Request) -> BoxStream<'static, Response> {
        self.schema.execute_stream(req)
    }
    fn with_extensions(&self, exts: Vec<Arc<dyn ExtensionFactory>>) -> Arc<dyn StaticExec> {
        let mut b = (self.mk)();
        for e in exts {
            b = b.extension(ArcFactory(e));
        }
        Arc::new(StaticSchema { mk: self.mk.clone(), schema: b.finish(), eager: self.eager })
    }
    fn with_validation_mode(&self, mode: ValidationMode) -> Arc<dyn StaticExec> {
        Arc::new(StaticSchema { mk: self.mk.clone(), schema: (self.mk)().validation_mode(mode).finish(), eager: self.eager })
    }
    fn eager_field(&self, parent_ty: &str, field: &str) -> bool {
        self.eager.iter().any(|(t, f)| *t == parent_ty && *f == field)
    }
    fn sdl(&self) -> String {
        self.schema.sdl()
    }
}

// ---------------------------------------------------------------- helpers of generated code

/// `gargs![("a0", a0), ("a1", a1)]` — what a resolver received, for `s1::plan`.
#[macro_export]
macro_rules! gargs {
    ($(($k:literal, $v:expr)),* $(,)?) => { vec![$(($k, $crate::s1::Echo::echo(&$v))),*] };
}

pub fn bad<T>(what: &str, pv: &PlanVal) -> Result<T> {
    Err(Error::new(format!("harness: cannot express {pv:?} as {what}")))
}

/// Echo of an input object: fields whose Rust type reports "not provided" are left out.
pub fn echo_obj(fields: Vec<(&str, Option<Val>)>) -> Option<Val> {
    Some(Val::Obj(fields.into_iter().filter_map(|(k, v)| v.map(|v| (k.to_string(), v))).collect()))
}

/// Value of an eagerly built `SimpleObject` member: what the data world yields for that field of the node
/// (no arguments). Faults are keyed by response path, which is unknown at construction time, so such
/// members never fail (the fault-enumerating checks skip them, see `StaticExec::eager_field`).
pub fn eager<T: FromPlan>(cx: &Cx, ty: &str, id: u64, field: &str) -> Result<T> {
    let ts = &cx.env.ts;
    let fd = ts.field(ty, field).cloned().ok_or_else(|| Error::new(format!("harness: model has no field {ty}.{field}")))?;
    T::from_plan(cx.env.world.resolve(ts, ty, id, &fd, "{}", "<simple-object-field>"), cx)
}

static NESTED_ROUTING: std::sync::atomic::AtomicBool = std::sync::atomic::AtomicBool::new(true);

/// Generator feature "a value reaches an interface-typed position wrapped in the variant of a nested interface"
/// (`If0::If1(If1::Ob(..))`, the shape async-graphql offers for an interface that implements another one).
/// Generated `FromPlan` impls route the nodes with an odd id that way while this is on; the checks switch it off
/// while a known finding excludes the feature (`common::static_family`). Process-wide, set before the workload starts.
pub fn set_nested_routing(on: bool) {
    NESTED_ROUTING.store(on, std::sync::atomic::Ordering::SeqCst);
}
pub fn nested_routing() -> bool {
    NESTED_ROUTING.load(std::sync::atomic::Ordering::SeqCst)
}

impl<T: FromPlan> FromPlan for Box<T> {
    fn from_plan(pv: PlanVal, cx: &Cx) -> Result<Self> {
        T::from_plan(pv, cx).map(Box::new)
    }
}

/// Which nullable, default-less arguments / input-object fields of a generated schema are declared as
/// `MaybeUndefined<T>` (the receiving type that can tell "omitted" from `null`). A pure function of the names
/// the type-system generator `gen_ts` hands out, so that the code generator (which emits the Rust type) and the
/// argument monitor C06 (which projects the expected value through the receiving type's view) agree without
/// passing tables around. `owner` is an input-object type name or `"<Type>.<field>"`; only the field part counts
/// for fields (interface fields are copied verbatim into every implementing object, and field names are unique
/// per type system). Names of S1 never match.
pub fn mu_by_name(owner: &str, name: &str) -> bool {
    fn tagged(s: &str, prefixes: &[&str]) -> bool {
        prefixes.iter().any(|p| s.strip_prefix(p).is_some_and(|d| !d.is_empty() && d.bytes().all(|b| b.is_ascii_digit())))
    }
    let key = match owner.split_once('.') {
        Some((_, field)) => {
            if !tagged(field, &["f", "i", "q", "ql", "m"]) || !tagged(name, &["a"]) {
                return false;
            }
            field
        }
        None => {
            if !tagged(owner, &["In"]) || !tagged(name, &["f"]) {
                return false;
            }
            owner
        }
    };
    vh_core::rng::mix(&[vh_core::rng::hash_str(key), vh_core::rng::hash_str(name), 0x6d75]) % 3 == 0
}

// ---------------------------------------------------------------- custom scalars of the model

/// `ScalarKind::EvenInt` — integers that are even.
#[derive(Clone, Copy, Debug, PartialEq, Eq)]
pub struct Even(pub i64);

#[Scalar(name = "Even")]
impl ScalarType for Even {
    fn parse(value: Value) -> InputValueResult<Self> {
        match &value {
            Value::Number(n) => match n.as_i64() {
                Some(i) if i % 2 == 0 => Ok(Even(i)),
                _ => Err(InputValueError::custom("not an even integer")),
            },
            _ => Err(InputValueError::expected_type(value)),
        }
    }
    fn is_valid(value: &Value) -> bool {
        matches!(value, Value::Number(n) if n.as_i64().is_some_and(|i| i % 2 == 0))
    }
    fn to_value(&self) -> Value {
        Value::from(self.0)
    }
}
impl Echo for Even {
    fn echo(&self) -> Option<Val> {
        Some(Val::Int(self.0))
    }
}
impl FromPlan for Even {
    fn from_plan(pv: PlanVal, _: &Cx) -> Result<Self> {
        match pv {
            PlanVal::Leaf(Val::Int(i)) => Ok(Even(i)),
            other => bad("Even", &other),
        }
    }
}

/// `ScalarKind::ShortStr` — strings of at most 8 characters.
#[derive(Clone, Debug, PartialEq, Eq)]
pub struct Short(pub String);

#[Scalar(name = "Short")]
impl ScalarType for Short {
    fn parse(value: Value) -> InputValueResult<Self> {
        match &value {
            Value::String(s) if s.chars().count() <= 8 => Ok(Short(s.clone())),
            Value::String(_) => Err(InputValueError::custom("longer than 8 characters")),
            _ => Err(InputValueError::expected_type(value)),
        }
    }
    fn is_valid(value: &Value) -> bool {
        matches!(value, Value::String(s) if s.chars().count() <= 8)
    }
    fn to_value(&self) -> Value {
        Value::String(self.0.clone())
    }
}
impl Echo for Short {
    fn echo(&self) -> Option<Val> {
        Some(Val::Str(self.0.clone()))
    }
}
impl FromPlan for Short {
    fn from_plan(pv: PlanVal, _: &Cx) -> Result<Self> {
        match pv {
            PlanVal::Leaf(Val::Str(s)) => Ok(Short(s)),
            other => bad("Short", &other),
        }
    }
}
