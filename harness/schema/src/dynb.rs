//! Build a real `async_graphql::dynamic::Schema` from a harness type system.
//! Every resolver is data-driven: it logs what it received, optionally awaits
//! its schedule gate, asks the data world what to yield and converts that into
//! a `FieldValue`.

use async_graphql::dynamic::*;
use async_graphql::{Name, Value as CV};
use vh_core::rng;
use vh_model::coerce;
use vh_model::world::PlanVal;
use vh_model::{FieldDef, Kind, ScalarKind, Ty, TypeSystem, Val};

use crate::conv::{from_val, to_val};
use crate::env::{Ek, Env};

/// The parent object a resolver runs on.
#[derive(Clone, Debug)]
pub struct NodeRef {
    pub ty: String,
    pub id: u64,
}

pub fn type_ref(t: &Ty) -> TypeRef {
    match t {
        Ty::Named(n) => TypeRef::Named(n.clone().into()),
        Ty::List(i) => TypeRef::List(Box::new(type_ref(i))),
        Ty::NonNull(i) => TypeRef::NonNull(Box::new(type_ref(i))),
    }
}

fn input_value(a: &vh_model::ArgDef) -> InputValue {
    let mut iv = InputValue::new(a.name.clone(), type_ref(&a.ty));
    if let Some(d) = &a.default {
        iv = iv.default_value(from_val(d));
    }
    iv
}

/// Convert a planned value into what a dynamic resolver returns.
/// `declared` is the declared type of the position.
pub fn to_field_value(ts: &TypeSystem, declared: &Ty, pv: &PlanVal) -> Option<FieldValue<'static>> {
    match pv {
        PlanVal::Null => None,
        PlanVal::Error(_) => None,
        PlanVal::Leaf(v) => {
            let cv = match v {
                // enum leaves are returned half the time as Value::Enum, half as Value::String
                Val::Enum(e) if rng::hash_str(e) & 1 == 0 => CV::String(e.clone()),
                other => from_val(other),
            };
            Some(FieldValue::value(cv))
        }
        PlanVal::Node { ty, id } => {
            let fv = FieldValue::owned_any(NodeRef { ty: ty.clone(), id: *id });
            let named = declared.name();
            if matches!(ts.kind(named), Kind::Object { .. }) { Some(fv) } else { Some(fv.with_type(ty.clone())) }
        }
        PlanVal::List(items) => {
            let item_ty = match declared.nullable() {
                Ty::List(i) => (**i).clone(),
                other => other.clone(),
            };
            Some(FieldValue::list(items.iter().map(|it| match to_field_value(ts, &item_ty, it) {
                Some(v) => v,
                None => FieldValue::NULL,
            })))
        }
    }
}

/// What the resolver received, as a harness value (argument map).
fn received_args(ctx: &ResolverContext<'_>) -> Val {
    Val::Obj(ctx.args.iter().map(|(k, v)| (k.to_string(), to_val(v.as_value()))).collect())
}

/// World key for received arguments: re-coerce them with the harness' own
/// coercion so that representation differences the spec allows (ID as int,
/// Float as int, single value for a list, omitted defaulted input fields) do
/// not change which data the resolver yields. What was *actually* received is
/// logged verbatim for the argument monitor (C06).
pub fn world_key(ts: &TypeSystem, fd: &FieldDef, received: &Val) -> String {
    let given: Vec<(String, Val)> = match received {
        Val::Obj(m) => m.clone(),
        _ => vec![],
    };
    let empty = coerce::Vars::new();
    let mut out = vec![];
    for d in &fd.args {
        let supplied = given.iter().find(|(k, _)| k == &d.name).map(|(_, v)| v);
        match supplied {
            Some(v) => match coerce::coerce(ts, &d.ty, v, Some(&empty), true) {
                Ok(coerce::C::V(x)) => out.push((d.name.clone(), x)),
                _ => out.push((d.name.clone(), v.clone())),
            },
            None => {
                if let Some(def) = &d.default {
                    if let Ok(coerce::C::V(x)) = coerce::coerce(ts, &d.ty, def, None, false) {
                        out.push((d.name.clone(), x));
                    }
                }
            }
        }
    }
    coerce::canon_args(&out)
}

fn make_field(ts: &TypeSystem, parent: &str, fd: &FieldDef) -> Field {
    let parent = parent.to_string();
    let fdc = fd.clone();
    let mut f = Field::new(fd.name.clone(), type_ref(&fd.ty), move |ctx| {
        let parent = parent.clone();
        let fd = fdc.clone();
        FieldFuture::new(async move {
            let env = ctx.data::<Env>()?.clone();
            let id = ctx.parent_value.downcast_ref::<NodeRef>().map(|n| n.id).unwrap_or(0);
            let path = ctx.ctx.path_node.map(|p| p.to_string()).unwrap_or_default();
            let received = received_args(&ctx);
            env.log.push(Ek::Start, &path, &parent, &fd.name, Some(received.clone()), "");
            if env.record_views {
                crate::s1::record_views_json(ctx.ctx, &env, &path, &parent, &fd.name);
            }
            if let Some(s) = &env.sched {
                s.gate(format!("r:{path}")).await;
            }
            let key = world_key(&env.ts, &fd, &received);
            let pv = env.world.resolve(&env.ts, &parent, id, &fd, &key, &path);
            env.log.push(Ek::Finish, &path, &parent, &fd.name, None, "");
            match pv {
                PlanVal::Error(m) => Err(async_graphql::Error::new(m)),
                other => Ok(to_field_value(&env.ts, &fd.ty, &other)),
            }
        })
    });
    for a in &fd.args {
        f = f.argument(input_value(a));
    }
    let _ = ts;
    f
}

pub fn scalar_validator(k: &ScalarKind) -> Option<Box<dyn Fn(&CV) -> bool + Send + Sync>> {
    match k {
        ScalarKind::EvenInt => Some(Box::new(|v: &CV| match v {
            CV::Number(n) => n.as_i64().map(|i| i % 2 == 0).unwrap_or(false),
            _ => false,
        })),
        ScalarKind::ShortStr => Some(Box::new(|v: &CV| match v {
            CV::String(s) => s.chars().count() <= 8,
            _ => false,
        })),
        _ => None,
    }
}

/// Register every type of `ts` on a dynamic schema builder.
pub fn builder(ts: &TypeSystem) -> SchemaBuilder {
    let mut b = Schema::build(&ts.query, ts.mutation.as_deref(), ts.subscription.as_deref());
    for t in &ts.types {
        if TypeSystem::is_builtin_scalar(&t.name) {
            continue;
        }
        match &t.kind {
            Kind::Scalar(k) => {
                let mut s = Scalar::new(t.name.clone());
                if let Some(v) = scalar_validator(k) {
                    s = s.validator(v);
                }
                b = b.register(s);
            }
            Kind::Enum(vals) => {
                let mut e = Enum::new(t.name.clone());
                for v in vals {
                    e = e.item(EnumItem::new(v.clone()));
                }
                b = b.register(e);
            }
            Kind::Object { fields, implements } => {
                if Some(&t.name) == ts.subscription.as_ref() {
                    continue; // subscriptions are registered by the caller
                }
                let mut o = Object::new(t.name.clone());
                for i in implements {
                    o = o.implement(i.clone());
                }
                for f in fields {
                    o = o.field(make_field(ts, &t.name, f));
                }
                b = b.register(o);
            }
            Kind::Interface { fields, implements } => {
                let mut i = Interface::new(t.name.clone());
                for x in implements {
                    i = i.implement(x.clone());
                }
                for f in fields {
                    let mut ifd = InterfaceField::new(f.name.clone(), type_ref(&f.ty));
                    for a in &f.args {
                        ifd = ifd.argument(input_value(a));
                    }
                    i = i.field(ifd);
                }
                b = b.register(i);
            }
            Kind::Union(members) => {
                let mut u = Union::new(t.name.clone());
                for m in members {
                    u = u.possible_type(m.clone());
                }
                b = b.register(u);
            }
            Kind::Input { fields, oneof } => {
                let mut io = InputObject::new(t.name.clone());
                for f in fields {
                    io = io.field(input_value(f));
                }
                if *oneof {
                    io = io.oneof();
                }
                b = b.register(io);
            }
        }
    }
    b
}

pub fn build(ts: &TypeSystem) -> Result<Schema, String> {
    builder(ts).finish().map_err(|e| e.to_string())
}

#[allow(dead_code)]
fn _name(_: Name) {}
