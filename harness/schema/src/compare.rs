//! Compare a real response with the reference executor's result.

use serde_json::Value as J;
use vh_model::doc::Printed;
use vh_model::exec::{RefError, RefResult, Seg, may_be_missing};

/// JSON equality where object key order matters and numbers compare by value.
pub fn json_eq(a: &J, b: &J) -> bool {
    match (a, b) {
        (J::Number(x), J::Number(y)) => {
            if let (Some(p), Some(q)) = (x.as_i64(), y.as_i64()) {
                p == q
            } else if let (Some(p), Some(q)) = (x.as_u64(), y.as_u64()) {
                p == q
            } else {
                x.as_f64() == y.as_f64()
            }
        }
        (J::Array(x), J::Array(y)) => x.len() == y.len() && x.iter().zip(y).all(|(p, q)| json_eq(p, q)),
        (J::Object(x), J::Object(y)) => {
            x.len() == y.len() && x.iter().zip(y.iter()).all(|((k1, v1), (k2, v2))| k1 == k2 && json_eq(v1, v2))
        }
        _ => a == b,
    }
}

/// First difference between two JSON documents, as a path + the two values.
pub fn json_diff(a: &J, b: &J, path: &str) -> Option<String> {
    if json_eq(a, b) {
        return None;
    }
    match (a, b) {
        (J::Object(x), J::Object(y)) => {
            let kx: Vec<&String> = x.keys().collect();
            let ky: Vec<&String> = y.keys().collect();
            if kx != ky {
                return Some(format!("at {path}: keys {kx:?} vs {ky:?}"));
            }
            for (k, v) in x {
                if let Some(d) = json_diff(v, &y[k], &format!("{path}.{k}")) {
                    return Some(d);
                }
            }
            None
        }
        (J::Array(x), J::Array(y)) => {
            if x.len() != y.len() {
                return Some(format!("at {path}: list length {} vs {}", x.len(), y.len()));
            }
            for (i, (p, q)) in x.iter().zip(y).enumerate() {
                if let Some(d) = json_diff(p, q, &format!("{path}.{i}")) {
                    return Some(d);
                }
            }
            None
        }
        _ => Some(format!("at {path}: {a} vs {b}")),
    }
}

#[derive(Clone, Debug)]
pub struct ObsError {
    pub message: String,
    pub path: Option<Vec<Seg>>,
    pub locations: Vec<(usize, usize)>,
}

pub struct Observed {
    pub data: J,
    pub errors: Vec<ObsError>,
    pub raw: J,
}

pub fn observe(resp: &async_graphql::Response) -> Observed {
    let raw = serde_json::to_value(resp).unwrap_or(J::Null);
    let data = raw.get("data").cloned().unwrap_or(J::Null);
    let mut errors = vec![];
    for e in raw.get("errors").and_then(|e| e.as_array()).cloned().unwrap_or_default() {
        let path = e.get("path").and_then(|p| p.as_array()).map(|p| {
            p.iter()
                .map(|s| match s {
                    J::Number(n) => Seg::Idx(n.as_u64().unwrap_or(0) as usize),
                    J::String(s) => Seg::Key(s.clone()),
                    other => Seg::Key(other.to_string()),
                })
                .collect::<Vec<_>>()
        });
        let locations = e
            .get("locations")
            .and_then(|l| l.as_array())
            .map(|l| {
                l.iter()
                    .map(|x| {
                        (
                            x.get("line").and_then(|v| v.as_u64()).unwrap_or(0) as usize,
                            x.get("column").and_then(|v| v.as_u64()).unwrap_or(0) as usize,
                        )
                    })
                    .collect()
            })
            .unwrap_or_default();
        errors.push(ObsError {
            message: e.get("message").and_then(|m| m.as_str()).unwrap_or("").to_string(),
            path,
            locations,
        });
    }
    Observed { data, errors, raw }
}

#[derive(Clone, Copy, Debug, PartialEq, Eq)]
pub enum ErrMode {
    /// compare data only (fault-free workloads): any error at all is a mismatch
    NoErrorsExpected,
    /// full error accounting: paths, locations, once-only
    Exact,
    /// data must match; errors are not compared
    DataOnly,
}

/// Returns a list of mismatch descriptions (empty = agrees with the reference).
pub fn compare(obs: &Observed, reference: &RefResult, printed: &Printed, mode: ErrMode) -> Vec<String> {
    let mut out = vec![];
    if let Some(req) = &reference.request_error {
        if obs.errors.is_empty() {
            out.push(format!("reference rejects the request ({req}) but the response has no errors"));
        }
        if !obs.data.is_null() {
            out.push(format!("reference rejects the request ({req}) but the response has data"));
        }
        return out;
    }
    if let Some(d) = json_diff(&obs.data, &reference.data, "data") {
        out.push(format!("data differs from the reference (observed vs expected) {d}"));
    }
    match mode {
        ErrMode::DataOnly => {}
        ErrMode::NoErrorsExpected => {
            if reference.errors.is_empty() && !obs.errors.is_empty() {
                out.push(format!(
                    "unexpected errors: {:?}",
                    obs.errors.iter().map(|e| (&e.message, &e.path)).collect::<Vec<_>>()
                ));
            }
        }
        ErrMode::Exact => out.extend(compare_errors(&obs.errors, &reference.errors, printed)),
    }
    out
}

fn loc_ok(e: &ObsError, r: &RefError, printed: &Printed) -> bool {
    if e.locations.is_empty() {
        return false;
    }
    e.locations.iter().all(|l| r.field_ids.iter().any(|id| printed.pos.get(id) == Some(l)))
}

pub fn compare_errors(obs: &[ObsError], reference: &[RefError], printed: &Printed) -> Vec<String> {
    let mut out = vec![];
    let mut present = vec![false; reference.len()];
    let mut used = vec![false; obs.len()];
    for (i, r) in reference.iter().enumerate() {
        for (j, e) in obs.iter().enumerate() {
            if used[j] {
                continue;
            }
            if e.path.as_deref() == Some(r.path.as_slice()) {
                used[j] = true;
                present[i] = true;
                if !loc_ok(e, r, printed) {
                    out.push(format!(
                        "error at path {} has locations {:?}, expected the start of one of its field nodes {:?}",
                        vh_model::exec::path_str(&r.path),
                        e.locations,
                        r.field_ids.iter().filter_map(|id| printed.pos.get(id)).collect::<Vec<_>>()
                    ));
                }
                break;
            }
        }
    }
    for (j, e) in obs.iter().enumerate() {
        if !used[j] {
            out.push(format!(
                "unexpected error (no failing field at that path, or reported more than once): message={:?} path={:?} locations={:?}",
                e.message,
                e.path.as_ref().map(|p| vh_model::exec::path_str(p)),
                e.locations
            ));
        }
    }
    for (i, r) in reference.iter().enumerate() {
        if !present[i] && !may_be_missing(r, reference, &present, i) {
            out.push(format!(
                "missing error for failing field at path {} ({})",
                vh_model::exec::path_str(&r.path),
                r.kind
            ));
        }
    }
    out
}
