//! Per-request environment handed to every harness resolver through request
//! data, and the append-only event log the monitors read afterwards.

use std::sync::atomic::{AtomicU64, Ordering};
use std::sync::{Arc, Mutex};

use vh_core::vsched::Sched;
use vh_model::world::World;
use vh_model::{TypeSystem, Val};

#[derive(Clone, Copy, Debug, PartialEq, Eq)]
pub enum Ek {
    /// resolver invoked (arguments received)
    Start,
    /// resolver about to return
    Finish,
    /// look-ahead / selection view recorded by a resolver
    View,
    /// extension hook
    Hook,
    /// stream / subscription event
    Stream,
}

#[derive(Clone, Debug)]
pub struct Event {
    pub seq: u64,
    pub kind: Ek,
    pub path: String,
    pub parent_ty: String,
    pub field: String,
    /// arguments exactly as the resolver received them
    pub args: Option<Val>,
    pub extra: String,
}

#[derive(Default)]
pub struct EventLog {
    seq: AtomicU64,
    ev: Mutex<Vec<Event>>,
}

impl EventLog {
    pub fn push(&self, kind: Ek, path: &str, parent_ty: &str, field: &str, args: Option<Val>, extra: &str) {
        let seq = self.seq.fetch_add(1, Ordering::SeqCst);
        self.ev.lock().unwrap().push(Event {
            seq,
            kind,
            path: path.to_string(),
            parent_ty: parent_ty.to_string(),
            field: field.to_string(),
            args,
            extra: extra.to_string(),
        });
    }
    pub fn snapshot(&self) -> Vec<Event> {
        self.ev.lock().unwrap().clone()
    }
    pub fn len(&self) -> usize {
        self.ev.lock().unwrap().len()
    }
    pub fn is_empty(&self) -> bool {
        self.len() == 0
    }
    pub fn clear(&self) {
        self.ev.lock().unwrap().clear();
    }
}

#[derive(Clone)]
pub struct Env {
    pub ts: Arc<TypeSystem>,
    pub world: Arc<World>,
    pub log: Arc<EventLog>,
    /// when set, every resolver awaits gate "r:<response path>" before it yields
    pub sched: Option<Sched>,
    /// record look-ahead / selection views in resolvers of composite fields
    pub record_views: bool,
}

impl Env {
    pub fn new(ts: Arc<TypeSystem>, world: World) -> Env {
        Env { ts, world: Arc::new(world), log: Arc::new(EventLog::default()), sched: None, record_views: false }
    }
    pub fn with_sched(mut self, s: Sched) -> Env {
        self.sched = Some(s);
        self
    }
}
