//! vh-schema (stub)
