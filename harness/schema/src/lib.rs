//! vh-schema: glue between the harness model and the real async-graphql crate:
//! event log, value conversions, dynamic-schema builder driven by the model,
//! response comparison against the reference executor.

pub mod compare;
pub mod conv;
pub mod dynb;
pub mod env;
pub mod genrt;
pub mod s1;

pub use env::{Ek, Env, Event, EventLog};
pub use genrt::StaticExec;
