//! Conversions between async-graphql values and harness values.

use async_graphql::{Name, Value as CV};
use vh_model::Val;

pub fn to_val(v: &CV) -> Val {
    match v {
        CV::Null => Val::Null,
        CV::Number(n) => {
            if let Some(i) = n.as_i64() {
                Val::Int(i)
            } else if let Some(u) = n.as_u64() {
                Val::Float(u as f64)
            } else {
                Val::Float(n.as_f64().unwrap_or(f64::NAN))
            }
        }
        CV::String(s) => Val::Str(s.clone()),
        CV::Boolean(b) => Val::Bool(*b),
        CV::Binary(b) => Val::Str(format!("<binary {} bytes>", b.len())),
        CV::Enum(e) => Val::Enum(e.to_string()),
        CV::List(xs) => Val::List(xs.iter().map(to_val).collect()),
        CV::Object(m) => Val::Obj(m.iter().map(|(k, v)| (k.to_string(), to_val(v))).collect()),
    }
}

pub fn from_val(v: &Val) -> CV {
    match v {
        Val::Null => CV::Null,
        Val::Int(i) => CV::from(*i),
        Val::Float(f) => CV::from(*f),
        Val::Str(s) => CV::String(s.clone()),
        Val::Bool(b) => CV::Boolean(*b),
        Val::Enum(e) => CV::Enum(Name::new(e)),
        Val::List(xs) => CV::List(xs.iter().map(from_val).collect()),
        Val::Obj(m) => CV::Object(m.iter().map(|(k, v)| (Name::new(k), from_val(v))).collect()),
        Val::Var(v) => panic!("variable ${v} cannot be converted to a const value"),
    }
}
