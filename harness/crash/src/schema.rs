//! Derive-built target schema for C12: every built-in input type is reachable
//! from a field argument, so that hostile literals / variables reach every
//! `InputType::parse` of the library. Resolvers are total (never panic, never
//! block, bounded work) — anything abnormal observed is the library's.

use async_graphql::extensions::apollo_persisted_queries::{ApolloPersistedQueries, LruCacheStorage};
use async_graphql::futures_util::stream::{self, Stream};
use async_graphql::*;

#[derive(Enum, Copy, Clone, Eq, PartialEq, Debug)]
pub enum Color {
    Red,
    Green,
    Blue,
}

#[derive(InputObject, Debug, Clone)]
pub struct Inner {
    pub a: i32,
    #[graphql(default = 5)]
    pub b: i32,
    pub c: Option<String>,
    #[graphql(default)]
    pub tags: Vec<String>,
    #[graphql(default_with = "Color::Green")]
    pub color: Color,
}

/// Recursive input object with defaults, lists of itself and every scalar.
#[derive(InputObject, Debug, Clone)]
pub struct Rec {
    pub name: String,
    #[graphql(default)]
    pub n: i32,
    #[graphql(default = 1.5)]
    pub f: f64,
    pub flag: Option<bool>,
    pub id: Option<ID>,
    pub color: Option<Color>,
    pub child: Option<Box<Rec>>,
    pub children: Option<Vec<Rec>>,
    pub inner: Option<Inner>,
    pub matrix: Option<Vec<Vec<Option<i32>>>>,
    pub mu: MaybeUndefined<i32>,
    pub one: Option<Choice>,
    pub blob: Option<Json<serde_json::Value>>,
}

#[derive(OneofObject, Debug, Clone)]
pub enum Choice {
    I(i32),
    S(String),
    In(Inner),
    L(Vec<i32>),
}

#[derive(InputObject)]
pub struct FileInput {
    pub title: String,
    pub file: Upload,
    pub extra: Option<Vec<Upload>>,
}

#[derive(SimpleObject, Clone)]
pub struct Leaf {
    pub v: i32,
    pub label: String,
}

#[derive(Clone)]
pub struct Node {
    pub depth: i32,
}

#[Object]
impl Node {
    async fn id(&self) -> ID {
        ID::from(format!("n{}", self.depth))
    }
    async fn name(&self) -> String {
        format!("node-{}", self.depth)
    }
    async fn depth(&self) -> i32 {
        self.depth
    }
    async fn color(&self) -> Color {
        Color::Red
    }
    async fn child(&self) -> Node {
        Node { depth: self.depth + 1 }
    }
    async fn children(&self, #[graphql(default = 2)] n: i32) -> Vec<Node> {
        (0..n.clamp(0, 3)).map(|_| Node { depth: self.depth + 1 }).collect()
    }
    async fn thing(&self) -> Thing {
        if self.depth % 2 == 0 {
            Thing::Leaf(Leaf { v: self.depth, label: "leaf".into() })
        } else {
            Thing::Node(Node { depth: self.depth + 1 })
        }
    }
    async fn named(&self) -> Named {
        Named::Leaf(Leaf { v: 1, label: "l".into() })
    }
}

#[derive(Union)]
pub enum Thing {
    Node(Node),
    Leaf(Leaf),
}

#[derive(Interface)]
#[graphql(field(name = "label", ty = "String"))]
pub enum Named {
    Leaf(Leaf),
    Tagged(Tagged),
}

#[derive(SimpleObject, Clone)]
pub struct Tagged {
    pub label: String,
    pub tag: String,
}

fn summarize_rec(r: &Rec, budget: &mut u32) -> u32 {
    // bounded walk so that the resolver itself cannot be made slow
    let mut n = 1;
    if *budget == 0 {
        return n;
    }
    *budget -= 1;
    if let Some(c) = &r.child {
        n += summarize_rec(c, budget);
    }
    if let Some(cs) = &r.children {
        for c in cs.iter().take(8) {
            n += summarize_rec(c, budget);
        }
    }
    n
}

pub struct Query;

#[Object]
impl Query {
    async fn int(&self, v: Option<i32>) -> Option<i32> {
        v
    }
    async fn int_req(&self, v: i32) -> i32 {
        v
    }
    async fn long(&self, v: Option<i64>) -> Option<i64> {
        v
    }
    async fn ulong(&self, v: Option<u64>) -> Option<u64> {
        v
    }
    async fn small(&self, v: Option<i8>) -> Option<i8> {
        v
    }
    async fn byte(&self, v: Option<u8>) -> Option<u8> {
        v
    }
    async fn float(&self, v: Option<f64>) -> Option<f64> {
        v
    }
    async fn float32(&self, v: Option<f32>) -> Option<f32> {
        v
    }
    async fn string(&self, v: Option<String>) -> Option<String> {
        v
    }
    async fn ch(&self, v: Option<char>) -> Option<char> {
        v
    }
    async fn boolean(&self, v: Option<bool>) -> Option<bool> {
        v
    }
    async fn id(&self, v: Option<ID>) -> Option<ID> {
        v
    }
    async fn color(&self, v: Option<Color>) -> Option<Color> {
        v
    }
    async fn colors(&self, v: Vec<Color>) -> Vec<Color> {
        v
    }
    async fn list(&self, v: Option<Vec<i32>>) -> i32 {
        v.map(|l| l.len() as i32).unwrap_or(-1)
    }
    async fn nested(&self, v: Option<Vec<Vec<Option<i32>>>>) -> i32 {
        v.map(|l| l.len() as i32).unwrap_or(-1)
    }
    async fn deep(&self, v: Option<Vec<Vec<Vec<Vec<i32>>>>>) -> i32 {
        v.map(|l| l.len() as i32).unwrap_or(-1)
    }
    async fn strings(&self, v: Option<Vec<Option<String>>>) -> i32 {
        v.map(|l| l.len() as i32).unwrap_or(-1)
    }
    async fn inner(&self, v: Option<Inner>) -> i32 {
        v.map(|i| i.a.wrapping_add(i.b)).unwrap_or(0)
    }
    async fn rec(&self, v: Option<Rec>) -> u32 {
        let mut budget = 64;
        v.map(|r| summarize_rec(&r, &mut budget)).unwrap_or(0)
    }
    async fn recs(&self, v: Option<Vec<Rec>>) -> i32 {
        v.map(|l| l.len() as i32).unwrap_or(-1)
    }
    async fn choice(&self, v: Option<Choice>) -> String {
        match v {
            None => "none".into(),
            Some(Choice::I(i)) => format!("i{i}"),
            Some(Choice::S(s)) => format!("s{}", s.len()),
            Some(Choice::In(i)) => format!("in{}", i.a),
            Some(Choice::L(l)) => format!("l{}", l.len()),
        }
    }
    async fn mu(&self, v: MaybeUndefined<i32>) -> String {
        match v {
            MaybeUndefined::Undefined => "undefined".into(),
            MaybeUndefined::Null => "null".into(),
            MaybeUndefined::Value(v) => format!("{v}"),
        }
    }
    async fn json(&self, v: Option<Json<serde_json::Value>>) -> Option<Json<serde_json::Value>> {
        v
    }
    async fn any(&self, v: Option<Any>) -> Option<Any> {
        v
    }
    async fn multi(
        &self,
        #[graphql(default = 1)] a: i32,
        #[graphql(default)] b: Option<String>,
        c: Option<Vec<Inner>>,
        d: MaybeUndefined<Color>,
    ) -> i32 {
        let _ = (b, d);
        a.wrapping_add(c.map(|c| c.len() as i32).unwrap_or(0))
    }
    async fn node(&self) -> Node {
        Node { depth: 0 }
    }
    async fn nodes(&self, #[graphql(default = 2)] n: i32) -> Vec<Node> {
        (0..n.clamp(0, 3)).map(|_| Node { depth: 0 }).collect()
    }
    async fn thing(&self, leaf: Option<bool>) -> Thing {
        if leaf.unwrap_or(true) {
            Thing::Leaf(Leaf { v: 7, label: "x".into() })
        } else {
            Thing::Node(Node { depth: 0 })
        }
    }
    async fn named(&self) -> Named {
        Named::Tagged(Tagged { label: "l".into(), tag: "t".into() })
    }
    async fn fails(&self) -> Result<i32> {
        Err(Error::new("resolver error"))
    }
}

fn upload_info(ctx: &Context<'_>, u: &Upload) -> String {
    // what every real upload resolver does: fetch the file behind the handle
    match u.value(ctx) {
        Ok(v) => format!("{}:{:?}:{}", v.filename, v.content_type, v.size().unwrap_or(0)),
        Err(e) => format!("io error {e}"),
    }
}

pub struct Mutation;

#[Object]
impl Mutation {
    async fn upload(&self, ctx: &Context<'_>, file: Upload) -> String {
        upload_info(ctx, &file)
    }
    async fn uploads(&self, ctx: &Context<'_>, files: Vec<Upload>) -> Vec<String> {
        files.iter().take(16).map(|f| upload_info(ctx, f)).collect()
    }
    async fn opt_upload(&self, ctx: &Context<'_>, file: Option<Upload>) -> Option<String> {
        file.map(|f| upload_info(ctx, &f))
    }
    async fn upload_in(&self, ctx: &Context<'_>, input: FileInput) -> String {
        let mut s = upload_info(ctx, &input.file);
        for f in input.extra.unwrap_or_default().iter().take(8) {
            s.push_str(&upload_info(ctx, f));
        }
        format!("{}{}", input.title.len(), s)
    }
    async fn set_int(&self, v: Option<i32>) -> Option<i32> {
        v
    }
    async fn store(&self, v: Rec) -> u32 {
        let mut budget = 64;
        summarize_rec(&v, &mut budget)
    }
}

pub struct Subscription;

#[Subscription]
impl Subscription {
    async fn ticks(&self, #[graphql(default = 3)] n: i32) -> impl Stream<Item = i32> {
        stream::iter(0..n.clamp(0, 4))
    }
    async fn echo(&self, v: Option<Rec>, #[graphql(default = 1)] times: i32) -> impl Stream<Item = String> {
        let s = v.map(|r| r.name).unwrap_or_default();
        stream::iter((0..times.clamp(0, 3)).map(move |i| format!("{s}{i}")))
    }
    async fn nodes(&self) -> impl Stream<Item = Node> {
        stream::iter(vec![Node { depth: 0 }, Node { depth: 1 }])
    }
    async fn failing(&self) -> Result<impl Stream<Item = i32>> {
        if true {
            return Err(Error::new("subscription refused"));
        }
        Ok(stream::iter(0..1))
    }
}

pub type S = Schema<Query, Mutation, Subscription>;

/// Default configuration (what `Schema::build(..).finish()` gives a user).
pub fn plain() -> S {
    Schema::build(Query, Mutation, Subscription).finish()
}

/// Second instance: Apollo persisted queries enabled, depth/complexity limits set.
pub fn apq() -> S {
    Schema::build(Query, Mutation, Subscription)
        .extension(ApolloPersistedQueries::new(LruCacheStorage::new(64)))
        .limit_depth(24)
        .limit_complexity(2000)
        .finish()
}
