//! `vh-crash __child <batchfile> <start> <stack-bytes>` — runs the inputs of a
//! batch file (one JSON `Input` per line) from line `start` on, each inside
//! `vh_core::catch`, all on one thread whose stack has the stated size.
//!
//! Protocol on stdout (flushed after every line):
//!   READY
//!   BEGIN <idx>
//!   END <idx> <ok|error-response|decode-error>
//!   END <idx> panic <json string: message @ location>
//!   DONE
//! If the process dies between BEGIN k and END k the parent attributes the
//! death to input k.

use std::io::Write;

use crate::exec::{Schemas, run_input};
use crate::input::{Input, SURFACES};

fn say(line: &str) {
    let out = std::io::stdout();
    let mut l = out.lock();
    let _ = writeln!(l, "{line}");
    let _ = l.flush();
}

pub fn main(args: &[String]) -> ! {
    if args.len() < 3 {
        eprintln!("usage: vh-crash __child <batchfile> <start> <stack-bytes>");
        std::process::exit(3);
    }
    let path = args[0].clone();
    let start: usize = args[1].parse().unwrap_or(0);
    let stack: usize = args[2].parse().unwrap_or(2 << 20);
    let text = match std::fs::read_to_string(&path) {
        Ok(t) => t,
        Err(e) => {
            eprintln!("harness: cannot read batch file {path}: {e}");
            std::process::exit(3);
        }
    };
    let worker = std::thread::Builder::new()
        .name("c12-worker".into())
        .stack_size(stack)
        .spawn(move || {
            let schemas = Schemas::new();
            say("READY");
            for (idx, line) in text.lines().enumerate() {
                if idx < start || line.trim().is_empty() {
                    continue;
                }
                let inp: Input = match serde_json::from_str(line) {
                    Ok(i) => i,
                    Err(e) => {
                        eprintln!("harness: batch line {idx} does not parse: {e}");
                        std::process::exit(3);
                    }
                };
                if !SURFACES.contains(&inp.surface.as_str()) {
                    eprintln!("harness: unknown surface {:?} on line {idx}", inp.surface);
                    std::process::exit(3);
                }
                say(&format!("BEGIN {idx}"));
                match vh_core::catch(|| run_input(&schemas, &inp)) {
                    Ok(c) => say(&format!("END {idx} {}", c.as_str())),
                    Err(p) => say(&format!("END {idx} panic {}", serde_json::to_string(&p).unwrap())),
                }
            }
            say("DONE");
        });
    let code = match worker {
        Ok(h) => match h.join() {
            Ok(()) => 0,
            Err(_) => 3,
        },
        Err(e) => {
            eprintln!("harness: cannot spawn worker thread: {e}");
            3
        }
    };
    std::process::exit(code);
}
