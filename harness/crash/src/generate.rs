//! Workload G6: hostile inputs for the eight client-controlled surfaces.
//!
//! Part 1 (this file top): schema-aware generator of *valid* documents,
//! literals and variables; part 2: mutations and special tokens; part 3:
//! nesting families; part 4: one generator per surface.
//!
//! Attribution: fragment chains are linear (each fragment spreads at most one
//! other fragment once). The fan-out families belong to C11.

use vh_core::Rng;

use crate::input::{Input, b64_encode};
use crate::sha256;

pub const UPLOAD_PREFIX: &str = "#__graphql_file__:";

#[derive(Clone, Debug, PartialEq)]
pub enum Ty {
    Int,
    Float,
    Str,
    Char,
    Bool,
    Id,
    Color,
    Json,
    Any,
    Inner,
    Rec,
    Choice,
    Upload,
    FileInput,
    List(Box<Ty>),
    NN(Box<Ty>),
}

fn list(t: Ty) -> Ty {
    Ty::List(Box::new(t))
}
fn nn(t: Ty) -> Ty {
    Ty::NN(Box::new(t))
}

impl Ty {
    pub fn name(&self) -> String {
        match self {
            Ty::Int => "Int".into(),
            Ty::Float => "Float".into(),
            Ty::Str => "String".into(),
            Ty::Char => "Char".into(),
            Ty::Bool => "Boolean".into(),
            Ty::Id => "ID".into(),
            Ty::Color => "Color".into(),
            Ty::Json => "JSON".into(),
            Ty::Any => "_Any".into(),
            Ty::Inner => "Inner".into(),
            Ty::Rec => "Rec".into(),
            Ty::Choice => "Choice".into(),
            Ty::Upload => "Upload".into(),
            Ty::FileInput => "FileInput".into(),
            Ty::List(t) => format!("[{}]", t.name()),
            Ty::NN(t) => format!("{}!", t.name()),
        }
    }
    fn has_upload(&self) -> bool {
        match self {
            Ty::Upload | Ty::FileInput => true,
            Ty::List(t) | Ty::NN(t) => t.has_upload(),
            _ => false,
        }
    }
}

pub struct FieldSpec {
    pub root: &'static str, // "query" | "mutation" | "subscription"
    pub name: &'static str,
    pub args: Vec<(&'static str, Ty)>,
    pub sel: Sel,
}

#[derive(Clone, Copy, PartialEq)]
pub enum Sel {
    None,
    Node,
    Thing,
    Named,
}

pub fn fields() -> Vec<FieldSpec> {
    let f = |root, name, args: Vec<(&'static str, Ty)>, sel| FieldSpec { root, name, args, sel };
    vec![
        f("query", "int", vec![("v", Ty::Int)], Sel::None),
        f("query", "intReq", vec![("v", nn(Ty::Int))], Sel::None),
        f("query", "long", vec![("v", Ty::Int)], Sel::None),
        f("query", "ulong", vec![("v", Ty::Int)], Sel::None),
        f("query", "small", vec![("v", Ty::Int)], Sel::None),
        f("query", "byte", vec![("v", Ty::Int)], Sel::None),
        f("query", "float", vec![("v", Ty::Float)], Sel::None),
        f("query", "float32", vec![("v", Ty::Float)], Sel::None),
        f("query", "string", vec![("v", Ty::Str)], Sel::None),
        f("query", "ch", vec![("v", Ty::Char)], Sel::None),
        f("query", "boolean", vec![("v", Ty::Bool)], Sel::None),
        f("query", "id", vec![("v", Ty::Id)], Sel::None),
        f("query", "color", vec![("v", Ty::Color)], Sel::None),
        f("query", "colors", vec![("v", nn(list(nn(Ty::Color))))], Sel::None),
        f("query", "list", vec![("v", list(nn(Ty::Int)))], Sel::None),
        f("query", "nested", vec![("v", list(nn(list(Ty::Int))))], Sel::None),
        f("query", "deep", vec![("v", list(nn(list(nn(list(nn(list(nn(Ty::Int)))))))))], Sel::None),
        f("query", "strings", vec![("v", list(Ty::Str))], Sel::None),
        f("query", "inner", vec![("v", Ty::Inner)], Sel::None),
        f("query", "rec", vec![("v", Ty::Rec)], Sel::None),
        f("query", "recs", vec![("v", list(nn(Ty::Rec)))], Sel::None),
        f("query", "choice", vec![("v", Ty::Choice)], Sel::None),
        f("query", "mu", vec![("v", Ty::Int)], Sel::None),
        f("query", "json", vec![("v", Ty::Json)], Sel::None),
        f("query", "any", vec![("v", Ty::Any)], Sel::None),
        f(
            "query",
            "multi",
            vec![("a", nn(Ty::Int)), ("b", Ty::Str), ("c", list(nn(Ty::Inner))), ("d", Ty::Color)],
            Sel::None,
        ),
        f("query", "node", vec![], Sel::Node),
        f("query", "nodes", vec![("n", nn(Ty::Int))], Sel::Node),
        f("query", "thing", vec![("leaf", Ty::Bool)], Sel::Thing),
        f("query", "named", vec![], Sel::Named),
        f("query", "fails", vec![], Sel::None),
        f("mutation", "upload", vec![("file", nn(Ty::Upload))], Sel::None),
        f("mutation", "uploads", vec![("files", nn(list(nn(Ty::Upload))))], Sel::None),
        f("mutation", "optUpload", vec![("file", Ty::Upload)], Sel::None),
        f("mutation", "uploadIn", vec![("input", nn(Ty::FileInput))], Sel::None),
        f("mutation", "setInt", vec![("v", Ty::Int)], Sel::None),
        f("mutation", "store", vec![("v", nn(Ty::Rec))], Sel::None),
        f("subscription", "ticks", vec![("n", nn(Ty::Int))], Sel::None),
        f("subscription", "echo", vec![("v", Ty::Rec), ("times", nn(Ty::Int))], Sel::None),
        f("subscription", "nodes", vec![], Sel::Node),
        f("subscription", "failing", vec![], Sel::None),
    ]
}

/// A generated document plus what belongs to it.
#[derive(Clone, Default, Debug)]
pub struct Doc {
    pub text: String,
    /// JSON text of matching variables (object), if the document declares any
    pub variables: Option<String>,
    /// (name, type) of the declared variables
    pub var_defs: Vec<(String, Ty)>,
    pub op_names: Vec<String>,
    /// Upload-typed variable paths (for multipart maps), e.g. "variables.f"
    pub upload_paths: Vec<String>,
}

pub struct Gen {
    pub r: Rng,
    pub feat_upload: bool,
    pub feat_deep: bool,
    /// `operations` part of a multipart body may carry a multipart/* Content-Type
    pub feat_part_ct: bool,
    /// variable definitions `$v: <type unknown to the schema> = <non-null default>`
    pub feat_vardef: bool,
    /// true while generating a text that reaches the library without any further mutation
    pub safe_ctx: bool,
    pub thorough: bool,
    pub fields: Vec<FieldSpec>,
}

const WORDS: [&str; 12] = ["a", "x", "hello", "RED", "null", "", " ", "é", "日本", "\u{1F600}", "a\"b", "line\nbreak"];

impl Gen {
    pub fn new(r: Rng, feat_upload: bool, feat_deep: bool, feat_part_ct: bool, feat_vardef: bool, thorough: bool) -> Gen {
        Gen { r, feat_upload, feat_deep, feat_part_ct, feat_vardef, safe_ctx: false, thorough, fields: fields() }
    }

    /// May the text being generated contain a variable default value? While
    /// the unknown-type finding is known (feature off) only texts that are not
    /// mutated afterwards may: a later mutation of the type name next to a
    /// default would be exactly the excluded input.
    pub fn defaults_ok(&self) -> bool {
        self.feat_vardef || self.safe_ctx
    }

    fn gql_string(&mut self) -> String {
        let w = *self.r.pick(&WORDS);
        let mut s = String::from("\"");
        for c in w.chars() {
            match c {
                '"' => s.push_str("\\\""),
                '\\' => s.push_str("\\\\"),
                '\n' => s.push_str("\\n"),
                c => s.push(c),
            }
        }
        s.push('"');
        s
    }

    fn small_int(&mut self) -> String {
        match self.r.below(8) {
            0 => "0".into(),
            1 => "-1".into(),
            2 => "2147483647".into(),
            3 => "-2147483648".into(),
            _ => self.r.range(-100, 100).to_string(),
        }
    }

    /// A valid GraphQL literal for `ty`. `json` switches to JSON syntax
    /// (quoted keys, enums as strings) for variables.
    pub fn value(&mut self, ty: &Ty, depth: u32, json: bool) -> String {
        match ty {
            Ty::NN(t) => self.value_nn(t, depth, json),
            t => {
                if self.r.chance(1, 8) {
                    "null".into()
                } else {
                    self.value_nn(t, depth, json)
                }
            }
        }
    }

    fn key(&self, k: &str, json: bool) -> String {
        if json { format!("\"{k}\":") } else { format!("{k}:") }
    }

    fn value_nn(&mut self, ty: &Ty, depth: u32, json: bool) -> String {
        match ty {
            Ty::NN(t) => self.value_nn(t, depth, json),
            Ty::Int => self.small_int(),
            Ty::Float => match self.r.below(5) {
                0 => "1.5".into(),
                1 => "-0.25e3".into(),
                2 => "1e10".into(),
                3 => self.small_int(),
                _ => format!("{}.{}", self.r.range(-99, 99), self.r.below(1000)),
            },
            Ty::Str | Ty::Id => {
                if *ty == Ty::Id && self.r.chance(1, 3) {
                    self.small_int()
                } else {
                    self.gql_string()
                }
            }
            Ty::Char => "\"c\"".into(),
            Ty::Bool => if self.r.bool() { "true" } else { "false" }.into(),
            Ty::Color => {
                let c = *self.r.pick(&["RED", "GREEN", "BLUE"]);
                if json { format!("\"{c}\"") } else { c.to_string() }
            }
            Ty::Json | Ty::Any => {
                if depth == 0 {
                    return self.small_int();
                }
                match self.r.below(5) {
                    0 => self.gql_string(),
                    1 => {
                        let n = self.r.below(3);
                        let items: Vec<String> = (0..n).map(|_| self.value_nn(&Ty::Json, depth - 1, json)).collect();
                        format!("[{}]", items.join(","))
                    }
                    2 => {
                        let n = self.r.below(3);
                        let items: Vec<String> = (0..n)
                            .map(|i| format!("{}{}", self.key(&format!("k{i}"), json), self.value_nn(&Ty::Json, depth - 1, json)))
                            .collect();
                        format!("{{{}}}", items.join(","))
                    }
                    3 => "true".into(),
                    _ => self.small_int(),
                }
            }
            Ty::Inner => {
                let mut parts = vec![format!("{}{}", self.key("a", json), self.small_int())];
                if self.r.bool() {
                    parts.push(format!("{}{}", self.key("b", json), self.small_int()));
                }
                if self.r.bool() {
                    parts.push(format!("{}{}", self.key("c", json), self.value(&Ty::Str, 0, json)));
                }
                if self.r.chance(1, 3) {
                    parts.push(format!("{}{}", self.key("tags", json), self.value_nn(&list(nn(Ty::Str)), 1, json)));
                }
                if self.r.chance(1, 3) {
                    parts.push(format!("{}{}", self.key("color", json), self.value_nn(&Ty::Color, 0, json)));
                }
                format!("{{{}}}", parts.join(","))
            }
            Ty::Rec => {
                let mut parts = vec![format!("{}{}", self.key("name", json), self.gql_string())];
                let opt: [(&str, Ty); 11] = [
                    ("n", Ty::Int),
                    ("f", Ty::Float),
                    ("flag", Ty::Bool),
                    ("id", Ty::Id),
                    ("color", Ty::Color),
                    ("child", Ty::Rec),
                    ("children", list(nn(Ty::Rec))),
                    ("inner", Ty::Inner),
                    ("matrix", list(nn(list(Ty::Int)))),
                    ("mu", Ty::Int),
                    ("one", Ty::Choice),
                ];
                for (k, t) in opt.iter() {
                    let recursive = matches!(*k, "child" | "children");
                    if recursive && depth == 0 {
                        continue;
                    }
                    if self.r.chance(1, 3) {
                        let d = depth.saturating_sub(1);
                        parts.push(format!("{}{}", self.key(k, json), self.value(t, d, json)));
                    }
                }
                if self.r.chance(1, 4) {
                    parts.push(format!("{}{}", self.key("blob", json), self.value(&Ty::Json, 2, json)));
                }
                format!("{{{}}}", parts.join(","))
            }
            Ty::Choice => match self.r.below(4) {
                0 => format!("{{{}{}}}", self.key("i", json), self.small_int()),
                1 => format!("{{{}{}}}", self.key("s", json), self.gql_string()),
                2 => format!("{{{}{}}}", self.key("in", json), self.value_nn(&Ty::Inner, 0, json)),
                _ => format!("{{{}{}}}", self.key("l", json), self.value_nn(&list(nn(Ty::Int)), 0, json)),
            },
            // without a multipart body there is no valid Upload value; the
            // benign stand-in is null (multipart generator fills the file in)
            Ty::Upload => "null".into(),
            Ty::FileInput => format!(
                "{{{}{},{}null}}",
                self.key("title", json),
                self.gql_string(),
                self.key("file", json)
            ),
            Ty::List(t) => {
                let n = self.r.below(4);
                let items: Vec<String> = (0..n).map(|_| self.value(t, depth.saturating_sub(1), json)).collect();
                format!("[{}]", items.join(","))
            }
        }
    }

    fn directive(&mut self, bool_var: Option<&str>) -> String {
        match self.r.below(6) {
            0 => " @skip(if: false)".into(),
            1 => " @include(if: true)".into(),
            2 => match bool_var {
                Some(v) => format!(" @include(if: ${v})"),
                None => " @skip(if: true)".into(),
            },
            3 => " @unknown(x: [1, {a: \"b\"}])".into(),
            4 => " @skip(if: false) @include(if: true)".into(),
            _ => " @deprecated".into(),
        }
    }

    fn node_sel(&mut self, depth: u32, frags: &mut Vec<String>) -> String {
        let mut items: Vec<String> = vec![];
        let n = 1 + self.r.below(4);
        for _ in 0..n {
            let it = match self.r.below(12) {
                0 => "id".to_string(),
                1 => "name".to_string(),
                2 => "depth".to_string(),
                3 => "color".to_string(),
                4 => "__typename".to_string(),
                5 if depth > 0 => format!("child {}", self.node_sel(depth - 1, frags)),
                6 if depth > 0 => format!("children(n: {}) {}", self.r.below(3), self.node_sel(depth - 1, frags)),
                7 if depth > 0 => format!("thing {}", self.thing_sel(depth - 1, frags)),
                8 => "named { label ... on Leaf { v } }".to_string(),
                9 if depth > 0 => format!("... on Node {}", self.node_sel(depth - 1, frags)),
                10 if depth > 0 => format!("... {}{}", self.directive(None).trim_start(), self.node_sel(depth - 1, frags)),
                11 if depth > 0 => {
                    // linear fragment chain: a new fragment, spread once
                    let name = format!("F{}", frags.len());
                    frags.push(String::new());
                    let idx = frags.len() - 1;
                    let body = self.node_sel(depth - 1, frags);
                    frags[idx] = format!("fragment {name} on Node {body}");
                    format!("...{name}")
                }
                _ => format!("alias{}: name", self.r.below(5)),
            };
            let d = if self.r.chance(1, 8) { self.directive(None) } else { String::new() };
            items.push(format!("{it}{d}"));
        }
        format!("{{ {} }}", items.join(" "))
    }

    fn thing_sel(&mut self, depth: u32, frags: &mut Vec<String>) -> String {
        let mut s = String::from("{ __typename ... on Leaf { v label }");
        if depth > 0 && self.r.bool() {
            s.push_str(&format!(" ... on Node {}", self.node_sel(depth - 1, frags)));
        }
        s.push_str(" }");
        s
    }

    fn field_sel(&mut self, f: Sel, frags: &mut Vec<String>) -> String {
        let depth = self.r.below(4) as u32;
        match f {
            Sel::None => String::new(),
            Sel::Node => format!(" {}", self.node_sel(depth, frags)),
            Sel::Thing => format!(" {}", self.thing_sel(depth, frags)),
            Sel::Named => " { label ... on Tagged { tag } ... on Leaf { v } }".into(),
        }
    }

    /// One operation over `root` with 1..4 fields; arguments inline or via variables.
    fn operation(&mut self, root: &str, name: Option<&str>, doc: &mut Doc, frags: &mut Vec<String>, want_upload: bool) -> String {
        let idxs: Vec<usize> = (0..self.fields.len())
            .filter(|&i| self.fields[i].root == root && (!want_upload || self.fields[i].args.iter().any(|a| a.1.has_upload())))
            .collect();
        let n = if root == "subscription" { 1 } else { 1 + self.r.below(3) };
        let mut sels = vec![];
        let mut defs: Vec<String> = vec![];
        let mut vars: Vec<String> = vec![];
        for k in 0..n {
            let fi = *self.r.pick(&idxs);
            let fname = self.fields[fi].name;
            let fsel = self.fields[fi].sel;
            let args: Vec<(&'static str, Ty)> = self.fields[fi].args.clone();
            let mut a = vec![];
            for (an, at) in &args {
                let use_var = name.is_some() && (at.has_upload() || self.r.chance(1, 3));
                let omit = !matches!(at, Ty::NN(_)) && self.r.chance(1, 6);
                if omit && !use_var {
                    continue;
                }
                if use_var {
                    let vn = format!("v{}", doc.var_defs.len());
                    let default = if self.defaults_ok() && !at.has_upload() && !matches!(at, Ty::NN(_)) && self.r.chance(1, 4) {
                        format!(" = {}", self.value(at, 2, false))
                    } else {
                        String::new()
                    };
                    defs.push(format!("${vn}: {}{default}", at.name()));
                    vars.push(format!("\"{vn}\":{}", self.value(at, 2, true)));
                    if at.has_upload() {
                        match at {
                            Ty::NN(t) if matches!(**t, Ty::List(_)) => doc.upload_paths.push(format!("variables.{vn}.0")),
                            Ty::NN(t) if **t == Ty::FileInput => doc.upload_paths.push(format!("variables.{vn}.file")),
                            _ => doc.upload_paths.push(format!("variables.{vn}")),
                        }
                    }
                    doc.var_defs.push((vn.clone(), at.clone()));
                    a.push(format!("{an}: ${vn}"));
                } else {
                    a.push(format!("{an}: {}", self.value(at, 2, false)));
                }
            }
            let alias = if n > 1 { format!("f{k}: ") } else { String::new() };
            let args_s = if a.is_empty() { String::new() } else { format!("({})", a.join(", ")) };
            let dir = if self.r.chance(1, 10) { self.directive(None) } else { String::new() };
            let sel = self.field_sel(fsel, frags);
            sels.push(format!("{alias}{fname}{args_s}{dir}{sel}"));
        }
        if root == "query" && self.r.chance(1, 12) {
            sels.push("__typename".into());
        }
        if root == "query" && self.r.chance(1, 25) {
            sels.push("__schema { queryType { name } types { name kind fields { name args { name type { name kind ofType { name } } } } } }".into());
        }
        if root == "query" && self.r.chance(1, 25) {
            sels.push("__type(name: \"Rec\") { name inputFields { name defaultValue type { name } } }".into());
        }
        if !vars.is_empty() {
            let prev = doc.variables.take().unwrap_or_else(|| "{}".into());
            let inner = prev.trim_start_matches('{').trim_end_matches('}').to_string();
            let mut all: Vec<String> = if inner.is_empty() { vec![] } else { vec![inner] };
            all.extend(vars);
            doc.variables = Some(format!("{{{}}}", all.join(",")));
        }
        let head = match name {
            None if root == "query" && defs.is_empty() => String::new(),
            None => root.to_string(),
            Some(nm) => {
                let d = if defs.is_empty() { String::new() } else { format!("({})", defs.join(", ")) };
                format!("{root} {nm}{d}")
            }
        };
        format!("{head} {{ {} }}", sels.join(" "))
    }

    /// A valid document (by construction; Upload variables are null unless a
    /// multipart body fills them).
    pub fn valid_doc(&mut self, ops: usize, want_upload: bool) -> Doc {
        let mut doc = Doc::default();
        let mut frags = vec![];
        let mut texts = vec![];
        for i in 0..ops.max(1) {
            let root = if want_upload {
                "mutation"
            } else {
                match self.r.below(10) {
                    0 | 1 => "mutation",
                    2 => "subscription",
                    _ => "query",
                }
            };
            let named = ops > 1 || want_upload || self.r.chance(2, 3);
            let name = if named { Some(format!("Op{i}")) } else { None };
            let t = self.operation(root, name.as_deref(), &mut doc, &mut frags, want_upload);
            if let Some(n) = name {
                doc.op_names.push(n);
            }
            texts.push(t);
        }
        texts.extend(frags);
        doc.text = texts.join("\n");
        doc
    }
}

include!("generate_mut.rs");
include!("generate_surfaces.rs");
