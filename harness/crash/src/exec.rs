//! Child side: feed one input to the library exactly the way a server would
//! and classify what came back (ok / error-response / decode-error). Nothing
//! here judges the *content* of a response.

use std::collections::VecDeque;
use std::pin::Pin;
use std::task::{Context, Poll};

use async_graphql::futures_util::stream::{Stream, StreamExt};
use async_graphql::http::{
    MultipartOptions, WebSocket, WebSocketProtocols, WsMessage, parse_query_string, receive_batch_body, receive_body,
};
use async_graphql::{BatchRequest, BatchResponse, Request, Response, Variables};
use vh_core::vsched::block_on;

use crate::input::Input;
use crate::schema::{self, S};

pub struct Schemas {
    pub plain: S,
    pub apq: S,
}

impl Schemas {
    pub fn new() -> Schemas {
        Schemas { plain: schema::plain(), apq: schema::apq() }
    }
    fn pick(&self, name: &str) -> &S {
        if name == "apq" { &self.apq } else { &self.plain }
    }
}

#[derive(Clone, Copy, PartialEq, Eq, Debug)]
pub enum Class {
    Ok,
    ErrorResponse,
    DecodeError,
}

impl Class {
    pub fn as_str(self) -> &'static str {
        match self {
            Class::Ok => "ok",
            Class::ErrorResponse => "error-response",
            Class::DecodeError => "decode-error",
        }
    }
}

fn class_of(resp: &Response) -> Class {
    // a server always serialises the response
    let _ = serde_json::to_string(resp);
    if resp.errors.is_empty() { Class::Ok } else { Class::ErrorResponse }
}

fn worst(a: Class, b: Class) -> Class {
    if a == Class::Ok { b } else { a }
}

/// Execute a request; when the document could be a subscription also drive it
/// through `execute_stream` to the end (finite streams in the schema).
fn execute(s: &S, make: &dyn Fn() -> Option<Request>) -> Class {
    let Some(req) = make() else { return Class::DecodeError };
    let is_sub = req.query.contains("subscription");
    let mut c = class_of(&block_on(s.execute(req)));
    if is_sub && let Some(req) = make() {
        let resps: Vec<Response> = block_on(s.execute_stream(req).take(64).collect());
        c = Class::Ok;
        for r in &resps {
            c = worst(c, class_of(r));
        }
    }
    c
}

fn execute_batch(s: &S, b: BatchRequest) -> Class {
    match block_on(s.execute_batch(b)) {
        BatchResponse::Single(r) => class_of(&r),
        BatchResponse::Batch(rs) => {
            let _ = serde_json::to_string(&rs);
            rs.iter().fold(Class::Ok, |c, r| worst(c, class_of(r)))
        }
    }
}

fn request_json(text: &str, op: Option<&str>, key: &str, raw: &str) -> String {
    let mut s = format!("{{\"query\":{}", serde_json::to_string(text).unwrap());
    if let Some(op) = op {
        s.push_str(&format!(",\"operationName\":{}", serde_json::to_string(op).unwrap()));
    }
    s.push_str(&format!(",\"{key}\":{raw}}}"));
    s
}

/// Input side of a WebSocket connection: yields the frames one at a time and
/// stays pending (self-waking) in between and after the last one, so that the
/// subscription streams inside `WebSocket` get polled like on a real socket.
struct Frames {
    frames: VecDeque<Vec<u8>>,
    gap: u32,
    left: u32,
    tail: u32,
}

impl Stream for Frames {
    type Item = Vec<u8>;
    fn poll_next(mut self: Pin<&mut Self>, cx: &mut Context<'_>) -> Poll<Option<Vec<u8>>> {
        if self.left > 0 {
            self.left -= 1;
            cx.waker().wake_by_ref();
            return Poll::Pending;
        }
        if let Some(f) = self.frames.pop_front() {
            self.left = self.gap;
            return Poll::Ready(Some(f));
        }
        if self.tail > 0 {
            self.tail -= 1;
            cx.waker().wake_by_ref();
            return Poll::Pending;
        }
        Poll::Ready(None)
    }
}

pub fn run_input(ss: &Schemas, inp: &Input) -> Class {
    let s = ss.pick(&inp.schema);
    let text = inp.text.clone().unwrap_or_default();
    match inp.surface.as_str() {
        "query" => execute(s, &|| Some(Request::new(text.clone()))),
        "opname" => {
            let op = inp.op.clone().unwrap_or_default();
            execute(s, &|| Some(Request::new(text.clone()).operation_name(op.clone())))
        }
        "variables" => {
            let raw = inp.json.clone().unwrap_or_default();
            if inp.mode.as_deref() == Some("request_json") {
                let body = request_json(&text, inp.op.as_deref(), "variables", &raw);
                execute(s, &|| serde_json::from_str::<Request>(&body).ok())
            } else {
                execute(s, &|| {
                    let v = serde_json::from_str::<serde_json::Value>(&raw).ok()?;
                    let mut r = Request::new(text.clone()).variables(Variables::from_json(v));
                    if let Some(op) = &inp.op {
                        r = r.operation_name(op.clone());
                    }
                    Some(r)
                })
            }
        }
        "extensions" => {
            let raw = inp.json.clone().unwrap_or_default();
            let body = request_json(&text, inp.op.as_deref(), "extensions", &raw);
            execute(s, &|| serde_json::from_str::<Request>(&body).ok())
        }
        "query_string" => execute(s, &|| parse_query_string(&text).ok()),
        "body" | "multipart" => {
            let bytes = inp.body();
            let mut opts = MultipartOptions::default();
            if let Some((size, files)) = inp.limits {
                opts = opts.max_file_size(size).max_num_files(files);
            }
            let ct = inp.content_type.clone();
            if inp.batch || inp.surface == "multipart" {
                let decoded = block_on(receive_batch_body(
                    ct.as_deref(),
                    async_graphql::futures_util::io::Cursor::new(bytes),
                    opts,
                ));
                match decoded {
                    Err(e) => {
                        let _ = e.to_string();
                        Class::DecodeError
                    }
                    Ok(b) => execute_batch(s, b),
                }
            } else {
                let decoded =
                    block_on(receive_body(ct.as_deref(), async_graphql::futures_util::io::Cursor::new(bytes), opts));
                match decoded {
                    Err(e) => {
                        let _ = e.to_string();
                        Class::DecodeError
                    }
                    Ok(r) => class_of(&block_on(s.execute(r))),
                }
            }
        }
        "ws" => {
            let protocol = if inp.protocol.as_deref() == Some("graphql-transport-ws") {
                WebSocketProtocols::GraphQLWS
            } else {
                WebSocketProtocols::SubscriptionsTransportWS
            };
            let frames = Frames { frames: inp.frames().into(), gap: 2, left: 0, tail: 48 };
            let ws = WebSocket::new(s.clone(), frames, protocol);
            let out: Vec<WsMessage> = block_on(ws.take(4096).collect());
            if out.iter().any(|m| matches!(m, WsMessage::Close(..))) {
                Class::ErrorResponse
            } else {
                Class::Ok
            }
        }
        other => panic!("harness: unknown surface {other}"),
    }
}
