//! Parent = monitor. Generates batches, runs them in child processes and
//! interprets how the children end: caught panic, death by signal (stack
//! overflow / abort), abnormal exit code, or no progress within the budget.

use std::collections::BTreeMap;
use std::io::{BufRead, BufReader, Read};
use std::os::unix::process::ExitStatusExt;
use std::path::{Path, PathBuf};
use std::process::{Command, Stdio};
use std::sync::atomic::{AtomicU64, Ordering};
use std::sync::mpsc::{self, RecvTimeoutError};
use std::sync::{Arc, Mutex};
use std::time::{Duration, Instant};

use vh_core::serde_json::{Value as J, json};
use vh_core::{Rng, Run, rng};

use crate::generate::Gen;
use crate::input::{Input, SURFACES};

pub const STACK_2M: usize = 2 * 1024 * 1024;
pub const STACK_8M: usize = 8 * 1024 * 1024;
const STARTUP_BUDGET: Duration = Duration::from_secs(300);
const RERUN_BUDGET: Duration = Duration::from_secs(120);

/// Per-input budget: 10 s for inputs up to 256 KB, 10 s more per further 256 KB, at most 120 s.
fn budget(size: usize) -> Duration {
    let units = 1 + size.saturating_sub(1) / (256 * 1024);
    Duration::from_secs((10 * units as u64).min(120))
}

#[derive(Clone, Debug, PartialEq)]
pub enum Outcome {
    /// ok | error-response | decode-error
    Clean(String),
    /// message @ location
    Panic(String),
    /// died while the input was running: signal name or exit code, stack-overflow flag, stderr tail
    Died { how: String, overflow: bool, stderr: String },
    /// no END within the budget
    Overrun,
    /// vsched::block_on gave up: the future was pending and nothing woke it
    NoWake(String),
}

impl Outcome {
    /// Outcome class used in witness signatures: stable across line numbers.
    pub fn class(&self) -> String {
        match self {
            Outcome::Clean(c) => c.clone(),
            Outcome::Panic(p) => format!("panic {}", panic_file(p)),
            Outcome::Died { how, overflow, .. } => {
                if *overflow {
                    format!("stack-overflow {how}")
                } else {
                    format!("abnormal-exit {how}")
                }
            }
            Outcome::Overrun | Outcome::NoWake(_) => "no-progress".into(),
        }
    }
    pub fn is_clean(&self) -> bool {
        matches!(self, Outcome::Clean(_))
    }
    fn text(&self) -> String {
        match self {
            Outcome::Clean(c) => c.clone(),
            Outcome::Panic(p) => format!("panic: {p}"),
            Outcome::Died { how, overflow, stderr } => format!(
                "child process died ({how}{}) while this input was running; stderr tail: {stderr:?}",
                if *overflow { ", stack overflow" } else { "" }
            ),
            Outcome::Overrun => "no completion within the budget, twice (alone with 120 s the second time)".into(),
            Outcome::NoWake(p) => format!("future stayed pending and nothing woke it, twice: {p}"),
        }
    }
}

/// "msg @ /repo/src/types/upload.rs:163" -> "src/types/upload.rs"
fn panic_file(p: &str) -> String {
    let loc = p.rsplit(" @ ").next().unwrap_or("");
    let file = loc.rsplit_once(':').map(|x| x.0).unwrap_or(loc);
    match file.find("/repo/") {
        Some(i) => file[i + 6..].to_string(),
        None => file.to_string(),
    }
}

fn signal_name(s: i32) -> String {
    match s {
        4 => "SIGILL".into(),
        6 => "SIGABRT".into(),
        7 => "SIGBUS".into(),
        9 => "SIGKILL".into(),
        11 => "SIGSEGV".into(),
        n => format!("signal {n}"),
    }
}

pub struct Env {
    pub exe: PathBuf,
    pub work: PathBuf,
}

impl Env {
    pub fn new(root: &Path) -> Result<Env, String> {
        let exe = std::env::current_exe().map_err(|e| format!("current_exe: {e}"))?;
        let work = root.join("harness").join("target").join("crash-work").join(format!("p{}", std::process::id()));
        std::fs::create_dir_all(work.join("tmp")).map_err(|e| format!("cannot create {}: {e}", work.display()))?;
        Ok(Env { exe, work })
    }
    pub fn cleanup(&self) {
        let _ = std::fs::remove_dir_all(&self.work);
    }
}

enum Stop {
    Done,
    /// died while `idx` was running
    Died(usize, Outcome),
    Overrun(usize),
    Harness(String),
}

/// Run the inputs `start..` of `file` in one child; push (idx, outcome) for
/// every input that reported END; say why the child stopped.
fn drive(env: &Env, file: &Path, start: usize, stack: usize, budget_of: &dyn Fn(usize) -> Duration, out: &mut Vec<(usize, Outcome)>) -> Stop {
    let mut child = match Command::new(&env.exe)
        .arg("__child")
        .arg(file)
        .arg(start.to_string())
        .arg(stack.to_string())
        .env("TMPDIR", env.work.join("tmp"))
        .env("RUST_BACKTRACE", "0")
        // allocator tuning only (this sandbox has very slow mmap/page faults); no effect on stack use
        .env("MALLOC_MMAP_THRESHOLD_", "1073741824")
        .env("MALLOC_TRIM_THRESHOLD_", "1073741824")
        .env("MALLOC_TOP_PAD_", "67108864")
        .stdin(Stdio::null())
        .stdout(Stdio::piped())
        .stderr(Stdio::piped())
        .spawn()
    {
        Ok(c) => c,
        Err(e) => return Stop::Harness(format!("cannot spawn child: {e}")),
    };
    let stdout = child.stdout.take().unwrap();
    let mut stderr = child.stderr.take().unwrap();
    let (tx, rx) = mpsc::channel::<String>();
    let reader = std::thread::spawn(move || {
        for line in BufReader::new(stdout).lines() {
            match line {
                Ok(l) => {
                    if tx.send(l).is_err() {
                        break;
                    }
                }
                Err(_) => break,
            }
        }
    });
    let err_buf = Arc::new(Mutex::new(Vec::<u8>::new()));
    let err_buf2 = err_buf.clone();
    let err_reader = std::thread::spawn(move || {
        let mut buf = [0u8; 4096];
        while let Ok(n) = stderr.read(&mut buf) {
            if n == 0 {
                break;
            }
            let mut g = err_buf2.lock().unwrap();
            if g.len() < 64 * 1024 {
                g.extend_from_slice(&buf[..n]);
            }
        }
    });
    let mut current: Option<(usize, Instant)> = None;
    let mut last_event = Instant::now();
    let mut done = false;
    let stop = loop {
        let deadline = match current {
            Some((idx, t)) => t + budget_of(idx),
            None => last_event + STARTUP_BUDGET,
        };
        let wait = deadline.saturating_duration_since(Instant::now());
        match rx.recv_timeout(wait) {
            Ok(line) => {
                last_event = Instant::now();
                let mut it = line.splitn(4, ' ');
                match it.next() {
                    Some("READY") => {}
                    Some("BEGIN") => {
                        let idx = it.next().and_then(|s| s.parse().ok()).unwrap_or(usize::MAX);
                        current = Some((idx, Instant::now()));
                    }
                    Some("END") => {
                        let idx: usize = it.next().and_then(|s| s.parse().ok()).unwrap_or(usize::MAX);
                        let cls = it.next().unwrap_or("");
                        let o = if cls == "panic" {
                            let msg: String = it.next().and_then(|m| vh_core::serde_json::from_str(m).ok()).unwrap_or_default();
                            if msg.contains("vsched::block_on") { Outcome::NoWake(msg) } else { Outcome::Panic(msg) }
                        } else {
                            Outcome::Clean(cls.to_string())
                        };
                        out.push((idx, o));
                        current = None;
                    }
                    Some("DONE") => done = true,
                    _ => {} // anything else on stdout is ignored
                }
            }
            Err(RecvTimeoutError::Timeout) => {
                let _ = child.kill();
                let _ = child.wait();
                break match current {
                    Some((idx, _)) => Stop::Overrun(idx),
                    None => Stop::Harness("child produced no progress line for 300 s outside any input".into()),
                };
            }
            Err(RecvTimeoutError::Disconnected) => {
                let status = child.wait();
                let _ = err_reader.join();
                let err_text = String::from_utf8_lossy(&err_buf.lock().unwrap()).to_string();
                let tail: String = {
                    let cs: Vec<char> = err_text.chars().collect();
                    cs[cs.len().saturating_sub(400)..].iter().collect()
                };
                let status = match status {
                    Ok(s) => s,
                    Err(e) => break Stop::Harness(format!("wait failed: {e}")),
                };
                if done && status.success() {
                    break Stop::Done;
                }
                let how = match (status.signal(), status.code()) {
                    (Some(s), _) => signal_name(s),
                    (None, Some(c)) => format!("exit code {c}"),
                    _ => "unknown status".into(),
                };
                break match current {
                    Some((idx, _)) if status.code() != Some(3) => {
                        let overflow = err_text.contains("overflowed its stack") || err_text.contains("stack overflow");
                        Stop::Died(idx, Outcome::Died { how, overflow, stderr: tail })
                    }
                    _ => Stop::Harness(format!("child ended ({how}) outside any input; stderr: {tail}")),
                };
            }
        }
    };
    drop(rx);
    let _ = reader.join();
    stop
}

fn write_batch(path: &Path, inputs: &[Input]) -> Result<(), String> {
    let mut s = String::new();
    for i in inputs {
        s.push_str(&vh_core::serde_json::to_string(i).map_err(|e| e.to_string())?);
        s.push('\n');
    }
    std::fs::write(path, s).map_err(|e| format!("cannot write {}: {e}", path.display()))
}

/// Run one input alone in a fresh child. An overrun / no-wake is retried once
/// with the 120 s budget; `slow` is set when only the first attempt overran.
pub fn run_alone(env: &Env, tag: &str, inp: &Input, stack: usize, first_budget: Duration, retry: bool, slow: &mut bool) -> Result<Outcome, String> {
    let file = env.work.join(format!("single-{tag}.jsonl"));
    write_batch(&file, std::slice::from_ref(inp))?;
    let mut attempt = 0;
    let res = loop {
        let mut out = vec![];
        let b = if attempt == 0 { first_budget } else { RERUN_BUDGET };
        let stop = drive(env, &file, 0, stack, &|_| b, &mut out);
        let o = match stop {
            Stop::Done => match out.pop() {
                Some((_, o)) => o,
                None => break Err("child finished without reporting the input".to_string()),
            },
            Stop::Died(_, o) => o,
            Stop::Overrun(_) => Outcome::Overrun,
            Stop::Harness(e) => break Err(e),
        };
        if retry && matches!(o, Outcome::Overrun | Outcome::NoWake(_)) && attempt == 0 {
            attempt = 1;
            continue;
        }
        if attempt == 1 && o.is_clean() {
            *slow = true;
        }
        break Ok(o);
    };
    let _ = std::fs::remove_file(&file);
    res
}

struct Monitor<'a> {
    run: &'a Run,
    env: &'a Env,
    max_clean_depth: Mutex<BTreeMap<String, u64>>,
    min_bad_depth: Mutex<BTreeMap<String, u64>>,
    sampled: Mutex<BTreeMap<String, u32>>,
    reported: Mutex<BTreeMap<String, u32>>,
}

impl Monitor<'_> {
    fn record(&self, inp: &Input, o: &Outcome) {
        let run = self.run;
        run.eval();
        run.count(&format!("inputs_{}", inp.surface), 1);
        let cls = o.class();
        let cls = cls.split(' ').next().unwrap_or("");
        run.count(&format!("outcome_{cls}"), 1);
        run.count(&format!("surface_{}_{cls}", inp.surface), 1);
        run.seen("families", &format!("{}/{}", inp.surface, inp.family.split('+').next().unwrap_or("")));
        if inp.hostile {
            run.nontrivial(inp.hash());
        }
        if let Some((c, d)) = &inp.nest {
            let m = if o.is_clean() { &self.max_clean_depth } else { &self.min_bad_depth };
            let mut g = m.lock().unwrap();
            let e = g.entry(c.clone()).or_insert(if o.is_clean() { 0 } else { u64::MAX });
            *e = if o.is_clean() { (*e).max(*d) } else { (*e).min(*d) };
        }
        {
            // a few samples per surface
            let mut g = self.sampled.lock().unwrap();
            let n = g.entry(inp.surface.clone()).or_insert(0);
            if *n < 2 && inp.size() < 600 {
                *n += 1;
                run.sample_upto(16, json!({"input": inp, "outcome": o.class()}));
            }
        }
        if !o.is_clean() {
            self.report_generated(inp, o);
        }
    }

    fn report_generated(&self, inp: &Input, o: &Outcome) {
        // one class = one defect site: panic location, or how the child died in which construct
        let key = match o {
            Outcome::Panic(p) => format!("panic @ {}", p.rsplit(" @ ").next().unwrap_or("")),
            other => format!("{} in {}", other.class(), inp.nest.as_ref().map(|n| n.0.as_str()).unwrap_or(inp.family.as_str())),
        };
        self.run.seen("abnormal_outcomes", &format!("{key} [{}]", inp.surface));
        self.run.count("abnormal_inputs", 1);
        {
            // keep the output readable: at most 2 VIOLATION reports per class, the rest is counted
            let coarse = match o {
                Outcome::Panic(_) => key.clone(),
                other => other.class(),
            };
            let mut g = self.reported.lock().unwrap();
            let n = g.entry(coarse).or_insert(0);
            *n += 1;
            if *n > 2 {
                self.run.count("abnormal_inputs_not_reported_individually", 1);
                return;
            }
        }
        let sig = format!("gen:{}:{:016x}", inp.surface, inp.hash());
        let what = format!("{} — {}", o.text(), inp.describe());
        self.run.violation(&sig, &what, json!({"input": inp, "stack_bytes": STACK_2M, "outcome": o.class()}));
    }

    /// One batch: keep restarting the child behind the input that killed it.
    fn run_batch(&self, b: u64, inputs: &[Input]) {
        let file = self.env.work.join(format!("batch-{b}.jsonl"));
        if let Err(e) = write_batch(&file, inputs) {
            self.run.inconclusive(&e);
            return;
        }
        let sizes: Vec<usize> = inputs.iter().map(|i| i.size()).collect();
        let budget_of = |idx: usize| budget(sizes.get(idx).copied().unwrap_or(0));
        let mut start = 0;
        let mut reruns: Vec<(usize, bool)> = vec![]; // (input, was it the executor giving up rather than the budget)
        loop {
            let mut out = vec![];
            let stop = drive(self.env, &file, start, STACK_2M, &budget_of, &mut out);
            for (idx, o) in out {
                let Some(inp) = inputs.get(idx) else { continue };
                if matches!(o, Outcome::NoWake(_)) {
                    self.run.count("executor_gave_up_once", 1);
                    reruns.push((idx, true));
                } else {
                    self.record(inp, &o);
                }
            }
            match stop {
                Stop::Done => break,
                Stop::Died(idx, o) => {
                    self.run.count("child_restarts", 1);
                    if let Some(inp) = inputs.get(idx) {
                        self.record(inp, &o);
                    }
                    start = idx + 1;
                }
                Stop::Overrun(idx) => {
                    self.run.count("child_restarts", 1);
                    self.run.count("budget_overruns", 1);
                    reruns.push((idx, false));
                    start = idx + 1;
                }
                Stop::Harness(e) => {
                    self.run.inconclusive(&format!("batch {b}: {e}"));
                    break;
                }
            }
            if start >= inputs.len() {
                break;
            }
        }
        for (idx, nowake) in reruns {
            let inp = &inputs[idx];
            let mut slow = false;
            // the first attempt already happened inside the batch
            match run_alone(self.env, &format!("b{b}-{idx}"), inp, STACK_2M, RERUN_BUDGET, false, &mut slow) {
                Ok(o) => {
                    if o.is_clean() {
                        self.run.count("slow_inputs", 1);
                        let why = if nowake {
                            "vsched::block_on stopped waiting for a wake-up from the blocking pool under load"
                        } else {
                            "overran its budget"
                        };
                        self.run.note(&format!("slow input ({why} once, completed when re-run alone): {}", vh_core::run::truncate(&inp.describe(), 300)));
                    }
                    // an overrun of the 120 s attempt is the second one
                    self.record(inp, &o);
                }
                Err(e) => self.run.inconclusive(&format!("rerun of batch {b} input {idx}: {e}")),
            }
        }
        let _ = std::fs::remove_file(&file);
    }
}

fn load_witnesses(root: &Path) -> Vec<(String, Input)> {
    let mut v = vec![];
    let Ok(rd) = std::fs::read_dir(root.join("witnesses")) else { return v };
    let mut paths: Vec<PathBuf> = rd
        .filter_map(|e| e.ok().map(|e| e.path()))
        .filter(|p| p.file_name().and_then(|n| n.to_str()).map(|n| n.starts_with("C12-") && n.ends_with(".json")).unwrap_or(false))
        .collect();
    paths.sort();
    for p in paths {
        let Ok(t) = std::fs::read_to_string(&p) else { continue };
        let Ok(j) = vh_core::serde_json::from_str::<J>(&t) else {
            eprintln!("witness {} does not parse", p.display());
            continue;
        };
        let id = j["id"].as_str().unwrap_or("").to_string();
        match vh_core::serde_json::from_value::<Input>(j["input"].clone()) {
            Ok(i) if !id.is_empty() => v.push((id, i)),
            _ => eprintln!("witness {} has no id / input", p.display()),
        }
    }
    v
}

pub fn main() {
    let mut run = Run::from_args(
        "exploration",
        "hostile client inputs for 8 surfaces (query text, operation name, variables, extensions, query string, JSON body, \
         multipart body, WebSocket frames) against a derive-built schema using every built-in input type incl. Upload: \
         schema-aware valid documents, then token deletion/duplication/swap/replacement, character splices (NUL, BOM, \
         surrogates, random code points), truncation, hostile number/string literals, huge names, nesting families \
         (list/object values, selection sets, inline fragments, list types, default values, directive arguments, linear \
         fragment chains), wrong-kind and forged-marker variables, persisted-query payloads, percent-encoding damage, \
         truncated / duplicated / mis-typed JSON, damaged multipart framing and maps, hostile WebSocket frame sequences; \
         each input runs in a child process (2 MiB stack thread) watched by the parent; non-trivial = produced by a \
         hostile generator (not an unmutated valid document); distinct by hash of (surface, exact strings/bytes)",
    );
    run.assume("each input is executed on a thread with a 2 MiB stack (tokio's default worker stack, i.e. what a real server gives a request); a stack overflow kills the child process and is observed as SIGABRT/SIGSEGV by the parent");
    run.assume("time rule: 10 s per input up to 256 KB (+10 s per further 256 KB, max 120 s); an overrun is re-run alone with 120 s and only a second overrun is a violation; vsched::block_on giving up (future pending, never woken) is treated like an overrun");
    run.assume("the harness resolvers are total and bounded; serde_json (default recursion limit 128) decodes JSON exactly as an integration would before handing values to the library");
    run.assume("oracle is process-level only: the content of error responses is not judged; fragment chains are linear (fan-out families belong to C11)");
    for s in SURFACES {
        run.require_counter(&format!("inputs_{s}"));
    }
    run.require_counter("outcome_ok");
    run.require_counter("outcome_error-response");
    run.require_counter("outcome_decode-error");
    run.set_floors(run.scale(15_000, 200_000), run.scale(8_000, 100_000));
    run.set_max_samples(16);

    let env = match Env::new(&run.root) {
        Ok(e) => e,
        Err(e) => {
            run.inconclusive(&e);
            run.finish();
        }
    };

    if let Some(path) = run.replay.clone() {
        replay(&run, &env, &path);
        env.cleanup();
        run.finish();
    }

    let feat_upload = run.feature("forged_upload_marker");
    let feat_deep = run.feature("deep_nesting_over_1000");
    let feat_part_ct = run.feature("multipart_part_content_type_multipart");
    let feat_vardef = run.feature("unknown_variable_type_with_default");
    run.extra(
        "generator_features",
        json!({"forged_upload_marker": feat_upload, "deep_nesting_over_1000": feat_deep, "multipart_part_content_type_multipart": feat_part_ct, "unknown_variable_type_with_default": feat_vardef}),
    );

    // 1. pinned witnesses (known findings / regression cases), each alone in a fresh child
    for (id, inp) in load_witnesses(&run.root) {
        let mut slow = false;
        match run_alone(&env, &format!("w-{id}"), &inp, STACK_2M, budget(inp.size()), true, &mut slow) {
            Ok(o) => {
                run.eval();
                run.count("witnesses_run", 1);
                if o.is_clean() {
                    run.count("witnesses_clean", 1);
                } else {
                    run.violation(
                        &format!("{id}|{}", o.class()),
                        &format!("witness {id}: {} — {}", o.text(), inp.describe()),
                        json!({"input": inp, "stack_bytes": STACK_2M, "outcome": o.class(), "witness": id}),
                    );
                }
            }
            Err(e) => run.inconclusive(&format!("witness {id}: {e}")),
        }
    }

    // 2. generated workload
    let total = run.scale(20_000, 2_000_000);
    let batch_size = run.scale(250, 2_000);
    let batches = total.div_ceil(batch_size);
    let cap = Duration::from_secs(run.scale(110, 14 * 60));
    let started = Instant::now();
    let next = AtomicU64::new(0);
    let thorough = run.is_thorough();
    let seed = run.seed;
    let mon = Monitor {
        run: &run,
        env: &env,
        max_clean_depth: Mutex::new(BTreeMap::new()),
        min_bad_depth: Mutex::new(BTreeMap::new()),
        sampled: Mutex::new(BTreeMap::new()),
        reported: Mutex::new(BTreeMap::new()),
    };
    let workers = std::thread::available_parallelism().map(|n| n.get()).unwrap_or(4).min(16);
    std::thread::scope(|s| {
        for _ in 0..workers {
            s.spawn(|| {
                loop {
                    let b = next.fetch_add(1, Ordering::SeqCst);
                    if b >= batches {
                        break;
                    }
                    if started.elapsed() > cap {
                        mon.run.count("batches_not_started_time_cap", 1);
                        continue;
                    }
                    let mut g = Gen::new(Rng::new(rng::mix(&[seed, 12, b])), feat_upload, feat_deep, feat_part_ct, feat_vardef, thorough);
                    let n = batch_size.min(total - b * batch_size);
                    let inputs: Vec<Input> = (0..n).map(|_| g.input()).collect();
                    mon.run_batch(b, &inputs);
                    mon.run.count("batches_run", 1);
                }
            });
        }
    });
    if started.elapsed() > cap {
        run.note("time cap reached: the run ends with what was covered");
    }
    run.extra(
        "nesting_depths",
        json!({
            "max_depth_completed_per_construct": *mon.max_clean_depth.lock().unwrap(),
            "min_depth_abnormal_per_construct": *mon.min_bad_depth.lock().unwrap(),
        }),
    );
    drop(mon);
    env.cleanup();
    run.finish();
}

fn replay(run: &Run, env: &Env, path: &Path) {
    let text = match std::fs::read_to_string(path) {
        Ok(t) => t,
        Err(e) => {
            run.inconclusive(&format!("cannot read replay {}: {e}", path.display()));
            return;
        }
    };
    let j: J = match vh_core::serde_json::from_str(&text) {
        Ok(j) => j,
        Err(e) => {
            run.inconclusive(&format!("replay file does not parse: {e}"));
            return;
        }
    };
    // replay files (case.input) and witness files (input) are both accepted
    let inp_j = if j["case"]["input"].is_object() { j["case"]["input"].clone() } else { j["input"].clone() };
    let stack = j["case"]["stack_bytes"].as_u64().unwrap_or(STACK_2M as u64) as usize;
    let inp: Input = match vh_core::serde_json::from_value(inp_j) {
        Ok(i) => i,
        Err(e) => {
            run.inconclusive(&format!("replay file holds no input: {e}"));
            return;
        }
    };
    let mut slow = false;
    match run_alone(env, "replay", &inp, stack, budget(inp.size()), true, &mut slow) {
        Ok(o) => {
            run.eval();
            println!("REPLAY outcome={} stack_bytes={stack} {}", o.class(), vh_core::run::truncate(&inp.describe(), 600));
            if !o.is_clean() {
                let sig = match j["case"]["witness"].as_str().or(j["id"].as_str()) {
                    Some(w) => format!("{w}|{}", o.class()),
                    None => format!("gen:{}:{:016x}", inp.surface, inp.hash()),
                };
                run.violation(&sig, &format!("{} — {}", o.text(), inp.describe()), json!({"input": inp, "stack_bytes": stack, "outcome": o.class()}));
            }
        }
        Err(e) => run.inconclusive(&format!("replay: {e}")),
    }
}

/// `vh-crash __probe [construct ...]`: smallest depth per nesting construct
/// at which the child dies, for 2 MiB and 8 MiB stacks (binary search; the
/// property is monotone in practice).
pub fn probe(args: &[String]) {
    let root = vh_core::run::verif_root();
    let env = match Env::new(&root) {
        Ok(e) => e,
        Err(e) => {
            eprintln!("{e}");
            std::process::exit(2);
        }
    };
    let constructs: Vec<String> = if args.is_empty() { Gen::CONSTRUCTS.iter().map(|s| s.to_string()).collect() } else { args.to_vec() };
    let mut report = serde_json::Map::new();
    for c in &constructs {
        let mut per = serde_json::Map::new();
        for (label, stack) in [("2MiB", STACK_2M), ("8MiB", STACK_8M)] {
            let limit: u64 = if c.starts_with("fragment_chain") { 200_000 } else { 4_000_000 };
            let try_depth = |d: u64| -> Outcome {
                let inp = Input {
                    surface: "query".into(),
                    schema: "plain".into(),
                    text: Some(Gen::nest_text(c, d as usize)),
                    ..Default::default()
                };
                let mut slow = false;
                run_alone(&env, "probe", &inp, stack, RERUN_BUDGET, false, &mut slow).unwrap_or(Outcome::Clean("harness-error".into()))
            };
            // exponential search for a failing depth, then bisect
            let mut lo = 1u64; // known good
            let mut hi = 0u64; // known bad
            let mut d = 64u64;
            let mut bad_class = String::new();
            while d <= limit {
                let o = try_depth(d);
                if o.is_clean() {
                    lo = d;
                    d *= 2;
                } else {
                    hi = d;
                    bad_class = o.class();
                    break;
                }
            }
            if hi == 0 {
                per.insert(label.into(), json!({"no_failure_up_to": lo}));
                continue;
            }
            while hi - lo > 1 {
                let mid = (lo + hi) / 2;
                let o = try_depth(mid);
                if o.is_clean() {
                    lo = mid;
                } else {
                    hi = mid;
                    bad_class = o.class();
                }
            }
            per.insert(label.into(), json!({"smallest_failing_depth": hi, "outcome": bad_class}));
        }
        println!("{c}: {}", J::Object(per.clone()));
        report.insert(c.clone(), J::Object(per));
    }
    println!("{}", serde_json::to_string_pretty(&J::Object(report)).unwrap());
    env.cleanup();
}
