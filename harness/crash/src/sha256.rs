//! Minimal SHA-256 (generator side only: valid persisted-query hashes).

const K: [u32; 64] = [
    0x428a2f98, 0x71374491, 0xb5c0fbcf, 0xe9b5dba5, 0x3956c25b, 0x59f111f1, 0x923f82a4, 0xab1c5ed5, 0xd807aa98,
    0x12835b01, 0x243185be, 0x550c7dc3, 0x72be5d74, 0x80deb1fe, 0x9bdc06a7, 0xc19bf174, 0xe49b69c1, 0xefbe4786,
    0x0fc19dc6, 0x240ca1cc, 0x2de92c6f, 0x4a7484aa, 0x5cb0a9dc, 0x76f988da, 0x983e5152, 0xa831c66d, 0xb00327c8,
    0xbf597fc7, 0xc6e00bf3, 0xd5a79147, 0x06ca6351, 0x14292967, 0x27b70a85, 0x2e1b2138, 0x4d2c6dfc, 0x53380d13,
    0x650a7354, 0x766a0abb, 0x81c2c92e, 0x92722c85, 0xa2bfe8a1, 0xa81a664b, 0xc24b8b70, 0xc76c51a3, 0xd192e819,
    0xd6990624, 0xf40e3585, 0x106aa070, 0x19a4c116, 0x1e376c08, 0x2748774c, 0x34b0bcb5, 0x391c0cb3, 0x4ed8aa4a,
    0x5b9cca4f, 0x682e6ff3, 0x748f82ee, 0x78a5636f, 0x84c87814, 0x8cc70208, 0x90befffa, 0xa4506ceb, 0xbef9a3f7,
    0xc67178f2,
];

pub fn hex(data: &[u8]) -> String {
    let mut h: [u32; 8] =
        [0x6a09e667, 0xbb67ae85, 0x3c6ef372, 0xa54ff53a, 0x510e527f, 0x9b05688c, 0x1f83d9ab, 0x5be0cd19];
    let mut msg = data.to_vec();
    let bitlen = (data.len() as u64).wrapping_mul(8);
    msg.push(0x80);
    while msg.len() % 64 != 56 {
        msg.push(0);
    }
    msg.extend_from_slice(&bitlen.to_be_bytes());
    for chunk in msg.chunks(64) {
        let mut w = [0u32; 64];
        for i in 0..16 {
            w[i] = u32::from_be_bytes([chunk[4 * i], chunk[4 * i + 1], chunk[4 * i + 2], chunk[4 * i + 3]]);
        }
        for i in 16..64 {
            let s0 = w[i - 15].rotate_right(7) ^ w[i - 15].rotate_right(18) ^ (w[i - 15] >> 3);
            let s1 = w[i - 2].rotate_right(17) ^ w[i - 2].rotate_right(19) ^ (w[i - 2] >> 10);
            w[i] = w[i - 16].wrapping_add(s0).wrapping_add(w[i - 7]).wrapping_add(s1);
        }
        let mut v = h;
        for i in 0..64 {
            let s1 = v[4].rotate_right(6) ^ v[4].rotate_right(11) ^ v[4].rotate_right(25);
            let ch = (v[4] & v[5]) ^ (!v[4] & v[6]);
            let t1 = v[7].wrapping_add(s1).wrapping_add(ch).wrapping_add(K[i]).wrapping_add(w[i]);
            let s0 = v[0].rotate_right(2) ^ v[0].rotate_right(13) ^ v[0].rotate_right(22);
            let maj = (v[0] & v[1]) ^ (v[0] & v[2]) ^ (v[1] & v[2]);
            let t2 = s0.wrapping_add(maj);
            v[7] = v[6];
            v[6] = v[5];
            v[5] = v[4];
            v[4] = v[3].wrapping_add(t1);
            v[3] = v[2];
            v[2] = v[1];
            v[1] = v[0];
            v[0] = t1.wrapping_add(t2);
        }
        for i in 0..8 {
            h[i] = h[i].wrapping_add(v[i]);
        }
    }
    h.iter().map(|x| format!("{x:08x}")).collect()
}
