// Part 4 of the generator (included into generate.rs): one generator per surface.

const JSON_POOL: [&str; 40] = [
    "null", "true", "false", "0", "-1", "1.5", "-0", "-0.0", "1e308", "1e309", "1e400", "-1e400", "1E-400", "0e0",
    "2147483648", "-2147483649", "9223372036854775807", "9223372036854775808", "18446744073709551615",
    "18446744073709551616", "\"\"", "\"str\"", "\"RED\"", "\"red\"", "\"NaN\"", "\"Infinity\"", "[]", "{}", "[[]]",
    "[null]", "{\"a\":1}", "{\"\":null}", "[1,\"a\",null,{}]", "\"\\ud800\"", "\"\\u0000\"", "\"1\"", "\"true\"",
    "{\"name\":\"x\"}", "{\"i\":1,\"s\":\"x\"}", "{\"i\":null}",
];

const INVALID_JSON: [&str; 14] = [
    "NaN", "Infinity", "-Infinity", "", " ", "{", "[", "{\"a\":}", "{'a':1}", "{\"a\":1,}", "01", "1.", "\"\\x\"", "nul",
];

const CONTENT_TYPES: [&str; 22] = [
    "application/json",
    "application/json; charset=utf-8",
    "application/graphql-response+json",
    "application/graphql+json",
    "application/graphql",
    "application/cbor",
    "text/plain",
    "APPLICATION/JSON",
    "",
    ";;;",
    "a/b/c",
    "/",
    "application/",
    "multipart/form-data",
    "multipart/form-data; boundary=",
    "multipart/form-data; boundary=\"",
    "multipart/mixed; boundary=x",
    "application/json; charset=\"",
    "application/json; =",
    "application/jsön",
    "*/*",
    "application/json\r\nX: y",
];

fn pct_encode(s: &str, plus: bool) -> String {
    let mut o = String::new();
    for b in s.bytes() {
        match b {
            b'A'..=b'Z' | b'a'..=b'z' | b'0'..=b'9' | b'-' | b'_' | b'.' | b'~' => o.push(b as char),
            b' ' if plus => o.push('+'),
            _ => o.push_str(&format!("%{b:02X}")),
        }
    }
    o
}

impl Gen {
    fn base(&self, surface: &str, family: &str) -> Input {
        Input { surface: surface.into(), schema: "plain".into(), family: family.into(), hostile: true, ..Default::default() }
    }

    fn json_nest(&mut self, open: &str, close: &str, leaf: &str) -> (String, u64) {
        // serde_json stops at 128 levels: both sides of that limit, and far beyond
        let d = *self.r.pick(&[5u64, 60, 120, 126, 127, 128, 129, 1000, 100_000]);
        (format!("{}{leaf}{}", open.repeat(d as usize), close.repeat(d as usize)), d)
    }

    /// Hostile JSON value text (may be invalid JSON on purpose).
    pub fn hostile_json(&mut self) -> String {
        match self.r.below(12) {
            0 => self.r.pick(&INVALID_JSON).to_string(),
            1 => self.digits(400),
            2 => format!("-{}", self.digits(400)),
            3 => format!("{}.{}e{}", self.digits(20), self.digits(20), self.digits(5)),
            4 => self.json_nest("[", "]", "1").0,
            5 => self.json_nest("{\"a\":", "}", "1").0,
            6 => serde_json::to_string(&"x".repeat(*self.r.pick(&[1000usize, 100_000]))).unwrap(),
            7 => format!("{{\"a\":1,\"a\":{}}}", self.r.pick(&JSON_POOL)),
            _ => self.r.pick(&JSON_POOL).to_string(),
        }
    }

    /// Replace one random value position of a JSON text by a hostile value.
    fn mutate_json(&mut self, text: &str) -> String {
        let Ok(mut v) = serde_json::from_str::<serde_json::Value>(text) else {
            return self.hostile_json();
        };
        fn count(v: &serde_json::Value) -> usize {
            1 + match v {
                serde_json::Value::Array(a) => a.iter().map(count).sum(),
                serde_json::Value::Object(o) => o.values().map(count).sum(),
                _ => 0,
            }
        }
        fn put(v: &mut serde_json::Value, k: &mut usize, with: &serde_json::Value) -> bool {
            if *k == 0 {
                *v = with.clone();
                return true;
            }
            *k -= 1;
            match v {
                serde_json::Value::Array(a) => a.iter_mut().any(|x| put(x, k, with)),
                serde_json::Value::Object(o) => o.values_mut().any(|x| put(x, k, with)),
                _ => false,
            }
        }
        const MARK: &str = "\u{1}HOSTILE\u{1}";
        let n = count(&v);
        let mut k = if n > 1 { 1 + self.r.below(n - 1) } else { 0 };
        put(&mut v, &mut k, &serde_json::Value::String(MARK.into()));
        let s = serde_json::to_string(&v).unwrap();
        let needle = serde_json::to_string(MARK).unwrap();
        s.replacen(&needle, &self.hostile_json(), 1)
    }

    fn gen_query(&mut self) -> Input {
        let (text, family, nest, hostile) = self.any_query_text(true);
        let mut i = self.base("query", &family);
        if self.r.chance(1, 4) {
            i.schema = "apq".into();
        }
        // inline forged marker as a literal in the query text
        if self.feat_upload && self.r.chance(1, 40) {
            let m = self.forged_marker().replace('\\', "\\\\").replace('"', "\\\"").replace('\u{0}', "\\u0000");
            i.text = Some(match self.r.below(4) {
                0 => format!("mutation {{ upload(file: \"{m}\") }}"),
                1 => format!("mutation {{ uploads(files: [\"{m}\", \"{m}\"]) }}"),
                2 => format!("mutation {{ optUpload(file: \"{m}\") }}"),
                _ => format!("mutation {{ uploadIn(input: {{title: \"t\", file: \"{m}\", extra: [\"{m}\"]}}) }}"),
            });
            i.family = "forged-upload-literal".into();
            return i;
        }
        i.text = Some(text);
        i.nest = nest;
        i.hostile = hostile;
        i
    }

    fn hostile_op_name(&mut self, doc: &Doc) -> String {
        match self.r.below(14) {
            0 => String::new(),
            1 => "Nope".into(),
            2 => self.long_name(),
            3 => "\u{0}".into(),
            4 => "Op0 ".into(),
            5 => "op0".into(),
            6 => "__typename".into(),
            7 => "Op0\u{0}Op1".into(),
            8 => "query".into(),
            9 => "\u{FEFF}Op0".into(),
            10 => self.mutate_chars("Op1"),
            11 => "F0".into(),
            _ => doc.op_names.get(self.r.below(doc.op_names.len().max(1))).cloned().unwrap_or_else(|| "Op0".into()),
        }
    }

    fn gen_opname(&mut self) -> Input {
        let mut i = self.base("opname", "opname");
        let ops = 1 + self.r.below(4);
        let how = self.r.below(8);
        self.safe_ctx = how != 2;
        let doc = self.valid_doc(ops, false);
        self.safe_ctx = false;
        let mut text = doc.text.clone();
        match how {
            0 => text.push_str(" query Op0 { int }"), // duplicate operation name
            1 => text.push_str(" { int }"),           // anonymous next to named
            2 => text = self.mutate_tokens(&text),
            3 => text = format!("fragment Op0 on Node {{ name }} {text}"),
            _ => {}
        }
        i.text = Some(text);
        i.op = Some(self.hostile_op_name(&doc));
        i
    }

    /// A document whose variables include Upload-typed ones, with hostile
    /// values in the Upload slots. Returns (text, variables-json).
    fn upload_vars_doc(&mut self) -> (String, String) {
        let (text, vars): (&str, String) = match self.r.below(5) {
            0 => ("mutation Op0($f: Upload!) { upload(file: $f) }", format!("{{\"f\":{}}}", self.upload_slot_json())),
            1 => (
                "mutation Op0($f: [Upload!]!) { uploads(files: $f) }",
                format!("{{\"f\":[{},{}]}}", self.upload_slot_json(), self.upload_slot_json()),
            ),
            2 => ("mutation Op0($f: Upload) { optUpload(file: $f) }", format!("{{\"f\":{}}}", self.upload_slot_json())),
            3 => (
                "mutation Op0($i: FileInput!) { uploadIn(input: $i) }",
                format!(
                    "{{\"i\":{{\"title\":\"t\",\"file\":{},\"extra\":[{}]}}}}",
                    self.upload_slot_json(),
                    self.upload_slot_json()
                ),
            ),
            _ => (
                "mutation Op0($f: Upload!, $g: Upload) { a: upload(file: $f) b: optUpload(file: $g) }",
                format!("{{\"f\":{},\"g\":{}}}", self.upload_slot_json(), self.upload_slot_json()),
            ),
        };
        (text.to_string(), vars)
    }

    /// (query text, variables JSON text, family)
    fn hostile_vars(&mut self, pure: bool) -> (String, String, String) {
        self.safe_ctx = pure;
        let out = self.hostile_vars_inner(pure);
        self.safe_ctx = false;
        out
    }

    fn hostile_vars_inner(&mut self, pure: bool) -> (String, String, String) {
        match self.r.weighted(&[20, 30, 12, 10, 10, 8, 10]) {
            0 => {
                let (t, v) = self.upload_vars_doc();
                (t, v, if self.feat_upload { "upload-slot-forged".into() } else { "upload-slot-wrong-kind".into() })
            }
            1 => {
                // every input type, wrong kinds: one typed variable, value from the pool
                let fi = self.r.below(self.fields.len());
                let f = &self.fields[fi];
                let root = f.root;
                let name = f.name;
                let sel = if f.sel == Sel::None { "" } else { " { __typename }" };
                let args: Vec<(&'static str, Ty)> = f.args.clone();
                let mut defs = vec![];
                let mut uses = vec![];
                let mut vals = vec![];
                for (k, (an, at)) in args.iter().enumerate() {
                    defs.push(format!("$v{k}: {}", at.name()));
                    uses.push(format!("{an}: $v{k}"));
                    let v = if at.has_upload() {
                        self.upload_slot_json()
                    } else if self.r.chance(1, 3) {
                        self.value(at, 2, true)
                    } else {
                        self.hostile_json()
                    };
                    vals.push(format!("\"v{k}\":{v}"));
                }
                let text = if args.is_empty() {
                    format!("{root} Op0 {{ {name}{sel} }}")
                } else {
                    format!("{root} Op0({}) {{ {name}({}){sel} }}", defs.join(", "), uses.join(", "))
                };
                (text, format!("{{{}}}", vals.join(",")), "wrong-kind".into())
            }
            2 => {
                let d = self.valid_doc(1, false);
                let v = d.variables.clone().unwrap_or_else(|| "{}".into());
                (d.text, self.mutate_json(&v), "valid-vars-mutated".into())
            }
            3 => {
                // the variables value itself is not an object / not JSON
                let d = self.valid_doc(1, false);
                (d.text, self.hostile_json(), "vars-not-object".into())
            }
            4 => {
                // odd keys, missing and surplus variables
                let k = match self.r.below(6) {
                    0 => String::new(),
                    1 => "$v".into(),
                    2 => self.long_name(),
                    3 => "\u{0}".into(),
                    4 => "v0.x".into(),
                    _ => "v".into(),
                };
                let text = if self.defaults_ok() {
                    "query Op0($v: Int, $w: Rec = {name: \"d\"}) { int(v: $v) rec(v: $w) }".to_string()
                } else {
                    "query Op0($v: Int, $w: Rec) { int(v: $v) rec(v: $w) }".to_string()
                };
                let v = format!("{{{}:{},\"zz\":{}}}", serde_json::to_string(&k).unwrap(), self.hostile_json(), self.hostile_json());
                (text, v, "odd-keys".into())
            }
            5 => {
                // deep (but serde-accepted) nesting into recursive / list / any types
                let d = *self.r.pick(&[10usize, 50, 100, 120]);
                match self.r.below(4) {
                    0 => (
                        "query Op0($v: _Any) { any(v: $v) }".into(),
                        format!("{{\"v\":{}1{}}}", "[".repeat(d), "]".repeat(d)),
                        "vars-deep-any".into(),
                    ),
                    1 => (
                        "query Op0($v: JSON) { json(v: $v) }".into(),
                        format!("{{\"v\":{}1{}}}", "{\"a\":".repeat(d), "}".repeat(d)),
                        "vars-deep-json".into(),
                    ),
                    2 => (
                        "query Op0($v: Rec) { rec(v: $v) }".into(),
                        format!("{{\"v\":{}{{\"name\":\"x\"}}{}}}", "{\"name\":\"x\",\"child\":".repeat(d), "}".repeat(d)),
                        "vars-deep-rec".into(),
                    ),
                    _ => (
                        "query Op0($v: [[[[Int!]!]!]!]) { deep(v: $v) }".into(),
                        format!("{{\"v\":{}1{}}}", "[".repeat(d), "]".repeat(d)),
                        "vars-deep-list".into(),
                    ),
                }
            }
            _ => {
                // hostile document, ordinary variables
                let (t, fam, _, _) = self.any_query_text(pure);
                (t, "{\"v0\":1,\"v\":[1,2],\"b\":true}".into(), format!("vars+{fam}"))
            }
        }
    }

    fn gen_variables(&mut self) -> Input {
        let (text, vars, family) = self.hostile_vars(true);
        let mut i = self.base("variables", &family);
        i.mode = Some(if self.r.bool() { "from_json" } else { "request_json" }.into());
        if self.r.chance(1, 3) {
            i.op = Some("Op0".into());
        }
        if self.r.chance(1, 5) {
            i.schema = "apq".into();
        }
        i.text = Some(text);
        i.json = Some(vars);
        i
    }

    /// (query, extensions JSON text)
    fn hostile_extensions(&mut self) -> (String, String) {
        let known = ["{ int }", "{ string(v: \"a\") }", "query Q { node { name } }", "mutation { setInt(v: 1) }", "{ nope", ""];
        let q = self.r.pick(&known).to_string();
        let good = sha256::hex(q.as_bytes());
        let hash = match self.r.below(12) {
            0 => "\"\"".to_string(),
            1 => "\"zzzz\"".into(),
            2 => format!("\"{}\"", good.to_uppercase()),
            3 => "123".into(),
            4 => "null".into(),
            5 => format!("\"{}\"", "a".repeat(*self.r.pick(&[63usize, 65, 100_000]))),
            6 => format!("[\"{good}\"]"),
            7 => format!("\"{}\"", sha256::hex(b"{ other }")),
            _ => format!("\"{good}\""),
        };
        let version = match self.r.below(14) {
            0 => "\"1\"".to_string(),
            1 => "1.0".into(),
            2 => "2".into(),
            3 => "-1".into(),
            4 => "2147483648".into(),
            5 => "9223372036854775808".into(),
            6 => "1e30".into(),
            7 => "null".into(),
            8 => self.digits(400),
            9 => "true".into(),
            _ => "1".into(),
        };
        let ext = match self.r.below(16) {
            0 => format!("{{\"persistedQuery\":{{\"sha256Hash\":{hash}}}}}"),
            1 => format!("{{\"persistedQuery\":{{\"version\":{version}}}}}"),
            2 => "{\"persistedQuery\":null}".into(),
            3 => "{\"persistedQuery\":[]}".into(),
            4 => "{\"persistedQuery\":\"x\"}".into(),
            5 => "{\"persistedQuery\":{}}".into(),
            6 => self.hostile_json(),
            7 => format!("{{\"other\":{},\"persistedQuery\":{{\"version\":{version},\"sha256Hash\":{hash},\"x\":{}}}}}", self.hostile_json(), self.hostile_json()),
            8 => format!("{{\"persistedQuery\":{{\"version\":{version},\"version\":1,\"sha256Hash\":{hash}}}}}"),
            9 => format!("{{{}:1}}", serde_json::to_string(&self.long_name()).unwrap()),
            _ => format!("{{\"persistedQuery\":{{\"version\":{version},\"sha256Hash\":{hash}}}}}"),
        };
        // query present (register) or absent (lookup)
        let q = if self.r.chance(2, 5) { String::new() } else { q };
        (q, ext)
    }

    fn gen_extensions(&mut self) -> Input {
        let (q, ext) = self.hostile_extensions();
        let mut i = self.base("extensions", "persisted-query");
        i.schema = if self.r.chance(5, 6) { "apq" } else { "plain" }.into();
        i.text = Some(q);
        i.json = Some(ext);
        i
    }

    fn gen_query_string(&mut self) -> Input {
        let mut i = self.base("query_string", "query-string");
        let (q, vars, fam) = if self.r.bool() {
            let (t, f, _, _) = self.any_query_text(false);
            (t, "{\"v0\":1}".to_string(), f)
        } else {
            self.hostile_vars(false)
        };
        // keep query strings of ordinary size most of the time
        let q = if q.len() > 20_000 && !self.r.chance(1, 10) { "{ int }".to_string() } else { q };
        let plus = self.r.bool();
        let mut parts = vec![format!("query={}", pct_encode(&q, plus))];
        if self.r.bool() {
            parts.push(format!("variables={}", pct_encode(&vars, plus)));
        }
        if self.r.chance(1, 3) {
            parts.push(format!("operationName={}", pct_encode("Op0", plus)));
        }
        if self.r.chance(1, 3) {
            let (_, e) = self.hostile_extensions();
            parts.push(format!("extensions={}", pct_encode(&e, plus)));
            i.schema = "apq".into();
        }
        let mut qs = parts.join("&");
        i.family = format!("qs+{fam}");
        match self.r.below(22) {
            0 => qs = String::new(),
            1 => qs = "&&&&".into(),
            2 => qs = "=".into(),
            3 => qs = "=&=&query".into(),
            4 => qs.push_str("&query=%7Bstring%7D"),
            5 => qs.push_str("&variables=%7B%7D&variables=[]"),
            6 => qs.push('%'),
            7 => qs.push_str("&variables=%G1"),
            8 => qs.push_str("&query=%0"),
            9 => qs.push_str("&query=%FF%FE"),
            10 => qs.push_str("&operationName=%00"),
            11 => qs = qs.replace('&', ";"),
            12 => qs.push_str("&variables=%7Bnot json"),
            13 => qs.push_str("&variables=%5B%5D"),
            14 => qs.push_str("&extensions=1"),
            15 => qs.push_str("&unknown=1&x[y]=2"),
            16 => qs = self.mutate_chars(&qs),
            17 => {
                let n = qs.len();
                let mut k = self.r.below(n + 1);
                while !qs.is_char_boundary(k) {
                    k -= 1;
                }
                qs.truncate(k);
            }
            18 => qs = format!("query={}", "%".repeat(*self.r.pick(&[3usize, 50_000]))),
            19 => qs = "query=é日本\u{0}".into(),
            _ => {}
        }
        i.text = Some(qs);
        i
    }

    /// A request as JSON object text; parts may be hostile.
    fn request_json_text(&mut self) -> (String, String) {
        let (q, vars, fam) = if self.r.chance(2, 5) {
            self.hostile_vars(false)
        } else {
            let (t, f, _, _) = self.any_query_text(false);
            (t, "{\"v0\":1}".to_string(), f)
        };
        let q = if q.len() > 50_000 && !self.r.chance(1, 8) { "{ int }".to_string() } else { q };
        let qj = serde_json::to_string(&q).unwrap();
        let mut parts = vec![format!("\"query\":{qj}")];
        if self.r.bool() {
            parts.push(format!("\"variables\":{vars}"));
        }
        if self.r.chance(1, 3) {
            parts.push("\"operationName\":\"Op0\"".into());
        }
        if self.r.chance(1, 4) {
            let (_, e) = self.hostile_extensions();
            parts.push(format!("\"extensions\":{e}"));
        }
        match self.r.below(26) {
            0 => parts.push("\"query\":\"{ string }\"".into()),
            1 => parts[0] = format!("\"query\":{}", self.hostile_json()),
            2 => parts.push(format!("\"operationName\":{}", self.hostile_json())),
            3 => parts.push(format!("\"unknown\":{}", self.hostile_json())),
            4 => parts.push(format!("\"variables\":{}", self.hostile_json())),
            5 => parts.push(format!("\"extensions\":{}", self.hostile_json())),
            6 => parts[0] = "\"query\":\"\\ud800\"".into(),
            7 => {
                parts.remove(0);
            }
            _ => {}
        }
        if self.r.chance(1, 6) {
            let mut p = std::mem::take(&mut parts);
            self.r.shuffle(&mut p);
            parts = p;
        }
        (format!("{{{}}}", parts.join(",")), fam)
    }

    fn mutate_bytes(&mut self, b: &mut Vec<u8>) {
        let edits = 1 + self.r.below(3);
        for _ in 0..edits {
            let n = b.len();
            let i = if n == 0 { 0 } else { self.r.below(n + 1) };
            match self.r.below(7) {
                0 => b.truncate(i),
                1 => b.insert(i, *self.r.pick(&[0xFFu8, 0xFE, 0xC0, 0x80, 0xED, 0xA0, 0xF8, 0x00, 0xC3])),
                2 => b.insert(i, self.r.below(256) as u8),
                3 if i < n => {
                    b.remove(i);
                }
                4 if i < n => b[i] ^= 1 << self.r.below(8),
                5 if i < n => {
                    let j = (i + 1 + self.r.below(16)).min(n);
                    b.drain(i..j);
                }
                6 => {
                    for (k, x) in [0xED, 0xA0, 0x80].into_iter().enumerate() {
                        b.insert(i + k, x); // UTF-8 encoded surrogate
                    }
                }
                _ => {}
            }
        }
    }

    fn gen_body(&mut self) -> Input {
        let mut i = self.base("body", "json-body");
        i.batch = self.r.bool();
        let (one, fam) = self.request_json_text();
        i.family = format!("body+{fam}");
        let mut text = if self.r.chance(1, 3) {
            let n = 1 + self.r.below(4);
            let mut v = vec![one];
            for _ in 1..n {
                v.push(self.request_json_text().0);
            }
            i.batch = i.batch || self.r.chance(2, 3);
            format!("[{}]", v.join(","))
        } else {
            one
        };
        match self.r.below(44) {
            0 => text = String::new(),
            1 => text = "[]".into(),
            2 => text = "null".into(),
            3 => text = self.hostile_json(),
            4 => text = format!("\u{FEFF}{text}"),
            5 => text = " \n\t".repeat(*self.r.pick(&[1usize, 200_000])),
            6 => text.push_str("garbage"),
            7 => text.push_str(&text.clone()),
            8 => text = self.json_nest("[", "]", "{\"query\":\"{int}\"}").0,
            9 => text = format!("[{}]", "{\"query\":\"{ int }\"},".repeat(*self.r.pick(&[3usize, 2_000])).trim_end_matches(',')),
            10 => text = "[{\"query\":\"{int}\"},5]".into(),
            11 => text = "{\"query\":\"{int}\"".into(),
            _ => {}
        }
        let mut bytes = text.into_bytes();
        if self.r.chance(1, 7) {
            self.mutate_bytes(&mut bytes);
        }
        i.body_b64 = Some(b64_encode(&bytes));
        i.content_type = match self.r.below(10) {
            0 => None,
            1..=6 => Some("application/json".into()),
            _ => Some(self.r.pick(&CONTENT_TYPES).to_string()),
        };
        if self.r.chance(1, 6) {
            i.schema = "apq".into();
        }
        i
    }

    fn gen_multipart(&mut self) -> Input {
        let mut i = self.base("multipart", "multipart");
        let boundary = match self.r.below(8) {
            0 => "x".to_string(),
            1 => "----WebKitFormBoundary7MA4YWxkTrZu0gW".into(),
            2 => "a".repeat(70),
            _ => format!("b{}", self.r.below(1000)),
        };
        let batch = self.r.chance(1, 4);
        // operations
        let mut doc = self.valid_doc(1, true);
        let (ops_text, paths): (String, Vec<String>) = if self.r.chance(1, 4) {
            let (t, v) = self.upload_vars_doc();
            let p = vec!["variables.f".to_string(), "variables.f.0".into(), "variables.i.file".into(), "variables.g".into()];
            (format!("{{\"query\":{},\"variables\":{v}}}", serde_json::to_string(&t).unwrap()), p)
        } else {
            let vars = doc.variables.take().unwrap_or_else(|| "{}".into());
            // lists of uploads need a slot to point at
            let vars = vars.replace("[]", "[null,null]");
            (
                format!("{{\"query\":{},\"variables\":{vars},\"operationName\":\"Op0\"}}", serde_json::to_string(&doc.text).unwrap()),
                doc.upload_paths.clone(),
            )
        };
        let ops_text = if batch { format!("[{ops_text},{{\"query\":\"{{ int }}\"}}]") } else { ops_text };
        // files and map
        let nfiles = match self.r.below(10) {
            0 => 0,
            1 => 12,
            _ => 1 + self.r.below(3),
        };
        let hostile_paths = [
            "variables..", "variables.", "variables", "", ".", "variables.9999999999999999999", "variables.f.9999999999999999999",
            "variables.f.-1", "variables.f.4294967296", "variables.f.4294967295", "0.variables.f", "x.variables.f", "99.variables.f",
            "18446744073709551616.variables.f", "variables.f.deeper.path", "variables.nope", "variables.v0.0.0", "variables.\u{0}",
            "Variables.f", "variables.i.extra.0", "variables.i.title", "1.variables", "0.", "0",
        ];
        let mut map_entries = vec![];
        for k in 0..nfiles {
            let mut ps: Vec<String> = vec![];
            let np = 1 + self.r.below(2);
            for _ in 0..np {
                let p = if !paths.is_empty() && self.r.chance(4, 5) {
                    let p = self.r.pick(&paths).clone();
                    if batch { format!("0.{p}") } else { p }
                } else if self.r.chance(1, 8) {
                    format!("variables.{}", self.long_name())
                } else {
                    self.r.pick(&hostile_paths).to_string()
                };
                ps.push(serde_json::to_string(&p).unwrap());
            }
            map_entries.push(format!("\"{k}\":[{}]", ps.join(",")));
        }
        let mut map_text = format!("{{{}}}", map_entries.join(","));
        match self.r.below(36) {
            0 => map_text = "{\"5\":[\"variables.f\"]}".into(),
            1 => map_text = "{\"0\":\"variables.f\"}".into(),
            2 => map_text = "[]".into(),
            3 => map_text = "{\"0\":[5]}".into(),
            4 => map_text = self.hostile_json(),
            5 => map_text = "{\"0\":[]}".into(),
            6 => map_text = format!("{{\"0\":[{}]}}", "\"variables.f\",".repeat(3000).trim_end_matches(',')),
            _ => {}
        }
        let part_cts: Vec<&str> = if self.feat_part_ct {
            vec!["application/json", "text/plain", "multipart/form-data; boundary=x", "multipart/mixed", "application/octet-stream", "garbage", "image/png", ""]
        } else {
            vec!["application/json", "text/plain", "application/octet-stream", "garbage", "image/png", "", "message/rfc822", "x/y"]
        };
        let mut body: Vec<u8> = vec![];
        let push_part = |body: &mut Vec<u8>, g: &mut Gen, name: Option<&str>, filename: Option<&str>, ct: Option<&str>, data: &[u8]| {
            body.extend_from_slice(format!("--{boundary}\r\n").as_bytes());
            let mut cd = String::from("Content-Disposition: form-data");
            if let Some(n) = name {
                cd.push_str(&format!("; name=\"{n}\""));
            }
            if let Some(f) = filename {
                cd.push_str(&format!("; filename=\"{f}\""));
            }
            body.extend_from_slice(cd.as_bytes());
            body.extend_from_slice(b"\r\n");
            if let Some(ct) = ct {
                body.extend_from_slice(format!("Content-Type: {ct}\r\n").as_bytes());
            }
            if g.r.chance(1, 30) {
                body.extend_from_slice(format!("X-Long: {}\r\n", "h".repeat(*g.r.pick(&[100usize, 20_000]))).as_bytes());
            }
            body.extend_from_slice(b"\r\n");
            body.extend_from_slice(data);
            body.extend_from_slice(b"\r\n");
        };
        let order = self.r.below(6); // mostly operations, map, files; sometimes shuffled
        let skip_ops = self.r.chance(1, 20);
        let skip_map = self.r.chance(1, 20);
        let ops_ct = if self.r.chance(1, 6) { Some(*self.r.pick(&part_cts)) } else { None };
        let map_ct = if self.r.chance(1, 10) { Some(*self.r.pick(&part_cts)) } else { None };
        let mut parts: Vec<(u8, usize)> = vec![];
        if !skip_ops {
            parts.push((0, 0));
            if self.r.chance(1, 25) {
                parts.push((0, 0));
            }
        }
        if !skip_map {
            parts.push((1, 0));
            if self.r.chance(1, 25) {
                parts.push((1, 0));
            }
        }
        for k in 0..nfiles {
            if !self.r.chance(1, 30) {
                parts.push((2, k));
            }
        }
        if order == 0 {
            self.r.shuffle(&mut parts);
        }
        let big = self.r.chance(1, 12);
        for (kind, k) in parts {
            match kind {
                0 => push_part(&mut body, self, Some("operations"), None, ops_ct, ops_text.as_bytes()),
                1 => push_part(&mut body, self, Some("map"), None, map_ct, map_text.as_bytes()),
                _ => {
                    let size = if big { 300_000 } else { self.r.below(64) };
                    let data: Vec<u8> = (0..size).map(|x| (x * 31 + k) as u8).collect();
                    let name = match self.r.below(36) {
                        0 => None,
                        1 => Some("operations".to_string()),
                        2 => Some("".to_string()),
                        _ => Some(k.to_string()),
                    };
                    let filename = match self.r.below(24) {
                        0 => None,
                        1 => Some("../../etc/passwd".to_string()),
                        2 => Some("a\u{0}b".to_string()),
                        3 => Some(String::new()),
                        _ => Some(format!("f{k}.txt")),
                    };
                    let ct = if self.r.bool() { Some(*self.r.pick(&part_cts)) } else { None };
                    push_part(&mut body, self, name.as_deref(), filename.as_deref(), ct, &data);
                }
            }
        }
        body.extend_from_slice(format!("--{boundary}--\r\n").as_bytes());
        let mut header_boundary = boundary.clone();
        match self.r.below(36) {
            0 => header_boundary = "wrong".into(),
            1 => header_boundary = String::new(),
            2 => {
                let n = body.len();
                body.truncate(self.r.below(n + 1));
            }
            3 => self.mutate_bytes(&mut body),
            4 => {
                // drop the final boundary
                let n = body.len() - (boundary.len() + 6);
                body.truncate(n);
            }
            5 => body = body.iter().filter(|&&b| b != b'\r').cloned().collect(),
            6 => body.clear(),
            _ => {}
        }
        i.content_type = Some(match self.r.below(28) {
            0 => "multipart/form-data".to_string(),
            1 => format!("multipart/form-data; boundary=\"{header_boundary}\""),
            2 => format!("multipart/mixed; boundary={header_boundary}"),
            3 => format!("multipart/form-data; boundary={header_boundary}; boundary=other"),
            _ => format!("multipart/form-data; boundary={header_boundary}"),
        });
        if big || self.r.chance(1, 10) {
            i.limits = Some(*self.r.pick(&[(1024usize, 2usize), (10, 1), (0, 0), (1_000_000, 100), (100, 1000)]));
        }
        i.body_b64 = Some(b64_encode(&body));
        i.batch = true;
        i
    }

    fn ws_frame(&mut self, proto_new: bool, id: &str) -> String {
        let (start, stop) = if proto_new != self.r.chance(1, 8) { ("subscribe", "complete") } else { ("start", "stop") };
        let idj = serde_json::to_string(id).unwrap();
        match self.r.weighted(&[30, 8, 6, 6, 6, 3, 41]) {
            0 => {
                // subscription / query / mutation start
                let payload = if self.r.chance(1, 3) {
                    match self.r.below(4) {
                        0 => "{\"query\":\"subscription { ticks(n: 3) }\"}".to_string(),
                        1 => "{\"query\":\"subscription { nodes { name child { name } } }\"}".into(),
                        2 => "{\"query\":\"subscription S($v: Rec) { echo(v: $v, times: 2) }\",\"variables\":{\"v\":{\"name\":\"n\"}}}".into(),
                        _ => "{\"query\":\"subscription { failing }\"}".into(),
                    }
                } else {
                    self.request_json_text().0
                };
                format!("{{\"type\":\"{start}\",\"id\":{idj},\"payload\":{payload}}}")
            }
            1 => format!("{{\"type\":\"{stop}\",\"id\":{idj}}}"),
            2 => format!("{{\"type\":\"connection_init\",\"payload\":{}}}", self.hostile_json()),
            3 => format!("{{\"type\":\"ping\",\"payload\":{}}}", self.hostile_json()),
            4 => format!("{{\"type\":\"pong\",\"payload\":{}}}", self.hostile_json()),
            5 => "{\"type\":\"connection_terminate\"}".into(),
            _ => match self.r.below(22) {
                0 => "not json".into(),
                1 => String::new(),
                2 => "{\"type\":\"unknown\"}".into(),
                3 => "{\"type\":5}".into(),
                4 => "{}".into(),
                5 => format!("{{\"type\":\"{start}\",\"id\":5,\"payload\":{{\"query\":\"{{int}}\"}}}}"),
                6 => format!("{{\"type\":\"{start}\",\"id\":null,\"payload\":{{\"query\":\"{{int}}\"}}}}"),
                7 => format!("{{\"type\":\"{start}\",\"payload\":{{\"query\":\"{{int}}\"}}}}"),
                8 => format!("{{\"type\":\"{start}\",\"id\":{idj},\"payload\":\"x\"}}"),
                9 => format!("{{\"type\":\"{start}\",\"id\":{idj},\"payload\":[]}}"),
                10 => format!("{{\"type\":\"{start}\",\"id\":{idj}}}"),
                11 => format!("{{\"type\":\"{start}\",\"id\":{},\"payload\":{{\"query\":\"subscription {{ ticks }}\"}}}}", serde_json::to_string(&self.long_name()).unwrap()),
                12 => format!("{{\"type\":\"connection_init\",\"payload\":{}}}", self.json_nest("[", "]", "1").0),
                13 => format!("{{\"type\":\"{start}\",\"id\":{idj},\"payload\":{{\"query\":\"{{int}}\",\"variables\":{}}}}}", self.json_nest("{\"a\":", "}", "1").0),
                14 => format!("{{\"id\":{idj},\"payload\":{{\"query\":\"{{int}}\"}},\"type\":\"{start}\"}}"),
                15 => format!("{{\"type\":\"{start}\",\"type\":\"{stop}\",\"id\":{idj}}}"),
                16 => "[{\"type\":\"connection_init\"}]".into(),
                17 => "{\"type\":\"connection_init\",\"payload\":null}".into(),
                18 => format!("{{\"type\":\"{stop}\",\"id\":{}}}", self.hostile_json()),
                19 => "{\"type\":\"CONNECTION_INIT\"}".into(),
                20 => "{\"type\":\"connection_init\"".into(),
                _ => self.hostile_json(),
            },
        }
    }

    fn gen_ws(&mut self) -> Input {
        let mut i = self.base("ws", "ws");
        let proto_new = self.r.bool();
        i.protocol = Some(if proto_new { "graphql-transport-ws" } else { "graphql-ws" }.into());
        let mut frames: Vec<Vec<u8>> = vec![];
        // mostly a proper handshake first, so that later frames reach execution
        if !self.r.chance(1, 6) {
            frames.push(b"{\"type\":\"connection_init\",\"payload\":{\"token\":\"t\"}}".to_vec());
        }
        let n = 1 + self.r.below(8);
        let ids = ["1", "2", "", "1", "é", "\u{0}"];
        for _ in 0..n {
            let id = *self.r.pick(&ids);
            let mut f = self.ws_frame(proto_new, id).into_bytes();
            if self.r.chance(1, 12) {
                self.mutate_bytes(&mut f);
            }
            frames.push(f);
        }
        if self.r.chance(1, 10) {
            frames.push(b"{\"type\":\"connection_init\"}".to_vec()); // second init
        }
        i.frames_b64 = frames.iter().map(|f| b64_encode(f)).collect();
        if self.r.chance(1, 6) {
            i.schema = "apq".into();
        }
        i
    }

    /// One input of the workload.
    pub fn input(&mut self) -> Input {
        match self.r.weighted(&[30, 6, 16, 6, 8, 12, 12, 10]) {
            0 => self.gen_query(),
            1 => self.gen_opname(),
            2 => self.gen_variables(),
            3 => self.gen_extensions(),
            4 => self.gen_query_string(),
            5 => self.gen_body(),
            6 => self.gen_multipart(),
            _ => self.gen_ws(),
        }
    }
}
