// Part 2 + 3 of the generator (included into generate.rs): token / character
// mutations, special hostile literals, nesting families.

pub const NUMBERS: [&str; 30] = [
    "1e99999",
    "-1e99999",
    "1e-99999",
    "1E400",
    "-0",
    "-0.0",
    "1.",
    ".5",
    "0x10",
    "01",
    "1e",
    "1e+",
    "-",
    "+1",
    "9223372036854775807",
    "9223372036854775808",
    "18446744073709551615",
    "18446744073709551616",
    "-9223372036854775808",
    "-9223372036854775809",
    "1.7976931348623157e308",
    "1.7976931348623159e308",
    "4.9e-324",
    "2147483648",
    "-2147483649",
    "1e309",
    "0e0",
    "1_000",
    "NaN",
    "Infinity",
];

pub const STRINGS: [&str; 30] = [
    "\"\\uD800\"",
    "\"\\uDC00\"",
    "\"\\uD800\\uDC00\"",
    "\"\\uDBFF\\uDFFF\"",
    "\"\\uD800\\u0041\"",
    "\"\\uZZZZ\"",
    "\"\\u12\"",
    "\"\\u",
    "\"\\",
    "\"\\x41\"",
    "\"abc",
    "\"\"\"abc",
    "\"\"\"\\\"\"\"",
    "\"\"\"\"\"\"",
    "\"\"\"\"\"\"\"",
    "\"\\u0000\"",
    "\"a\u{0}b\"",
    "\"line\nbreak\"",
    "\"\\uFFFF\"",
    "\"\\uFFFE\"",
    "\"\u{FEFF}\"",
    "\"\\u{1F600}\"",
    "\"\u{1F600}\"",
    "\"\\/\\b\\f\\n\\r\\t\"",
    "\"\"\"\n    indented\n      block\n   \"\"\"",
    "\"\"\"\\u0041 \\n raw\"\"\"",
    "\"\u{2028}\u{2029}\"",
    "\"\\ud83d\\ude00\"",
    "'single'",
    "\"\"",
];

const TOKENS: [&str; 48] = [
    "{", "}", "(", ")", "[", "]", ":", "=", "!", "$", "@", "...", ",", "#", "\"", "\"\"\"", "\\", "|", "&", "on",
    "fragment", "query", "mutation", "subscription", "true", "false", "null", "$v0", "Int", "[Int!]!", "@skip(if: true)",
    "@include(if: $b)", "__typename", "__schema", "__type", "1e999", "-0", "\"\\uD800\"", "...F0", "... on Node",
    "node", "child", "name", "v:", "RED", "\u{FEFF}", "\u{0}", "extend",
];

const ODD_CHARS: [char; 24] = [
    '\u{0}', '\u{FEFF}', '\u{2028}', '\u{2029}', '"', '\\', '{', '}', '[', ']', '(', ')', '#', '$', '@', '\r', '\n',
    '\t', '\u{7f}', '\u{85}', '\u{a0}', '\u{FFFF}', '\u{10FFFF}', '\u{1F600}',
];

/// Split GraphQL text into coarse tokens (strings and comments kept whole).
pub fn lex(text: &str) -> Vec<String> {
    let cs: Vec<char> = text.chars().collect();
    let mut out = vec![];
    let mut i = 0;
    while i < cs.len() {
        let c = cs[i];
        if c.is_whitespace() || c == ',' {
            i += 1;
        } else if c == '"' {
            let block = i + 2 < cs.len() && cs[i + 1] == '"' && cs[i + 2] == '"';
            let mut j = if block { i + 3 } else { i + 1 };
            loop {
                if j >= cs.len() {
                    break;
                }
                if cs[j] == '\\' {
                    j += 2;
                    continue;
                }
                if block {
                    if j + 2 < cs.len() + 0 && cs[j] == '"' && cs.get(j + 1) == Some(&'"') && cs.get(j + 2) == Some(&'"') {
                        j += 3;
                        break;
                    }
                } else if cs[j] == '"' || cs[j] == '\n' {
                    j += 1;
                    break;
                }
                j += 1;
            }
            let j = j.min(cs.len());
            out.push(cs[i..j].iter().collect());
            i = j;
        } else if c == '#' {
            let mut j = i;
            while j < cs.len() && cs[j] != '\n' {
                j += 1;
            }
            out.push(cs[i..j].iter().collect());
            i = j;
        } else if c == '.' && cs.get(i + 1) == Some(&'.') && cs.get(i + 2) == Some(&'.') {
            out.push("...".into());
            i += 3;
        } else if c.is_alphanumeric() || c == '_' || c == '-' || c == '.' || c == '+' {
            let mut j = i;
            while j < cs.len() && (cs[j].is_alphanumeric() || matches!(cs[j], '_' | '-' | '.' | '+')) {
                if cs[j] == '.' && cs.get(j + 1) == Some(&'.') {
                    break;
                }
                j += 1;
            }
            let j = j.max(i + 1);
            out.push(cs[i..j].iter().collect());
            i = j;
        } else {
            out.push(c.to_string());
            i += 1;
        }
    }
    out
}

impl Gen {
    pub fn long_name(&mut self) -> String {
        let n = *self.r.pick(&[300usize, 5_000, 70_000, 200_000]);
        let n = if !self.thorough && n > 70_000 { 70_000 } else { n };
        let c = *self.r.pick(&['a', '_', 'Z', '9']);
        let mut s = String::from("n");
        s.extend(std::iter::repeat(c).take(n));
        s
    }

    pub fn digits(&mut self, n: usize) -> String {
        let mut s = String::new();
        s.push((b'1' + self.r.below(9) as u8) as char);
        for _ in 1..n {
            s.push((b'0' + self.r.below(10) as u8) as char);
        }
        s
    }

    pub fn hostile_number(&mut self) -> String {
        match self.r.below(8) {
            0 => self.digits(400),
            1 => format!("-{}", self.digits(400)),
            2 => format!("0.{}1", "0".repeat(400)),
            3 => format!("{}.{}e{}", self.digits(30), self.digits(30), self.digits(6)),
            4 => {
                let n = 1 + self.r.below(12);
                format!("1e{}", self.digits(n))
            }
            _ => self.r.pick(&NUMBERS).to_string(),
        }
    }

    pub fn hostile_string_literal(&mut self) -> String {
        match self.r.below(10) {
            0 => format!("\"{}\"", "x".repeat(*self.r.pick(&[1000usize, 100_000]))),
            1 => format!("\"{}\"", "\\u0041".repeat(2000)),
            2 => format!("\"\\u{:04X}\"", self.r.below(0x10000)),
            3 => format!("\"\\u{:04x}\\u{:04x}\"", 0xD800 + self.r.below(0x800), 0xD800 + self.r.below(0x800)),
            4 => {
                let n = self.r.below(6);
                format!("\"\\u{}", &"D8AZ0g"[..n])
            }
            _ => self.r.pick(&STRINGS).to_string(),
        }
    }

    /// `{ field(arg: <lit>) }`-style documents around one hostile literal.
    pub fn special_doc(&mut self) -> String {
        let lit = if self.r.bool() { self.hostile_number() } else { self.hostile_string_literal() };
        let fields = ["int", "long", "ulong", "small", "byte", "float", "float32", "string", "ch", "id", "color", "any", "json", "mu", "boolean"];
        let f = *self.r.pick(&fields);
        match self.r.below(12) {
            0 => format!("{{ list(v: [{lit}, {lit}]) }}"),
            1 => format!("{{ nodes(n: {lit}) {{ name }} }}"),
            2 if self.defaults_ok() => format!("query($a: Int = {lit}) {{ int(v: $a) }}"),
            3 => format!("{{ rec(v: {{name: {lit}, n: {lit}, f: {lit}}}) }}"),
            4 => format!("{{ int @skip(if: {lit}) }}"),
            5 => format!("{{ choice(v: {{i: {lit}}}) }}"),
            6 => format!("subscription {{ ticks(n: {lit}) }}"),
            7 => format!("mutation {{ setInt(v: {lit}) }}"),
            _ => format!("{{ {f}(v: {lit}) }}"),
        }
    }

    /// Documents with one enormous name somewhere, floods of punctuation, BOMs, comments.
    /// Fragment cycles: a fragment that (directly, through other fragments, through a field's selection set or
    /// through an inline fragment) spreads itself — reachable from an operation or not, in every operation kind.
    /// Validation has to reject these without recursing forever.
    pub fn fragment_cycle_doc(&mut self) -> String {
        let len = 1 + self.r.below(4);
        let on_node = self.r.bool();
        let ty = if on_node { "Node" } else { "Query" };
        let leaf = if on_node { "name" } else { "int" };
        let mut frags = vec![];
        for i in 0..len {
            let next = format!("C{}", (i + 1) % len);
            let body = match self.r.below(5) {
                0 => format!("{leaf} ...{next}"),
                1 => format!("...{next} {leaf}"),
                2 => format!("... on {ty} {{ ...{next} }} {leaf}"),
                3 if on_node => format!("child {{ ...{next} }}"),
                3 => format!("{leaf} ... {{ ... {{ ...{next} }} }}"),
                _ if on_node => format!("children(n: 1) {{ {leaf} ...{next} }} thing {{ __typename }}"),
                _ => format!("...{next} ...{next}"),
            };
            frags.push(format!("fragment C{i} on {ty} {{ {body} }}"));
        }
        let frags = frags.join(" ");
        let spread = if on_node { "node { ...C0 }" } else { "...C0" };
        match self.r.below(8) {
            // the cycle is not reachable from the operation
            0 => format!("{{ int }} {frags}"),
            1 if !on_node => format!("mutation {{ setInt(v: 1) }} {frags}"),
            2 => format!("{frags} {{ {spread} }}"),
            3 if on_node => format!("subscription {{ nodes {{ ...C0 }} }} {frags}"),
            4 => format!("query A {{ int }} query B {{ {spread} }} {frags}"),
            5 => format!("{{ ... on Query {{ {spread} }} }} {frags}"),
            _ => format!("{{ {spread} }} {frags}"),
        }
    }

    /// Block strings whose lines start with white space of every kind (ASCII blanks of different lengths mixed with
    /// multi-byte Unicode spaces): the common-indent computation slices lines at byte offsets.
    pub fn block_string_indent_doc(&mut self) -> String {
        const SPACES: [&str; 12] = [" ", "  ", "\t", "   ", "\u{a0}", "\u{2003}", "\u{3000}", "\u{feff}", "\u{85}", "\u{2028}", "\u{1680}", "\u{202f}"];
        const WORDS: [&str; 6] = ["x", "y z", "é", "\\\\", "\\\"", "\u{a0}x"];
        let n = 2 + self.r.below(5);
        let mut lines = vec![];
        for _ in 0..n {
            let mut l = String::new();
            for _ in 0..self.r.below(4) {
                l.push_str(*self.r.pick(&SPACES[..]));
            }
            if !self.r.chance(1, 5) {
                l.push_str(*self.r.pick(&WORDS[..]));
            }
            lines.push(l);
        }
        let sep = *self.r.pick(&["\n", "\r\n", "\r"]);
        let first = if self.r.bool() { String::new() } else { lines.remove(0) };
        let body = format!("{first}{sep}{}{}", lines.join(sep), if self.r.bool() { sep } else { "" });
        match self.r.below(4) {
            0 => format!("{{ string(v: \"\"\"{body}\"\"\") }}"),
            1 => format!("{{ strings(v: [\"\"\"{body}\"\"\", \"\"\"{body}\"\"\"]) }}"),
            2 => format!("query($s: String = \"\"\"{body}\"\"\") {{ string(v: $s) }}"),
            _ => format!("{{ rec(v: {{name: \"\"\"{body}\"\"\", n: 1, f: 1.5}}) }}"),
        }
    }

    pub fn odd_shape_doc(&mut self) -> String {
        match self.r.below(30) {
            22..=25 => self.fragment_cycle_doc(),
            26..=28 => self.block_string_indent_doc(),
            0 => format!("{{ {} }}", self.long_name()),
            1 => format!("{{ {}: int }}", self.long_name()),
            2 => format!("{{ int({}: 1) }}", self.long_name()),
            3 => format!("query(${}: Int) {{ int }}", self.long_name()),
            4 => format!("query($v: {}) {{ int(v: $v) }}", self.long_name()),
            5 => format!("{{ int @{} }}", self.long_name()),
            6 => format!("{{ node {{ ...{} }} }}", self.long_name()),
            7 => format!("query {} {{ int }}", self.long_name()),
            8 => format!("{{ color(v: {}) }}", self.long_name()),
            9 => format!("\u{FEFF}{{ int }}"),
            10 => "\u{FEFF}\u{FEFF}{ int \u{FEFF}}\u{FEFF}".to_string(),
            11 => format!("{{ int }} #{}", "\u{0}#\u{FEFF}".repeat(50)),
            12 => format!("{}{{ int }}", ",".repeat(*self.r.pick(&[10usize, 100_000]))),
            13 => format!("{{ int{} }}", " \t\n\r,".repeat(*self.r.pick(&[10usize, 40_000]))),
            14 => {
                let n = *self.r.pick(&[10usize, 500, 4_000]);
                let items: Vec<String> = (0..n).map(|i| format!("a{i}: int")).collect();
                format!("{{ {} }}", items.join(" "))
            }
            15 => format!("{{ list(v: [{}]) }}", "1,".repeat(*self.r.pick(&[10usize, 20_000]))),
            16 => format!("{{ int{} }}", " @skip(if: false)".repeat(*self.r.pick(&[10usize, 2_000]))),
            17 => {
                let n = *self.r.pick(&[10usize, 3_000]);
                (0..n).map(|i| format!("query Q{i} {{ int }}")).collect::<Vec<_>>().join(" ")
            }
            18 => {
                let n = *self.r.pick(&[10usize, 3_000]);
                let fr: Vec<String> = (0..n).map(|i| format!("fragment U{i} on Node {{ name }}")).collect();
                format!("{{ node {{ name }} }} {}", fr.join(" "))
            }
            19 => {
                let n = *self.r.pick(&[10usize, 2_000]);
                let ok = self.defaults_ok();
                let defs: Vec<String> = (0..n).map(|i| if ok { format!("$v{i}: Int = {i}") } else { format!("$v{i}: Int") }).collect();
                format!("query({}) {{ int(v: $v0) }}", defs.join(","))
            }
            20 => {
                let n = *self.r.pick(&[10usize, 5_000]);
                let fs: Vec<String> = (0..n).map(|i| format!("k{i}: 1")).collect();
                format!("{{ any(v: {{{}}}) rec(v: {{name: \"x\", name: \"y\", {}}}) }}", fs.join(","), fs.join(","))
            }
            _ => {
                // NUL and other control bytes in every lexical position
                let c = *self.r.pick(&ODD_CHARS);
                format!("{c}{{{c}int{c}(v{c}:{c}1{c}){c}}}{c}")
            }
        }
    }

    pub fn mutate_tokens(&mut self, text: &str) -> String {
        let mut t = lex(text);
        if t.is_empty() {
            return self.r.pick(&TOKENS).to_string();
        }
        let edits = 1 + self.r.below(4);
        for _ in 0..edits {
            if t.is_empty() {
                break;
            }
            let i = self.r.below(t.len());
            match self.r.below(7) {
                0 => {
                    t.remove(i);
                }
                1 => {
                    let x = t[i].clone();
                    t.insert(i, x);
                }
                2 => {
                    let j = self.r.below(t.len());
                    t.swap(i, j);
                }
                3 => t[i] = self.r.pick(&TOKENS).to_string(),
                4 => t.insert(i, self.r.pick(&TOKENS).to_string()),
                5 => t[i] = if self.r.bool() { self.hostile_number() } else { self.hostile_string_literal() },
                _ => {
                    let j = self.r.below(t.len());
                    let (a, b) = (i.min(j), i.max(j));
                    t.drain(a..b.min(a + 6));
                }
            }
        }
        t.join(" ")
    }

    pub fn mutate_chars(&mut self, text: &str) -> String {
        let mut cs: Vec<char> = text.chars().collect();
        let edits = 1 + self.r.below(4);
        for _ in 0..edits {
            let n = cs.len();
            let i = if n == 0 { 0 } else { self.r.below(n + 1) };
            match self.r.below(6) {
                0 => cs.truncate(i),
                1 => cs.insert(i, *self.r.pick(&ODD_CHARS)),
                2 => cs.insert(i, char::from_u32(self.r.below(0x80) as u32).unwrap()),
                3 => {
                    let c = loop {
                        if let Some(c) = char::from_u32(self.r.below(0x110000) as u32) {
                            break c;
                        }
                    };
                    cs.insert(i, c);
                }
                4 if i < n => {
                    cs.remove(i);
                }
                _ if i < n => {
                    let j = (i + 1 + self.r.below(12)).min(n);
                    let seg: Vec<char> = cs[i..j].to_vec();
                    for (k, c) in seg.into_iter().enumerate() {
                        cs.insert(i + k, c);
                    }
                }
                _ => {}
            }
        }
        cs.into_iter().collect()
    }

    /// Nesting depth by tier and feature. Depths over 1000 only with the feature on.
    pub fn pick_depth(&mut self) -> u64 {
        let mut ds: Vec<(u64, u32)> = vec![(10, 30), (100, 30), (1000, 25)];
        if self.feat_deep {
            ds.push((10_000, 8));
            ds.push((100_000, 5));
            if self.thorough {
                ds.push((1_000_000, 2));
            }
        }
        let w: Vec<u32> = ds.iter().map(|d| d.1).collect();
        let base = ds[self.r.weighted(&w)].0;
        // around the decade too, so thresholds between decades are met
        match self.r.below(4) {
            0 if base >= 100 => {
                let cap = if self.feat_deep { base } else { base.min(1000) };
                (base / 10 + self.r.below((base - base / 10) as usize) as u64).min(cap)
            }
            _ => base,
        }
    }

    pub const CONSTRUCTS: [&'static str; 16] = [
        "list_value",
        "list_value_open",
        "object_value",
        "object_value_open",
        "selection_set",
        "selection_set_open",
        "inline_fragment",
        "inline_fragment_typed",
        "paren_open",
        "list_type",
        "list_type_open",
        "const_list_default",
        "const_object_default",
        "directive_arg_list",
        "fragment_chain",
        "fragment_chain_nested",
    ];

    /// Text of nesting construct `c` at depth `d`.
    pub fn nest_text(c: &str, d: usize) -> String {
        let rep = |s: &str, n: usize| s.repeat(n);
        match c {
            "list_value" => format!("{{ any(v: {}1{}) }}", rep("[", d), rep("]", d)),
            "list_value_open" => format!("{{ any(v: {}", rep("[", d)),
            "object_value" => format!("{{ any(v: {}1{}) }}", rep("{a:", d), rep("}", d)),
            "object_value_open" => format!("{{ any(v: {}", rep("{a:", d)),
            "selection_set" => format!("{{ node {}{{ name }}{} }}", rep("{ child ", d), rep(" }", d)),
            "selection_set_open" => rep("{a", d),
            "inline_fragment" => format!("{{ node {{ {}name{} }} }}", rep("... { ", d), rep(" }", d)),
            "inline_fragment_typed" => format!("{{ node {{ {}name{} }} }}", rep("... on Node { ", d), rep(" }", d)),
            "paren_open" => format!("{{ int(v: {}", rep("(", d)),
            "list_type" => format!("query($v: {}Int{}) {{ int }}", rep("[", d), rep("]", d)),
            "list_type_open" => format!("query($v: {}", rep("[", d)),
            "const_list_default" => format!("query($v: _Any = {}1{}) {{ any(v: $v) }}", rep("[", d), rep("]", d)),
            "const_object_default" => format!("query($v: _Any = {}1{}) {{ any(v: $v) }}", rep("{a:", d), rep("}", d)),
            "directive_arg_list" => format!("{{ int @skip(if: {}true{}) }}", rep("[", d), rep("]", d)),
            "fragment_chain" => {
                // linear: F0 -> F1 -> ... each spread exactly once
                let mut s = String::from("{ node { ...F0 } }");
                for i in 0..d {
                    s.push_str(&format!(" fragment F{i} on Node {{ ...F{} }}", i + 1));
                }
                s.push_str(&format!(" fragment F{d} on Node {{ name }}"));
                s
            }
            "fragment_chain_nested" => {
                let mut s = String::from("{ node { ...F0 } }");
                for i in 0..d {
                    s.push_str(&format!(" fragment F{i} on Node {{ child {{ ...F{} }} }}", i + 1));
                }
                s.push_str(&format!(" fragment F{d} on Node {{ name }}"));
                s
            }
            _ => panic!("harness: unknown construct {c}"),
        }
    }

    pub fn nest_doc(&mut self) -> (String, String, u64) {
        let mut c = *self.r.pick(&Self::CONSTRUCTS);
        if !self.defaults_ok() && c.ends_with("_default") {
            c = "list_value";
        }
        let mut d = self.pick_depth();
        if c.starts_with("fragment_chain") {
            // ~40 bytes per link: keep the text size comparable to the other constructs
            d = d.min(if self.thorough { 20_000 } else { 5_000 });
        }
        (Self::nest_text(c, d as usize), c.to_string(), d)
    }

    /// Any query text: valid, mutated, special, odd-shaped, (shallowly) nested.
    /// Returns (text, family, nest, hostile).
    /// `pure`: the caller hands the text to the library as it is (no transport-level mutation).
    pub fn any_query_text(&mut self, pure: bool) -> (String, String, Option<(String, u64)>, bool) {
        let branch = self.r.weighted(&[14, 26, 22, 18, 8, 5, 7, if self.feat_vardef { 2 } else { 0 }]);
        self.safe_ctx = pure && matches!(branch, 0 | 3 | 4 | 6);
        let out = self.any_query_text_branch(branch);
        self.safe_ctx = false;
        out
    }

    /// `query($v: <unknown type> = <default>)`: only generated with the feature on.
    pub fn unknown_vardef_doc(&mut self) -> String {
        let ty = match self.r.below(10) {
            0 => "Nope".to_string(),
            1 => "[Nope!]!".into(),
            2 => "[Strin]".into(),
            3 => "[int!]".into(),
            4 => "[[Unknown]]".into(),
            5 => "[__Nope]!".into(),
            6 => "[Query]".into(),
            7 => "[Node]".into(),
            8 => format!("[{}]", self.mutate_chars("String")),
            _ => self.mutate_chars("[Int!]"),
        };
        let val = match self.r.below(5) {
            0 => "1".to_string(),
            1 => "\"x\"".into(),
            2 => "[1]".into(),
            3 => "{a: 1}".into(),
            _ => "RED".into(),
        };
        match self.r.below(3) {
            0 => format!("query($v: {ty} = {val}) {{ __typename }}"),
            1 => format!("query Q($a: Int, $v: {ty} = {val}) {{ int(v: $a) any(v: $v) }}"),
            _ => format!("mutation($v: {ty} = {val}) {{ setInt(v: 1) }}"),
        }
    }

    fn any_query_text_branch(&mut self, branch: usize) -> (String, String, Option<(String, u64)>, bool) {
        match branch {
            7 => (self.unknown_vardef_doc(), "unknown-vardef-type".into(), None, true),
            0 => (self.valid_doc(1, false).text, "valid".into(), None, false),
            1 => {
                let d = self.valid_doc(1, false).text;
                (self.mutate_tokens(&d), "token-mutation".into(), None, true)
            }
            2 => {
                let d = self.valid_doc(1, false).text;
                (self.mutate_chars(&d), "char-mutation".into(), None, true)
            }
            3 => (self.special_doc(), "special-literal".into(), None, true),
            4 => (self.odd_shape_doc(), "odd-shape".into(), None, true),
            5 => {
                let d = self.special_doc();
                (self.mutate_chars(&d), "special-mutated".into(), None, true)
            }
            _ => {
                let (t, c, d) = self.nest_doc();
                (t, format!("nest:{c}"), Some((c, d)), true)
            }
        }
    }

    /// A forged upload marker (only called with the feature on).
    pub fn forged_marker(&mut self) -> String {
        let tail = match self.r.below(16) {
            0 => "x".to_string(),
            1 => "-1".to_string(),
            2 => "0".to_string(),
            3 => "1".to_string(),
            4 => "99".to_string(),
            5 => "18446744073709551615".to_string(),
            6 => "18446744073709551616".to_string(),
            7 => self.digits(40),
            8 => " 1".to_string(),
            9 => String::new(),
            10 => "1.5".to_string(),
            11 => "0x1".to_string(),
            12 => "+0".to_string(),
            13 => "\u{0}".to_string(),
            14 => "٣".to_string(),
            _ => self.r.below(4).to_string(),
        };
        format!("{UPLOAD_PREFIX}{tail}")
    }

    /// What a hostile client puts where an Upload is expected. With the
    /// feature off (known finding active) never the internal marker prefix.
    pub fn upload_slot_json(&mut self) -> String {
        if self.feat_upload && self.r.chance(3, 4) {
            return serde_json::to_string(&self.forged_marker()).unwrap();
        }
        self.r
            .pick(&["null", "\"file\"", "0", "true", "[]", "{}", "\"#__graphql_file__\"", "\"__graphql_file__:0\"", "1.5", "[null]"])
            .to_string()
    }
}
