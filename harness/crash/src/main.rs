//! vh-crash — process-level crash / overflow / hang monitor (property C12).
//!
//!   vh-crash C12 <quick|thorough> [--replay <path>]   parent = monitor
//!   vh-crash __child <batchfile> <start> <stack>      hidden: runs inputs, reports BEGIN/END lines
//!   vh-crash __probe [construct ...]                  hidden: smallest overflowing depth per construct and stack size
//!   vh-crash __parse <construct> <depth> <stack>      hidden: parse_query alone on a nesting construct (attribution)
//!   vh-crash __gen <n> <seed>                        hidden: print n generated inputs (all features on) as JSON lines
//!   vh-crash __sdl                                    hidden: print the target schema

mod child;
mod exec;
mod generate;
mod input;
mod parent;
mod schema;
mod sha256;

fn main() {
    let args: Vec<String> = std::env::args().collect();
    let id = args.get(1).cloned().unwrap_or_default();
    match id.as_str() {
        "C12" => parent::main(),
        "__child" => child::main(&args[2..]),
        "__probe" => parent::probe(&args[2..]),
        "__sdl" => println!("{}", schema::plain().sdl()),
        "__gen" => {
            // hidden: print n generated inputs (all features on) as JSON lines
            let n: usize = args[2].parse().unwrap();
            let seed: u64 = args[3].parse().unwrap();
            let mut g = generate::Gen::new(vh_core::Rng::new(seed), true, true, true, true, false);
            for _ in 0..n {
                println!("{}", serde_json::to_string(&g.input()).unwrap());
            }
        }
        "__parse" => {
            // hidden: parse_query only (no validation / execution) of a nesting construct, for attribution
            let c = args[2].clone();
            let d: usize = args[3].parse().unwrap();
            let stack: usize = args[4].parse().unwrap();
            let h = std::thread::Builder::new()
                .stack_size(stack)
                .spawn(move || {
                    let text = generate::Gen::nest_text(&c, d);
                    match async_graphql_parser::parse_query(&text) {
                        Ok(_) => println!("parse_query ok"),
                        Err(e) => println!("parse_query error: {}", vh_core::run::truncate(&e.to_string(), 100)),
                    }
                })
                .unwrap();
            h.join().unwrap();
        }
        _ => {
            println!("INCONCLUSIVE property={id} reason=vh-crash has no check for this property");
            std::process::exit(2);
        }
    }
}
