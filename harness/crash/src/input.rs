//! One hostile input = (surface, exact strings / bytes). Serialised as one JSON
//! line in batch files, as `case.input` in replay files and as `input` in
//! witness files (bytes are base64).

use serde::{Deserialize, Serialize};

pub const SURFACES: [&str; 8] = [
    "query",
    "opname",
    "variables",
    "extensions",
    "query_string",
    "body",
    "multipart",
    "ws",
];

#[derive(Serialize, Deserialize, Clone, Debug, Default)]
pub struct Input {
    /// one of SURFACES
    pub surface: String,
    /// "plain" | "apq"
    #[serde(default, skip_serializing_if = "String::is_empty")]
    pub schema: String,
    /// query text (surfaces query, opname, variables, extensions) or the raw query string (query_string)
    #[serde(default, skip_serializing_if = "Option::is_none")]
    pub text: Option<String>,
    /// operation name
    #[serde(default, skip_serializing_if = "Option::is_none")]
    pub op: Option<String>,
    /// JSON *text* of the variables (surface variables) or of the extensions (surface extensions)
    #[serde(default, skip_serializing_if = "Option::is_none")]
    pub json: Option<String>,
    /// variables: "from_json" (serde_json::Value -> Variables::from_json) | "request_json" (whole request deserialised)
    #[serde(default, skip_serializing_if = "Option::is_none")]
    pub mode: Option<String>,
    /// body / multipart: Content-Type header (None = header absent)
    #[serde(default, skip_serializing_if = "Option::is_none")]
    pub content_type: Option<String>,
    /// body / multipart: raw body bytes, base64
    #[serde(default, skip_serializing_if = "Option::is_none")]
    pub body_b64: Option<String>,
    /// body: use receive_batch_body (true) or receive_body (false)
    #[serde(default)]
    pub batch: bool,
    /// multipart: MultipartOptions limits (max_file_size, max_num_files)
    #[serde(default, skip_serializing_if = "Option::is_none")]
    pub limits: Option<(usize, usize)>,
    /// ws: "graphql-ws" (SubscriptionsTransportWS) | "graphql-transport-ws" (GraphQLWS)
    #[serde(default, skip_serializing_if = "Option::is_none")]
    pub protocol: Option<String>,
    /// ws: text frames, base64 each (raw bytes: invalid UTF-8 possible)
    #[serde(default, skip_serializing_if = "Vec::is_empty")]
    pub frames_b64: Vec<String>,
    /// generator family that produced it (evidence only)
    #[serde(default, skip_serializing_if = "String::is_empty")]
    pub family: String,
    /// nesting construct and depth, when the family is a nesting family (evidence only)
    #[serde(default, skip_serializing_if = "Option::is_none")]
    pub nest: Option<(String, u64)>,
    /// false for unmutated valid documents (not counted as non-trivial)
    #[serde(default)]
    pub hostile: bool,
}

impl Input {
    pub fn body(&self) -> Vec<u8> {
        self.body_b64.as_deref().map(b64_decode).unwrap_or_default()
    }
    pub fn frames(&self) -> Vec<Vec<u8>> {
        self.frames_b64.iter().map(|f| b64_decode(f)).collect()
    }
    /// Size of the client-controlled payload in bytes (for the time budget rule).
    pub fn size(&self) -> usize {
        self.text.as_ref().map(|s| s.len()).unwrap_or(0)
            + self.op.as_ref().map(|s| s.len()).unwrap_or(0)
            + self.json.as_ref().map(|s| s.len()).unwrap_or(0)
            + self.body_b64.as_ref().map(|s| s.len() / 4 * 3).unwrap_or(0)
            + self.frames_b64.iter().map(|s| s.len() / 4 * 3).sum::<usize>()
    }
    /// Hash of what the library sees (not of the evidence-only fields).
    pub fn hash(&self) -> u64 {
        let mut k = String::new();
        k.push_str(&self.surface);
        k.push('\u{1}');
        k.push_str(&self.schema);
        for part in [&self.text, &self.op, &self.json, &self.mode, &self.content_type, &self.body_b64, &self.protocol] {
            k.push('\u{1}');
            match part {
                Some(s) => {
                    k.push('S');
                    k.push_str(s)
                }
                None => k.push('N'),
            }
        }
        k.push(if self.batch { 'b' } else { 's' });
        if let Some((a, b)) = self.limits {
            k.push_str(&format!("{a},{b}"));
        }
        for f in &self.frames_b64 {
            k.push('\u{2}');
            k.push_str(f);
        }
        vh_core::rng::hash_str(&k)
    }
    /// Short human description for violation texts.
    pub fn describe(&self) -> String {
        let mut s = format!("surface={} schema={} family={}", self.surface, self.schema, self.family);
        if let Some((c, d)) = &self.nest {
            s.push_str(&format!(" nest={c}@{d}"));
        }
        let show = |t: &str| vh_core::run::truncate(&format!("{t:?}"), 300);
        if let Some(t) = &self.text {
            s.push_str(&format!(" text={}", show(t)));
        }
        if let Some(t) = &self.op {
            s.push_str(&format!(" op={}", show(t)));
        }
        if let Some(t) = &self.json {
            s.push_str(&format!(" json={}", show(t)));
        }
        if let Some(t) = &self.content_type {
            s.push_str(&format!(" content_type={}", show(t)));
        }
        if self.body_b64.is_some() {
            let b = self.body();
            s.push_str(&format!(" body[{}]={}", b.len(), show(&String::from_utf8_lossy(&b))));
        }
        if !self.frames_b64.is_empty() {
            s.push_str(&format!(" protocol={:?} frames=[", self.protocol));
            for f in self.frames().iter().take(6) {
                s.push_str(&vh_core::run::truncate(&format!("{:?}", String::from_utf8_lossy(f)), 160));
                s.push(',');
            }
            s.push(']');
        }
        s
    }
}

const B64: &[u8; 64] = b"ABCDEFGHIJKLMNOPQRSTUVWXYZabcdefghijklmnopqrstuvwxyz0123456789+/";

pub fn b64_encode(data: &[u8]) -> String {
    let mut out = String::with_capacity(data.len().div_ceil(3) * 4);
    for chunk in data.chunks(3) {
        let b = [chunk[0], *chunk.get(1).unwrap_or(&0), *chunk.get(2).unwrap_or(&0)];
        let n = ((b[0] as u32) << 16) | ((b[1] as u32) << 8) | b[2] as u32;
        out.push(B64[(n >> 18) as usize & 63] as char);
        out.push(B64[(n >> 12) as usize & 63] as char);
        out.push(if chunk.len() > 1 { B64[(n >> 6) as usize & 63] as char } else { '=' });
        out.push(if chunk.len() > 2 { B64[n as usize & 63] as char } else { '=' });
    }
    out
}

pub fn b64_decode(s: &str) -> Vec<u8> {
    let mut out = Vec::with_capacity(s.len() / 4 * 3);
    let mut acc = 0u32;
    let mut bits = 0;
    for c in s.bytes() {
        let v = match c {
            b'A'..=b'Z' => c - b'A',
            b'a'..=b'z' => c - b'a' + 26,
            b'0'..=b'9' => c - b'0' + 52,
            b'+' => 62,
            b'/' => 63,
            _ => continue,
        } as u32;
        acc = (acc << 6) | v;
        bits += 6;
        if bits >= 8 {
            bits -= 8;
            out.push((acc >> bits) as u8);
            acc &= (1 << bits) - 1;
        }
    }
    out
}
