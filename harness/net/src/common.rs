//! Shared oracle-side pieces of vh-net: text/JSON generators, the harness's own
//! JSON writer, percent-encoder and multipart/form-data encoder, and a
//! small-chunk `AsyncRead`. Nothing here calls into async-graphql.

use std::pin::Pin;
use std::task::{Context, Poll};

use futures_util::io::AsyncRead;
use vh_core::Rng;
use vh_core::serde_json::{Map, Value as J};

/// Arbitrary text: quotes, `& = % + ? #`, newlines, C0 controls, BMP and
/// astral characters, plus plain GraphQL-looking fragments.
pub fn gen_text(r: &mut Rng, max: usize) -> String {
    let len = match r.below(10) {
        0 => 0,
        1..=5 => r.below(8) + 1,
        _ => r.below(max.max(1)) + 1,
    };
    let mut s = String::new();
    for _ in 0..len {
        match r.below(20) {
            0 => s.push('"'),
            1 => s.push('\''),
            2 => s.push(*r.pick(&['&', '=', '%', '+', '?', '#', ';'])),
            3 => s.push(*r.pick(&['\n', '\r', '\t', ' '])),
            4 => s.push('\\'),
            5 => s.push(char::from_u32(r.below(0x20) as u32).unwrap()),
            6 => s.push(char::from_u32(0x80 + r.below(0x780) as u32).unwrap_or('é')),
            7 => s.push(char::from_u32(0x800 + r.below(0xD000) as u32).unwrap_or('中')),
            8 => s.push(char::from_u32(0x1_0000 + r.below(0xF_0000) as u32).unwrap_or('😀')),
            9 => s.push_str(*r.pick(&["%41", "%zz", "%", "+", "&amp;", "\\u0041", "\u{2028}", "\u{feff}", "/", "\u{7f}"])),
            10 => s.push_str(*r.pick(&["{ a }", "query Q", "($v: Int)", "mutation", "...F", "@skip(if: $b)", "#c\n"])),
            _ => s.push((0x20u8 + r.below(0x5f) as u8) as char),
        }
    }
    s
}

pub fn gen_ident(r: &mut Rng) -> String {
    let first = b"_ABCDEFGHIJKLMNOPQRSTUVWXYZabcdefghijklmnopqrstuvwxyz";
    let rest = b"_0123456789ABCDEFGHIJKLMNOPQRSTUVWXYZabcdefghijklmnopqrstuvwxyz";
    let mut s = String::new();
    s.push(*r.pick(first) as char);
    for _ in 0..r.below(7) {
        s.push(*r.pick(rest) as char);
    }
    s
}

/// Random JSON value. Floats are k/1000 or k/8 (exactly parseable by every
/// JSON reader) so that float parsing precision is not what is being tested.
pub fn gen_json(r: &mut Rng, depth: u32) -> J {
    let leaf = depth == 0 || r.chance(3, 5);
    if leaf {
        match r.below(8) {
            0 => J::Null,
            1 => J::Bool(r.bool()),
            2 => J::from(r.range(-1000, 1000)),
            3 => J::from(*r.pick(&[i64::MIN, i64::MAX, 0, -1, i32::MAX as i64 + 1])),
            4 => J::from(*r.pick(&[u64::MAX, i64::MAX as u64 + 1])),
            5 => {
                let f = if r.bool() {
                    r.range(-1_000_000, 1_000_000) as f64 / 1000.0
                } else {
                    r.range(-100_000, 100_000) as f64 / 8.0
                };
                vh_core::serde_json::Number::from_f64(f).map(J::Number).unwrap_or(J::Null)
            }
            _ => J::String(gen_text(r, 16)),
        }
    } else if r.bool() {
        J::Array((0..r.below(4)).map(|_| gen_json(r, depth - 1)).collect())
    } else {
        J::Object(gen_object(r, depth - 1, true))
    }
}

/// Random JSON object with distinct keys. `wild_keys`: keys are arbitrary text,
/// otherwise identifiers.
pub fn gen_object(r: &mut Rng, depth: u32, wild_keys: bool) -> Map<String, J> {
    let mut m = Map::new();
    for _ in 0..r.below(4) {
        let k = if wild_keys && r.chance(1, 3) { gen_text(r, 8) } else { gen_ident(r) };
        if m.contains_key(&k) {
            continue;
        }
        m.insert(k, gen_json(r, depth));
    }
    m
}

fn ws(r: &mut Rng, out: &mut String) {
    match r.below(12) {
        0 => out.push(' '),
        1 => out.push('\n'),
        2 => out.push('\t'),
        3 => out.push_str("\r\n"),
        4 => out.push_str("  "),
        _ => {}
    }
}

/// The harness's own JSON string writer. Every string character is written in
/// one of its legal spellings chosen at random (raw, short escape, \uXXXX,
/// surrogate pair), so the decoder sees every escape form RFC 8259 allows.
pub fn write_json_string(r: &mut Rng, s: &str, out: &mut String) {
    out.push('"');
    for c in s.chars() {
        let cp = c as u32;
        let force_u = r.chance(1, 12);
        match c {
            '"' if !force_u => out.push_str("\\\""),
            '\\' if !force_u => out.push_str("\\\\"),
            '\n' if !force_u => out.push_str("\\n"),
            '\r' if !force_u => out.push_str("\\r"),
            '\t' if !force_u => out.push_str("\\t"),
            '\u{8}' if !force_u => out.push_str("\\b"),
            '\u{c}' if !force_u => out.push_str("\\f"),
            '/' if !force_u && r.bool() => out.push_str("\\/"),
            _ if cp < 0x20 || c == '"' || c == '\\' || force_u => {
                if cp >= 0x1_0000 {
                    let v = cp - 0x1_0000;
                    let hi = 0xD800 + (v >> 10);
                    let lo = 0xDC00 + (v & 0x3FF);
                    if r.bool() {
                        out.push_str(&format!("\\u{hi:04x}\\u{lo:04X}"));
                    } else {
                        out.push_str(&format!("\\u{hi:04X}\\u{lo:04x}"));
                    }
                } else if r.bool() {
                    out.push_str(&format!("\\u{cp:04x}"));
                } else {
                    out.push_str(&format!("\\u{cp:04X}"));
                }
            }
            _ => out.push(c),
        }
    }
    out.push('"');
}

/// The harness's own JSON writer (random insignificant whitespace).
pub fn write_json(r: &mut Rng, v: &J, out: &mut String) {
    match v {
        J::Null => out.push_str("null"),
        J::Bool(b) => out.push_str(if *b { "true" } else { "false" }),
        J::Number(n) => out.push_str(&n.to_string()),
        J::String(s) => write_json_string(r, s, out),
        J::Array(a) => {
            out.push('[');
            ws(r, out);
            for (i, x) in a.iter().enumerate() {
                if i > 0 {
                    out.push(',');
                    ws(r, out);
                }
                write_json(r, x, out);
                ws(r, out);
            }
            out.push(']');
        }
        J::Object(m) => write_json_object(r, m, out),
    }
}

pub fn write_json_object(r: &mut Rng, m: &Map<String, J>, out: &mut String) {
    out.push('{');
    ws(r, out);
    for (i, (k, x)) in m.iter().enumerate() {
        if i > 0 {
            out.push(',');
            ws(r, out);
        }
        write_json_string(r, k, out);
        ws(r, out);
        out.push(':');
        ws(r, out);
        write_json(r, x, out);
        ws(r, out);
    }
    out.push('}');
}

pub fn json_text(r: &mut Rng, v: &J) -> String {
    let mut s = String::new();
    write_json(r, v, &mut s);
    s
}

/// application/x-www-form-urlencoded serialisation of one component by the
/// harness: every byte outside the unreserved set is `%HH` (random hex case),
/// space is `+` or `%20`, unreserved bytes are sometimes encoded as well.
pub fn pct_encode(r: &mut Rng, s: &str) -> String {
    let mut out = String::new();
    for &b in s.as_bytes() {
        let unreserved = b.is_ascii_alphanumeric() || matches!(b, b'-' | b'.' | b'_' | b'*' | b'~');
        if b == b' ' && r.bool() {
            out.push('+');
        } else if unreserved && !r.chance(1, 16) {
            out.push(b as char);
        } else if r.bool() {
            out.push_str(&format!("%{b:02X}"));
        } else {
            out.push_str(&format!("%{b:02x}"));
        }
    }
    out
}

#[derive(Clone, Debug)]
pub struct Part {
    pub name: String,
    pub filename: Option<String>,
    pub content_type: Option<String>,
    pub data: Vec<u8>,
}

impl Part {
    pub fn field(name: &str, data: Vec<u8>) -> Part {
        Part { name: name.to_string(), filename: None, content_type: None, data }
    }
}

pub fn gen_boundary(r: &mut Rng) -> String {
    let chars = b"0123456789ABCDEFGHIJKLMNOPQRSTUVWXYZabcdefghijklmnopqrstuvwxyz";
    let mut s = String::from(*r.pick(&["", "----", "----WebKitFormBoundary", "X-", "b"]));
    for _ in 0..(8 + r.below(20)) {
        s.push(*r.pick(chars) as char);
    }
    s
}

/// multipart/form-data (RFC 7578 / RFC 2046) encoder of the harness.
pub fn encode_multipart(boundary: &str, parts: &[Part]) -> Vec<u8> {
    let mut out = Vec::new();
    for p in parts {
        out.extend_from_slice(b"--");
        out.extend_from_slice(boundary.as_bytes());
        out.extend_from_slice(b"\r\n");
        out.extend_from_slice(format!("Content-Disposition: form-data; name=\"{}\"", p.name).as_bytes());
        if let Some(f) = &p.filename {
            out.extend_from_slice(format!("; filename=\"{f}\"").as_bytes());
        }
        out.extend_from_slice(b"\r\n");
        if let Some(ct) = &p.content_type {
            out.extend_from_slice(format!("Content-Type: {ct}\r\n").as_bytes());
        }
        out.extend_from_slice(b"\r\n");
        out.extend_from_slice(&p.data);
        out.extend_from_slice(b"\r\n");
    }
    out.extend_from_slice(b"--");
    out.extend_from_slice(boundary.as_bytes());
    out.extend_from_slice(b"--\r\n");
    out
}

pub fn find(hay: &[u8], needle: &[u8], from: usize) -> Option<usize> {
    if needle.is_empty() {
        return Some(from.min(hay.len()));
    }
    if hay.len() < needle.len() {
        return None;
    }
    (from..=hay.len() - needle.len()).find(|&i| &hay[i..i + needle.len()] == needle)
}

/// An `AsyncRead` over bytes that hands out at most `chunk` bytes per call, so
/// that delimiters and JSON tokens straddle read boundaries.
pub struct ChunkReader {
    data: Vec<u8>,
    pos: usize,
    chunk: usize,
}

impl ChunkReader {
    pub fn new(data: Vec<u8>, chunk: usize) -> Self {
        ChunkReader { data, pos: 0, chunk: chunk.max(1) }
    }
}

impl AsyncRead for ChunkReader {
    fn poll_read(mut self: Pin<&mut Self>, _cx: &mut Context<'_>, buf: &mut [u8]) -> Poll<std::io::Result<usize>> {
        let n = (self.data.len() - self.pos).min(buf.len()).min(self.chunk);
        let pos = self.pos;
        buf[..n].copy_from_slice(&self.data[pos..pos + n]);
        self.pos += n;
        Poll::Ready(Ok(n))
    }
}

pub fn gen_chunk(r: &mut Rng) -> usize {
    *r.pick(&[1usize, 2, 3, 7, 16, 61, 512, 1 << 20])
}

pub fn hex(b: &[u8]) -> String {
    b.iter().map(|x| format!("{x:02x}")).collect()
}

pub fn lossy(b: &[u8], n: usize) -> String {
    let s = String::from_utf8_lossy(&b[..b.len().min(n)]).into_owned();
    if b.len() > n { format!("{s}…(+{} bytes)", b.len() - n) } else { s }
}
