//! C26 — multipart/mixed subscription bodies are well framed.
//!
//! The real `create_multipart_mixed_stream` is driven by vsched: the input
//! stream yields response k when gate `resp<k>` opens and ends when gate `end`
//! opens, the `Timer` handed to the library resolves delay n when gate
//! `tick<n>` opens (virtual time), optionally the consumer polls only when a
//! `consume` gate opens. Every event is appended to one log (totally ordered,
//! single thread).
//!
//! Monitor (DESIGN A.4): an RFC 2046 reader written for the harness splits the
//! concatenated output with boundary `graphql`:
//!   F1 output = ( "--graphql" CRLF headers CRLF CRLF body CRLF )* "--graphql--" CRLF?
//!      no preamble/epilogue, no boundary-like line inside a body
//!   F2 every part has content-type application/json
//!   F3 bodies other than `{}` are, in order, exactly serde_json::to_vec(response_k)
//!      for k = 0..n (each once) and parse to the JSON the harness put in
//!   F4 a `{}` part is complete only after a timer firing not yet used by an
//!      earlier heartbeat
//!   F5 the close delimiter appears once, last, after the input ended; the
//!      stream then terminates

use std::collections::VecDeque;
use std::sync::atomic::{AtomicUsize, Ordering};
use std::sync::{Arc, Mutex};
use std::time::Duration;

use async_graphql::http::create_multipart_mixed_stream;
use async_graphql::runtime::Timer;
use async_graphql::{PathSegment, Response, ServerError, Value};
use futures_util::future::BoxFuture;
use futures_util::{FutureExt, StreamExt};
use vh_core::serde_json::{self, Map, Value as J, json};
use vh_core::vsched::{Chooser, Dfs, Outcome, RandomChooser, Sched};
use vh_core::{Rng, Run, catch, rng};

use crate::common::*;

const BOUNDARY: &str = "graphql";

// ---------- independent RFC 2046 reader ----------

#[derive(Debug, Clone)]
pub struct MPart {
    pub headers: Vec<(String, String)>,
    pub body: Vec<u8>,
    /// offset one past the CRLF that ends this part (= start of the next dash-boundary)
    pub end: usize,
}

#[derive(Debug, Clone)]
pub struct MBody {
    pub parts: Vec<MPart>,
    /// offset of the close delimiter's dash-boundary
    pub close_at: usize,
}

fn is_lwsp(b: u8) -> bool {
    b == b' ' || b == b'\t'
}

/// Split `data` as a complete multipart body per RFC 2046 section 5.1.1
/// (empty preamble and epilogue required).
pub fn read_multipart(data: &[u8], boundary: &str) -> Result<MBody, String> {
    let dash = format!("--{boundary}").into_bytes();
    let delim = format!("\r\n--{boundary}").into_bytes();
    if !data.starts_with(&dash) {
        return Err(format!("body does not start with the dash-boundary (preamble or garbage): {:?}", lossy(data, 40)));
    }
    let mut parts = vec![];
    let mut p = 0usize; // at a dash-boundary
    loop {
        let mut q = p + dash.len();
        if data[q..].starts_with(b"--") {
            // close-delimiter
            q += 2;
            while q < data.len() && is_lwsp(data[q]) {
                q += 1;
            }
            let rest = &data[q..];
            if rest.is_empty() || rest == b"\r\n" {
                return Ok(MBody { parts, close_at: p });
            }
            return Err(format!("bytes after the close delimiter at {p}: {:?}", lossy(rest, 60)));
        }
        while q < data.len() && is_lwsp(data[q]) {
            q += 1;
        }
        if !data[q..].starts_with(b"\r\n") {
            return Err(format!("dash-boundary at {p} is not followed by CRLF or '--': {:?}", lossy(&data[p..], 40)));
        }
        q += 2;
        // headers until the empty line
        let mut headers = vec![];
        loop {
            if data[q..].starts_with(b"\r\n") {
                q += 2;
                break;
            }
            let Some(eol) = find(data, b"\r\n", q) else {
                return Err(format!("unterminated header line at {q}"));
            };
            let line = &data[q..eol];
            let Some(colon) = line.iter().position(|&b| b == b':') else {
                return Err(format!("header line without colon at {q}: {:?}", lossy(line, 60)));
            };
            let name = &line[..colon];
            if name.is_empty() || !name.iter().all(|b| b.is_ascii_graphic()) {
                return Err(format!("bad header name at {q}: {:?}", lossy(line, 60)));
            }
            headers.push((
                String::from_utf8_lossy(name).to_ascii_lowercase(),
                String::from_utf8_lossy(&line[colon + 1..]).trim().to_string(),
            ));
            q = eol + 2;
        }
        // body up to the next delimiter (CRLF dash-boundary). RFC 2046: body-part = headers [CRLF *OCTET], so the
        // CRLF of the empty line may itself begin the delimiter (a part without body).
        let Some(d) = find(data, &delim, q - 2) else {
            return Err(format!(
                "part starting at {p} is not followed by a delimiter; no close delimiter (output ends {:?})",
                lossy(&data[data.len().saturating_sub(30)..], 60)
            ));
        };
        if d < q {
            parts.push(MPart { headers, body: vec![], end: d + 2 });
            p = d + 2;
            continue;
        }
        parts.push(MPart { headers, body: data[q..d].to_vec(), end: d + 2 });
        p = d + 2;
    }
}

// ---------- harness side: stream, timer, log ----------

#[derive(Debug, Clone, PartialEq)]
enum Ev {
    Resp(usize),
    End,
    Tick(usize),
    Chunk(usize),
    Done,
}

type Log = Arc<Mutex<Vec<Ev>>>;

struct GateTimer {
    sched: Sched,
    log: Log,
    created: AtomicUsize,
    max_ticks: usize,
    immediate: Vec<bool>,
    interval: Duration,
    wrong_interval: Arc<AtomicUsize>,
}

impl Timer for GateTimer {
    fn delay(&self, d: Duration) -> BoxFuture<'static, ()> {
        if d != self.interval {
            self.wrong_interval.fetch_add(1, Ordering::SeqCst);
        }
        let n = self.created.fetch_add(1, Ordering::SeqCst);
        if n >= self.max_ticks {
            return futures_util::future::pending().boxed();
        }
        let log = self.log.clone();
        if self.immediate.get(n).copied().unwrap_or(false) {
            return async move { log.lock().unwrap().push(Ev::Tick(n)) }.boxed();
        }
        let g = self.sched.gate(format!("tick{n}"));
        async move {
            g.await;
            log.lock().unwrap().push(Ev::Tick(n));
        }
        .boxed()
    }
}

struct Plan {
    /// (expected JSON, gated)
    responses: Vec<(J, bool)>,
    end_gated: bool,
    max_ticks: usize,
    immediate_ticks: Vec<bool>,
    consumer_gated: bool,
}

struct Observed {
    out: Vec<u8>,
    chunk_ends: Vec<usize>,
    log: Vec<Ev>,
    opened: Vec<String>,
    outcome: Outcome,
    wrong_interval: usize,
    expected_bytes: Vec<Vec<u8>>,
}

fn build_response(j: &J) -> Response {
    let mut resp = Response::new(Value::from_json(j["data"].clone()).unwrap_or(Value::Null));
    if let Some(errs) = j.get("errors").and_then(|e| e.as_array()) {
        for e in errs {
            let mut se = ServerError::new(e["message"].as_str().unwrap_or("").to_string(), None);
            if let Some(p) = e.get("path").and_then(|p| p.as_array()) {
                for seg in p {
                    match seg {
                        J::String(s) => se.path.push(PathSegment::Field(s.clone())),
                        J::Number(n) => se.path.push(PathSegment::Index(n.as_u64().unwrap_or(0) as usize)),
                        _ => {}
                    }
                }
            }
            resp.errors.push(se);
        }
    }
    if let Some(ext) = j.get("extensions").and_then(|e| e.as_object()) {
        for (k, v) in ext {
            resp = resp.extension(k.clone(), Value::from_json(v.clone()).unwrap_or(Value::Null));
        }
    }
    resp
}

fn drive(plan: &Plan, chooser: &mut dyn Chooser) -> Result<Observed, String> {
    let sched = Sched::new();
    let log: Log = Arc::new(Mutex::new(vec![]));
    let wrong_interval = Arc::new(AtomicUsize::new(0));
    let interval = Duration::from_secs(5);
    let mut expected_bytes = vec![];
    let mut items: VecDeque<(Response, bool)> = VecDeque::new();
    for (j, gated) in &plan.responses {
        let resp = build_response(j);
        expected_bytes.push(serde_json::to_vec(&resp).map_err(|e| format!("harness: response not serialisable: {e}"))?);
        items.push_back((resp, *gated));
    }
    let end_gated = plan.end_gated;
    let input = futures_util::stream::unfold((items, sched.clone(), log.clone(), 0usize, false), move |(mut items, sched, log, k, ended)| async move {
        if ended {
            return None;
        }
        match items.pop_front() {
            Some((resp, gated)) => {
                if gated {
                    sched.gate(format!("resp{k}")).await;
                }
                log.lock().unwrap().push(Ev::Resp(k));
                Some((resp, (items, sched, log, k + 1, false)))
            }
            None => {
                if end_gated {
                    sched.gate("end").await;
                }
                log.lock().unwrap().push(Ev::End);
                None
            }
        }
    });
    let input = Box::pin(input);
    let timer = GateTimer {
        sched: sched.clone(),
        log: log.clone(),
        created: AtomicUsize::new(0),
        max_ticks: plan.max_ticks,
        immediate: plan.immediate_ticks.clone(),
        interval,
        wrong_interval: wrong_interval.clone(),
    };
    let consumer_gated = plan.consumer_gated;
    let out: Arc<Mutex<(Vec<u8>, Vec<usize>)>> = Arc::new(Mutex::new((vec![], vec![])));
    let (out2, log2, sched2) = (out.clone(), log.clone(), sched.clone());
    let root = async move {
        let mut s = create_multipart_mixed_stream(input, timer, interval);
        let mut i = 0usize;
        loop {
            if consumer_gated {
                sched2.gate("consume").await;
            }
            match s.next().await {
                Some(b) => {
                    let mut o = out2.lock().unwrap();
                    o.0.extend_from_slice(&b);
                    let end = o.0.len();
                    o.1.push(end);
                    log2.lock().unwrap().push(Ev::Chunk(i));
                    i += 1;
                }
                None => {
                    log2.lock().unwrap().push(Ev::Done);
                    break;
                }
            }
        }
    };
    let (_, rep) = catch(|| sched.run(root, chooser, false, 100_000))?;
    let o = out.lock().unwrap().clone();
    let l = log.lock().unwrap().clone();
    Ok(Observed {
        out: o.0,
        chunk_ends: o.1,
        log: l,
        opened: rep.opened,
        outcome: rep.outcome,
        wrong_interval: wrong_interval.load(Ordering::SeqCst),
        expected_bytes,
    })
}

/// The monitor. Returns a description of the first broken rule.
fn judge(plan: &Plan, o: &Observed, stats: &mut Stats) -> Result<(), String> {
    if o.outcome != Outcome::Done {
        return Err(format!("stream did not terminate after the input ended (scheduler outcome {:?})", o.outcome));
    }
    if o.log.last() != Some(&Ev::Done) {
        return Err("consumer never saw the end of the output stream".into());
    }
    let body = read_multipart(&o.out, BOUNDARY).map_err(|e| format!("F1 not a well-formed multipart body: {e}"))?;
    // F2
    for (i, p) in body.parts.iter().enumerate() {
        let ct = p.headers.iter().find(|(n, _)| n == "content-type").map(|(_, v)| v.to_ascii_lowercase());
        match ct {
            Some(v) if v == "application/json" || v.starts_with("application/json;") => {}
            other => return Err(format!("F2 part {i} has content-type {other:?}")),
        }
    }
    // time at which each output offset was reached: index into the log
    let mut offset_time: Vec<(usize, usize)> = vec![]; // (cumulative bytes, log index)
    for (li, e) in o.log.iter().enumerate() {
        if let Ev::Chunk(i) = e {
            offset_time.push((o.chunk_ends[*i], li));
        }
    }
    let time_of = |off: usize| offset_time.iter().find(|(end, _)| *end >= off).map(|(_, li)| *li).unwrap_or(usize::MAX);
    let count_before = |li: usize, f: &dyn Fn(&Ev) -> bool| o.log.iter().take(li).filter(|e| f(e)).count();
    // F3 / F4
    let mut k = 0usize;
    let mut hb = 0usize;
    for (i, p) in body.parts.iter().enumerate() {
        let t = time_of(p.end);
        if p.body == b"{}" {
            hb += 1;
            let ticks = count_before(t, &|e| matches!(e, Ev::Tick(_)));
            if ticks < hb {
                return Err(format!("F4 heartbeat #{hb} (part {i}) was complete when only {ticks} timer firings had happened"));
            }
            continue;
        }
        if k >= o.expected_bytes.len() {
            return Err(format!("F3 part {i} is an extra non-heartbeat part: {:?}", lossy(&p.body, 200)));
        }
        if p.body != o.expected_bytes[k] {
            let later = o.expected_bytes.iter().position(|b| *b == p.body);
            return Err(format!(
                "F3 part {i} should be response {k} ({:?}) but is {:?} (equal to response {later:?})",
                lossy(&o.expected_bytes[k], 200),
                lossy(&p.body, 200)
            ));
        }
        match serde_json::from_slice::<J>(&p.body) {
            Ok(j) if j == plan.responses[k].0 => {}
            other => return Err(format!("F3 part {i} does not parse to the JSON of response {k}: {other:?} vs {}", plan.responses[k].0)),
        }
        let delivered = count_before(t, &|e| *e == Ev::Resp(k));
        if delivered != 1 {
            return Err(format!("F3 response {k} was output before the input stream yielded it"));
        }
        k += 1;
    }
    if k != o.expected_bytes.len() {
        return Err(format!("F3 only {k} of {} responses appear in the output", o.expected_bytes.len()));
    }
    // F5
    let t_close = time_of(body.close_at + 1);
    if count_before(t_close, &|e| *e == Ev::End) != 1 {
        return Err("F5 close delimiter emitted before the input stream ended".into());
    }
    stats.parts += body.parts.len() as u64;
    stats.heartbeats += hb as u64;
    stats.responses += k as u64;
    stats.ticks += o.log.iter().filter(|e| matches!(e, Ev::Tick(_))).count() as u64;
    if body.parts.is_empty() {
        stats.empty_bodies += 1;
    }
    if hb == o.log.iter().filter(|e| matches!(e, Ev::Tick(_))).count() {
        stats.every_tick_has_heartbeat += 1;
    }
    Ok(())
}

#[derive(Default)]
struct Stats {
    parts: u64,
    heartbeats: u64,
    responses: u64,
    ticks: u64,
    empty_bodies: u64,
    every_tick_has_heartbeat: u64,
}

impl Stats {
    fn flush(&mut self, run: &Run) {
        run.count("parts_read", self.parts);
        run.count("heartbeat_parts", self.heartbeats);
        run.count("response_parts_in_order", self.responses);
        run.count("timer_firings", self.ticks);
        run.count("bodies_with_zero_parts", self.empty_bodies);
        run.count("schedules_where_every_firing_gave_a_heartbeat", self.every_tick_has_heartbeat);
        *self = Stats::default();
    }
}

// ---------- content ----------

fn hostile_string(r: &mut Rng) -> String {
    let mut s = String::new();
    for _ in 0..(1 + r.below(4)) {
        match r.below(12) {
            0 => s.push_str("--graphql"),
            1 => s.push_str("\r\n--graphql\r\n"),
            2 => s.push_str("\r\n--graphql--\r\n"),
            3 => s.push_str("\r\n"),
            4 => s.push_str("Content-Type: application/json\r\n\r\n"),
            5 => s.push_str("{}"),
            6 => s.push_str("\n--graphql--"),
            7 => s.push_str(*r.pick(&["\u{2028}", "\u{85}", "\u{0}", "\"", "\\", "\\r\\n--graphql", "é中😀"])),
            _ => s.push_str(&gen_text(r, 12)),
        }
    }
    s
}

fn hostile_json(r: &mut Rng, depth: u32) -> J {
    if depth == 0 || r.chance(1, 2) {
        match r.below(6) {
            0 => J::Null,
            1 => json!(r.range(-100, 100)),
            2 => json!(r.bool()),
            _ => J::String(hostile_string(r)),
        }
    } else if r.bool() {
        J::Array((0..r.below(3)).map(|_| hostile_json(r, depth - 1)).collect())
    } else {
        let mut m = Map::new();
        for _ in 0..r.below(3) {
            let k = if r.bool() { hostile_string(r) } else { gen_ident(r) };
            m.insert(k, hostile_json(r, depth - 1));
        }
        J::Object(m)
    }
}

fn gen_response_json(r: &mut Rng, tag: usize) -> J {
    let mut m = Map::new();
    let mut data = Map::new();
    data.insert("seq".into(), json!(tag));
    data.insert("v".into(), hostile_json(r, 2));
    if r.chance(1, 3) {
        let errs: Vec<J> = (0..(1 + r.below(2)))
            .map(|_| {
                let mut e = Map::new();
                e.insert("message".into(), J::String(hostile_string(r)));
                if r.bool() {
                    e.insert("path".into(), json!([hostile_string(r), r.below(5)]));
                }
                J::Object(e)
            })
            .collect();
        m.insert("errors".into(), J::Array(errs));
    }
    m.insert("data".into(), if r.chance(1, 10) { J::Null } else { J::Object(data) });
    if r.chance(1, 4) {
        let mut ext = Map::new();
        ext.insert(hostile_string(r), hostile_json(r, 1));
        m.insert("extensions".into(), J::Object(ext));
    }
    J::Object(m)
}

fn plan_json(plan: &Plan) -> J {
    json!({
        "responses": plan.responses.iter().map(|(j, g)| json!({"json": j, "gated": g})).collect::<Vec<_>>(),
        "end_gated": plan.end_gated,
        "max_ticks": plan.max_ticks,
        "immediate_ticks": plan.immediate_ticks,
        "consumer_gated": plan.consumer_gated,
    })
}

fn run_one(run: &Run, plan: &Plan, chooser: &mut dyn Chooser, kind: &str, stats: &mut Stats) -> Option<Observed> {
    run.eval();
    let o = match drive(plan, chooser) {
        Ok(o) => o,
        Err(p) => {
            run.violation(
                &format!("panic:{:x}", rng::hash_str(&plan_json(plan).to_string())),
                &format!("create_multipart_mixed_stream panicked or harness failed: {p}"),
                plan_json(plan),
            );
            return None;
        }
    };
    if o.outcome == Outcome::StepLimit {
        run.inconclusive("step limit reached while driving the stream");
        return None;
    }
    if o.wrong_interval > 0 {
        run.count("timer_delays_not_equal_to_heartbeat_interval", o.wrong_interval as u64);
    }
    if let Err(what) = judge(plan, &o, stats) {
        let sig = format!("frame-{kind}:{:x}", rng::hash_str(&format!("{}|{:?}", plan_json(plan), o.opened)));
        run.violation(
            &sig,
            &format!("{what}; schedule {:?}; output {:?}", o.opened, lossy(&o.out, 600)),
            json!({"plan": plan_json(plan), "schedule": o.opened, "output": lossy(&o.out, 8000), "output_hex": hex(&o.out[..o.out.len().min(4000)]), "log": format!("{:?}", o.log)}),
        );
    }
    Some(o)
}

fn binom(n: u64, k: u64) -> u64 {
    let mut r = 1u64;
    for i in 0..k {
        r = r * (n - i) / (i + 1);
    }
    r
}

/// All interleavings of n gated responses + end with up to `max_ticks` timer firings, eager consumer.
fn dfs_eager(run: &Run, r: &mut Rng, n: usize, max_ticks: usize, stats: &mut Stats) -> bool {
    let plan = Plan {
        responses: (0..n).map(|k| (gen_response_json(r, k), true)).collect(),
        end_gated: true,
        max_ticks,
        immediate_ticks: vec![],
        consumer_gated: false,
    };
    let mut dfs = Dfs::new();
    let mut seen = std::collections::BTreeSet::new();
    let mut schedules = 0u64;
    loop {
        let Some(o) = run_one(run, &plan, &mut dfs, "dfs", stats) else { return false };
        schedules += 1;
        let key = o.opened.join(",");
        run.nontrivial(rng::hash_str(&format!("dfs|{n}|{max_ticks}|{key}")));
        seen.insert(key);
        if (schedules == 1 && n == 0) || (schedules == 40 && n >= 3) {
            run.sample_upto(14, json!({"dfs_responses": n, "schedule": o.opened, "output": lossy(&o.out, 900)}));
        }
        if !dfs.advance() {
            break;
        }
    }
    let expected: u64 = (0..=max_ticks as u64).map(|t| binom(n as u64 + t, t)).sum();
    run.count("dfs_schedules", schedules);
    if seen.len() as u64 == expected && schedules == expected {
        run.seen("dfs_bounds_enumerated", &format!("responses={n} ticks<={max_ticks}: {schedules} schedules (= closed form)"));
        true
    } else {
        run.note(&format!("DFS for responses={n} ticks<={max_ticks} explored {schedules} schedules, {} distinct, closed form says {expected}", seen.len()));
        false
    }
}

/// Same with a gated consumer (several sources can be ready in one poll). Not claimed exhaustive:
/// `select!` picks among ready branches with its own random generator.
fn dfs_gated_consumer(run: &Run, r: &mut Rng, n: usize, max_ticks: usize, cap: u64, stats: &mut Stats) {
    let plan = Plan {
        responses: (0..n).map(|k| (gen_response_json(r, k), true)).collect(),
        end_gated: true,
        max_ticks,
        immediate_ticks: vec![],
        consumer_gated: true,
    };
    let mut dfs = Dfs::new();
    let mut schedules = 0u64;
    loop {
        let Some(o) = run_one(run, &plan, &mut dfs, "dfs-consumer", stats) else { return };
        schedules += 1;
        run.nontrivial(rng::hash_str(&format!("dfsc|{n}|{max_ticks}|{}", o.opened.join(","))));
        if schedules >= cap || !dfs.advance() {
            break;
        }
    }
    run.count("dfs_gated_consumer_schedules", schedules);
}

fn random_round(run: &Run, r: &mut Rng, stats: &mut Stats) {
    let n = r.below(13);
    let burst = r.chance(1, 3);
    let max_ticks = r.below(11);
    let plan = Plan {
        responses: (0..n).map(|k| (gen_response_json(r, k), !(burst && r.bool()))).collect(),
        end_gated: !r.chance(1, 4),
        max_ticks,
        immediate_ticks: (0..max_ticks).map(|_| r.chance(1, 5)).collect(),
        consumer_gated: r.bool(),
    };
    let mut ch = RandomChooser(r.fork(26));
    if let Some(o) = run_one(run, &plan, &mut ch, "random", stats) {
        run.nontrivial(rng::hash_str(&format!("{}|{:?}", plan_json(&plan), o.opened)));
        if plan.consumer_gated {
            run.count("random_runs_with_gated_consumer", 1);
        }
        if plan.responses.iter().any(|x| !x.1) || plan.immediate_ticks.iter().any(|x| *x) {
            run.count("random_runs_with_simultaneously_ready_sources", 1);
        }
        run.sample_upto(6, json!({"random_plan": {"responses": n, "max_ticks": max_ticks, "consumer_gated": plan.consumer_gated}, "schedule": o.opened, "output": lossy(&o.out, 500)}));
    }
}

/// Long string (4-20 KiB) of hostile fragments.
fn large_string(r: &mut Rng) -> String {
    let want = 4096 + r.below(16 * 1024 + 1);
    let mut s = String::with_capacity(want + 64);
    while s.len() < want {
        match r.below(6) {
            0 => s.push_str(&hostile_string(r)),
            1 => s.push_str("\r\n--graphql\r\nContent-Type: application/json\r\n\r\n{}\r\n"),
            _ => {
                for _ in 0..(16 + r.below(200)) {
                    s.push((0x20u8 + r.below(0x5f) as u8) as char);
                }
            }
        }
    }
    s
}

/// Bursts: many responses that are all ready before the consumer polls (the input stream yields them without
/// suspending), and large responses (>= 4 KiB) followed at once by ready small ones; consumer eager or lazy.
fn burst_round(run: &Run, r: &mut Rng, stats: &mut Stats) {
    let long = r.chance(2, 3);
    let mut responses: Vec<(J, bool)> = vec![];
    let mut large_then_ready = 0u64;
    let mut longest_ready_run = 0usize;
    if long {
        let n = 100 + r.below(301);
        // now and then the environment pauses (a gated response) inside the burst
        let gate_every = if r.chance(1, 3) { Some(30 + r.below(200)) } else { None };
        let pad = r.below(4);
        for k in 0..n {
            let j = match r.below(40) {
                0 => gen_response_json(r, k),
                1..=9 if pad > 0 => {
                    let fill: String = (0..r.below(pad * 30 + 1)).map(|_| (b'a' + r.below(26) as u8) as char).collect();
                    json!({"data": {"seq": k, "v": fill}})
                }
                _ => json!({"data": {"seq": k}}),
            };
            let gated = k > 0 && gate_every.is_some_and(|g| k % g == 0);
            responses.push((j, gated));
        }
    } else {
        let n = 2 + r.below(11);
        let mut prev_large = false;
        for k in 0..n {
            let large = if k == 0 { r.chance(3, 4) } else { r.chance(2, 5) };
            let gated = r.chance(1, 8);
            let j = if large { json!({"data": {"seq": k, "v": large_string(r)}}) } else if r.bool() { gen_response_json(r, k) } else { json!({"data": {"seq": k}}) };
            if prev_large && !gated {
                large_then_ready += 1;
            }
            prev_large = large;
            responses.push((j, gated));
        }
    }
    let mut cur = 0usize;
    for (k, (_, gated)) in responses.iter().enumerate() {
        // the first response of a ready run may be gated: once its gate opens, the ungated ones behind it are ready too
        cur = if *gated && k > 0 { 1 } else { cur + 1 };
        longest_ready_run = longest_ready_run.max(cur);
    }
    let max_ticks = r.below(4);
    let plan = Plan {
        responses,
        end_gated: r.bool(),
        max_ticks,
        immediate_ticks: (0..max_ticks).map(|_| r.chance(1, 6)).collect(),
        consumer_gated: r.bool(),
    };
    let n = plan.responses.len();
    let mut ch = RandomChooser(r.fork(2626));
    if let Some(o) = run_one(run, &plan, &mut ch, "burst", stats) {
        run.nontrivial(rng::hash_str(&format!("burst|{long}|{n}|{}|{:?}", o.out.len(), o.opened)));
        if long {
            run.count("burst_runs_with_100_to_400_responses", 1);
            run.count("burst_responses_driven", n as u64);
            run.seen("burst_longest_ready_run", &format!("{}", longest_ready_run / 50 * 50));
        } else {
            run.count("large_response_runs", 1);
            run.count("large_responses_followed_at_once_by_a_ready_response", large_then_ready);
        }
        run.count(if plan.consumer_gated { "burst_runs_with_lazy_consumer" } else { "burst_runs_with_eager_consumer" }, 1);
        run.seen("burst_output_sizes_kib", &format!("{}", (o.out.len() / 1024).next_power_of_two()));
        run.sample_upto(16, json!({"burst_plan": {"responses": n, "long_burst": long, "longest_ready_run": longest_ready_run, "large_then_ready": large_then_ready,
            "consumer_gated": plan.consumer_gated, "end_gated": plan.end_gated, "max_ticks": max_ticks}, "output_bytes": o.out.len(), "chunks": o.chunk_ends.len()}));
    }
}

/// Self-test of the reader on hand-made bodies (a monitor that accepts everything proves nothing).
fn reader_selftest(run: &Run) -> bool {
    let good: [&[u8]; 4] = [
        b"--graphql--\r\n",
        b"--graphql--",
        b"--graphql\r\nContent-Type: application/json\r\n\r\n{}\r\n--graphql--\r\n",
        b"--graphql\r\ncontent-type: application/json\r\n\r\n{\"a\":\"--graphql\"}\r\n--graphql\r\nContent-Type: application/json\r\n\r\n{}\r\n--graphql--\r\n",
    ];
    let bad: [&[u8]; 8] = [
        b"",
        b"\r\n--graphql--\r\n",
        b"--graphql\r\nContent-Type: application/json\r\n\r\n{}\r\n",
        b"--graphql\r\nContent-Type: application/json\r\n\r\n{}--graphql--\r\n",
        b"--graphql\r\nContent-Type: application/json\r\n\r\n{}\r\n--graphql--\r\n--graphql--\r\n",
        b"--graphql\r\nContent-Type: application/json\r\n\r\n{\"a\":\"\r\n--graphqlx\"}\r\n--graphql--\r\n",
        b"--graphql\r\nContent-Type application/json\r\n\r\n{}\r\n--graphql--\r\n",
        b"--graphql\r\nContent-Type: application/json\r\n\r\n{}\r\n--graphql--\r\nextra",
    ];
    let mut ok = true;
    for g in good {
        if let Err(e) = read_multipart(g, BOUNDARY) {
            run.inconclusive(&format!("reader self-test: rejects a well-formed body {:?}: {e}", lossy(g, 80)));
            ok = false;
        }
    }
    for b in bad {
        if read_multipart(b, BOUNDARY).is_ok() {
            run.inconclusive(&format!("reader self-test: accepts a malformed body {:?}", lossy(b, 80)));
            ok = false;
        }
    }
    if ok {
        run.count("reader_selftest_cases", (good.len() + bad.len()) as u64);
    }
    ok
}

/// Self-test of the judge: hand-made outputs for a two-response plan; only the faithful one may pass.
fn judge_selftest(run: &Run) -> bool {
    let mut r = Rng::new(1);
    let plan = Plan {
        responses: vec![(gen_response_json(&mut r, 0), true), (gen_response_json(&mut r, 1), true)],
        end_gated: true,
        max_ticks: 1,
        immediate_ticks: vec![],
        consumer_gated: false,
    };
    let exp: Vec<Vec<u8>> = plan.responses.iter().map(|(j, _)| serde_json::to_vec(&build_response(j)).unwrap()).collect();
    let part = |b: &[u8]| [b"--graphql\r\nContent-Type: application/json\r\n\r\n".as_slice(), b, b"\r\n"].concat();
    let close = b"--graphql--\r\n".to_vec();
    // each variant: (chunks, log with Chunk(i) placeholders filled in below, must pass)
    let mk = |chunks: Vec<Vec<u8>>, events: Vec<Ev>| {
        let mut out = vec![];
        let mut ends = vec![];
        for c in &chunks {
            out.extend_from_slice(c);
            ends.push(out.len());
        }
        Observed { out, chunk_ends: ends, log: events, opened: vec![], outcome: Outcome::Done, wrong_interval: 0, expected_bytes: exp.clone() }
    };
    use Ev::*;
    let variants: Vec<(&str, Observed, bool)> = vec![
        ("faithful", mk(vec![part(&exp[0]), part(b"{}"), part(&exp[1]), close.clone()], vec![Resp(0), Chunk(0), Tick(0), Chunk(1), Resp(1), Chunk(2), End, Chunk(3), Done]), true),
        ("swapped", mk(vec![part(&exp[1]), part(&exp[0]), close.clone()], vec![Resp(0), Resp(1), Chunk(0), Chunk(1), End, Chunk(2), Done]), false),
        ("duplicated", mk(vec![part(&exp[0]), part(&exp[0]), part(&exp[1]), close.clone()], vec![Resp(0), Chunk(0), Chunk(1), Resp(1), Chunk(2), End, Chunk(3), Done]), false),
        ("missing", mk(vec![part(&exp[0]), close.clone()], vec![Resp(0), Chunk(0), Resp(1), End, Chunk(1), Done]), false),
        ("no close", mk(vec![part(&exp[0]), part(&exp[1])], vec![Resp(0), Chunk(0), Resp(1), Chunk(1), End, Done]), false),
        ("close twice", mk(vec![part(&exp[0]), part(&exp[1]), close.clone(), close.clone()], vec![Resp(0), Chunk(0), Resp(1), Chunk(1), End, Chunk(2), Chunk(3), Done]), false),
        ("close before end", mk(vec![part(&exp[0]), part(&exp[1]), close.clone()], vec![Resp(0), Chunk(0), Resp(1), Chunk(1), Chunk(2), End, Done]), false),
        ("heartbeat without firing", mk(vec![part(&exp[0]), part(b"{}"), part(&exp[1]), close.clone()], vec![Resp(0), Chunk(0), Chunk(1), Resp(1), Chunk(2), End, Chunk(3), Done]), false),
        ("wrong content type", mk(vec![[b"--graphql\r\nContent-Type: text/plain\r\n\r\n".as_slice(), &exp[0], b"\r\n"].concat(), part(&exp[1]), close.clone()], vec![Resp(0), Chunk(0), Resp(1), Chunk(1), End, Chunk(2), Done]), false),
        ("missing CRLF before delimiter", mk(vec![[b"--graphql\r\nContent-Type: application/json\r\n\r\n".as_slice(), &exp[0]].concat(), part(&exp[1]), close.clone()], vec![Resp(0), Chunk(0), Resp(1), Chunk(1), End, Chunk(2), Done]), false),
    ];
    let mut ok = true;
    let n = variants.len();
    for (name, o, must_pass) in variants {
        let res = judge(&plan, &o, &mut Stats::default());
        if res.is_ok() != must_pass {
            run.inconclusive(&format!("judge self-test: variant {name:?} gave {res:?}"));
            ok = false;
        }
    }
    if ok {
        run.count("judge_selftest_cases", n as u64);
    }
    ok
}

pub fn main() {
    let mut run = Run::from_args(
        "exploration",
        "create_multipart_mixed_stream driven by vsched (gate per response, gate for end-of-input, gate per timer delay = virtual time): \
         Dfs over ALL interleavings of n<=4 responses, <=4 timer firings and end-of-input with an eagerly polling consumer (exhaustive at \
         that bound iff the schedule count equals the closed form sum_t C(n+t,t)); larger bounds in the thorough tier; Dfs with a gated \
         consumer for <=2 responses/<=2 firings; random plans beyond (<=12 responses, <=10 firings, ungated bursts, immediate timers, gated \
         consumer); burst plans: 100-400 responses that are ready without suspension (optionally a pause every 30-230), and 2-12 responses of \
         which some are 4-20 KiB strings followed at once by ready small ones, each with an eagerly or lazily (gated) polling consumer. Response contents: data/errors/extensions with strings containing --graphql, CRLF--graphql--CRLF, part headers, {} , \
         U+2028, NUL, quotes. Distinct by (bound or plan, opened-gate sequence)",
    );
    run.assume("the schedule space is the order in which the environment makes responses / end-of-input / timer firings available; with the eager consumer the stream is polled to quiescence between any two of them");
    run.assume("futures_util::select! chooses among simultaneously ready branches with its own RNG; such schedules are only sampled (random part), not enumerated");
    run.assume("a zero-part body consisting of the close delimiter alone is accepted (DESIGN A.4 grammar allows zero parts)");
    run.assume("serde_json (harness side) defines the JSON equality used to compare a part with the content the harness generated");
    run.set_floors(300, 250);
    for c in ["response_parts_in_order", "heartbeat_parts", "dfs_schedules", "reader_selftest_cases", "judge_selftest_cases", "random_runs_with_simultaneously_ready_sources",
        "burst_runs_with_100_to_400_responses", "large_responses_followed_at_once_by_a_ready_response", "burst_runs_with_lazy_consumer", "burst_runs_with_eager_consumer"] {
        run.require_counter(c);
    }
    if !reader_selftest(&run) || !judge_selftest(&run) {
        run.finish();
    }

    let content_sets = run.scale(3, 10);
    let big = run.is_thorough();
    let random_n = run.scale(10_000, 200_000);
    let burst_n = run.scale(40, 1500);
    let shards = run.scale(8, 16);
    let exhaustive_ok = Mutex::new(true);
    std::thread::scope(|sc| {
        for shard in 0..shards {
            let run = &run;
            let exhaustive_ok = &exhaustive_ok;
            sc.spawn(move || {
                let mut r = Rng::new(rng::mix(&[run.seed, 26, shard]));
                let mut stats = Stats::default();
                if shard == 0 {
                    for _ in 0..content_sets {
                        for n in 0..=4 {
                            if !dfs_eager(run, &mut r, n, 4, &mut stats) {
                                *exhaustive_ok.lock().unwrap() = false;
                            }
                        }
                    }
                }
                if shard == 1 {
                    for n in 0..=2 {
                        for t in 0..=2 {
                            dfs_gated_consumer(run, &mut r, n, t, 200_000, &mut stats);
                        }
                    }
                }
                if big && shard >= 2 && shard < 6 {
                    // larger bounds, one per shard
                    let (n, t) = [(6, 6), (7, 5), (5, 7), (8, 4)][(shard - 2) as usize];
                    for k in 0..=n {
                        dfs_eager(run, &mut r, k, t, &mut stats);
                    }
                }
                if big && shard == 6 {
                    dfs_gated_consumer(run, &mut r, 3, 2, 300_000, &mut stats);
                }
                for _ in 0..random_n {
                    random_round(run, &mut r, &mut stats);
                }
                let mut rb = Rng::new(rng::mix(&[run.seed, 2626, shard]));
                for _ in 0..burst_n {
                    burst_round(run, &mut rb, &mut stats);
                }
                stats.flush(run);
            });
        }
    });
    let ok = *exhaustive_ok.lock().unwrap();
    run.exhaustive(ok);
    run.extra("exhaustive_bound", json!("<=4 responses, <=4 timer firings, end-of-input, eager consumer"));
    run.finish();
}
