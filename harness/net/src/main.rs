fn main() {
    let id = std::env::args().nth(1).unwrap_or_default();
    println!("INCONCLUSIVE property={id} reason=vh-net has no check for this property yet");
    std::process::exit(2);
}
