//! vh-net: HTTP helpers — request decoding, multipart uploads, multipart/mixed
//! subscription framing, GraphiQL page.

mod c23;
mod c24;
mod c26;
mod c34;
mod common;

fn main() {
    let id = std::env::args().nth(1).unwrap_or_default();
    match id.as_str() {
        "C23" => c23::main(),
        "C24" => c24::main(),
        "C26" => c26::main(),
        "C34" => c34::main(),
        other => {
            println!("INCONCLUSIVE property={other} reason=vh-net has no check for this property");
            std::process::exit(2);
        }
    }
}
