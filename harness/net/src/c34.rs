//! C34 — the GraphiQL page embeds its configuration verbatim and safely.
//!
//! Monitor = the harness's own evaluator of the generated page:
//!   H  HTML tokenisation (WHATWG states that matter here): tags, comments,
//!      `<title>` as RCDATA (character references decoded), `<style>` as
//!      RAWTEXT, `<script>` as script data = raw text up to the first
//!      `</script` + (whitespace | `/` | `>`), ASCII case-insensitive, NO
//!      character-reference decoding. The tag skeleton must equal the skeleton of
//!      a page rendered from harmless values (nothing configured may open or
//!      close an element).
//!   J  in the `type="module"` script the argument of `createGraphiQLFetcher(`
//!      is parsed as a JS expression (object literal, identifier, call, string
//!      literal) and every string literal is evaluated per ECMA-262 12.9.4
//!      (module code = strict): escapes \' \" \\ \b \f \n \r \t \v \0 \xHH
//!      \uHHHH \u{H+}, line continuations, identity escapes; raw LF / CR in a
//!      literal is a SyntaxError (raw U+2028/U+2029 are legal since ES2019);
//!      legacy octal and \8 \9 are SyntaxErrors. Strings are compared as UTF-16.
//!   Sites: url: createUrl('<endpoint>'), subscriptionUrl: createUrl('<sub>'),
//!      headers: { '<name>': '<value>' }, wsConnectionParams: { ... }, and
//!      <title> (HTML context; CR/CRLF compared after newline normalisation).
//!   X  if /usr/bin/node exists, the script (imports stripped, environment
//!      stubbed) is run by node on a sample of cases and node's captured
//!      configuration must equal the evaluator's result, else INCONCLUSIVE.

use std::collections::BTreeMap;
use std::io::Write;

use async_graphql::http::GraphiQLSource;
use vh_core::serde_json::{self, Value as J, json};
use vh_core::{Rng, Run, catch, rng};

// ---------- HTML ----------

#[derive(Debug, Default, Clone)]
pub struct Page {
    /// tag skeleton: "<name" for start tags, "</name" for end tags
    pub tags: Vec<String>,
    pub title_raw: Option<String>,
    /// (attributes text, raw content)
    pub scripts: Vec<(String, String)>,
    pub problems: Vec<String>,
}

fn starts_with_ci(s: &[char], at: usize, pat: &str) -> bool {
    let p: Vec<char> = pat.chars().collect();
    if at + p.len() > s.len() {
        return false;
    }
    (0..p.len()).all(|i| s[at + i].eq_ignore_ascii_case(&p[i]))
}

fn is_tag_end_char(c: char) -> bool {
    matches!(c, '\t' | '\n' | '\u{c}' | '\r' | ' ' | '/' | '>')
}

/// Find the end tag `</name` + (ws | / | >) case-insensitively, from `from`.
fn find_end_tag(s: &[char], from: usize, name: &str) -> Option<usize> {
    let pat = format!("</{name}");
    let n = pat.chars().count();
    let mut i = from;
    while i + n <= s.len() {
        if s[i] == '<' && starts_with_ci(s, i, &pat) && s.get(i + n).copied().is_none_or(is_tag_end_char) {
            return Some(i);
        }
        i += 1;
    }
    None
}

pub fn tokenize_html(html: &str) -> Page {
    let s: Vec<char> = html.chars().collect();
    let mut page = Page::default();
    let mut i = 0usize;
    while i < s.len() {
        if s[i] != '<' {
            i += 1;
            continue;
        }
        if starts_with_ci(&s, i, "<!--") {
            // comment
            let mut j = i + 4;
            let mut closed = false;
            while j + 3 <= s.len() {
                if s[j] == '-' && s[j + 1] == '-' && s[j + 2] == '>' {
                    closed = true;
                    break;
                }
                j += 1;
            }
            page.tags.push("<!--".into());
            if !closed {
                page.problems.push("unterminated comment".into());
                break;
            }
            i = j + 3;
            continue;
        }
        if starts_with_ci(&s, i, "<!") {
            while i < s.len() && s[i] != '>' {
                i += 1;
            }
            i += 1;
            continue;
        }
        let end_tag = s.get(i + 1) == Some(&'/');
        let name_start = if end_tag { i + 2 } else { i + 1 };
        if !s.get(name_start).is_some_and(|c| c.is_ascii_alphabetic()) {
            i += 1; // a lone '<' is text
            continue;
        }
        let mut j = name_start;
        while j < s.len() && !is_tag_end_char(s[j]) {
            j += 1;
        }
        let name: String = s[name_start..j].iter().collect::<String>().to_ascii_lowercase();
        // attributes up to '>' (quoted values may contain '>')
        let attr_start = j;
        let mut quote: Option<char> = None;
        while j < s.len() {
            match quote {
                Some(q) if s[j] == q => quote = None,
                Some(_) => {}
                None if s[j] == '"' || s[j] == '\'' => quote = Some(s[j]),
                None if s[j] == '>' => break,
                None => {}
            }
            j += 1;
        }
        if j >= s.len() {
            page.problems.push(format!("unterminated tag <{name}"));
            break;
        }
        let attrs: String = s[attr_start..j].iter().collect();
        i = j + 1;
        if end_tag {
            page.tags.push(format!("</{name}"));
            continue;
        }
        page.tags.push(format!("<{name}"));
        match name.as_str() {
            "title" | "textarea" | "style" | "script" => {
                let Some(e) = find_end_tag(&s, i, &name) else {
                    page.problems.push(format!("<{name}> is never closed"));
                    break;
                };
                let raw: String = s[i..e].iter().collect();
                match name.as_str() {
                    "title" => {
                        if page.title_raw.is_none() {
                            page.title_raw = Some(raw)
                        }
                    }
                    "script" => page.scripts.push((attrs, raw)),
                    _ => {}
                }
                i = e; // the end tag is tokenised by the main loop
            }
            _ => {}
        }
    }
    page
}

/// Character references as decoded in RCDATA / data (numeric, and the five
/// named references with semicolon that an escaper can produce).
pub fn decode_char_refs(s: &str) -> String {
    let c: Vec<char> = s.chars().collect();
    let mut out = String::new();
    let mut i = 0;
    while i < c.len() {
        if c[i] != '&' {
            out.push(c[i]);
            i += 1;
            continue;
        }
        let rest: String = c[i..c.len().min(i + 12)].iter().collect();
        let mut done = false;
        for (name, ch) in [("&amp;", '&'), ("&lt;", '<'), ("&gt;", '>'), ("&quot;", '"'), ("&apos;", '\'')] {
            if rest.starts_with(name) {
                out.push(ch);
                i += name.len();
                done = true;
                break;
            }
        }
        if done {
            continue;
        }
        if rest.starts_with("&#") {
            let hex = rest[2..].starts_with('x') || rest[2..].starts_with('X');
            let digits_start = if hex { 3 } else { 2 };
            let digits: String = rest[digits_start..].chars().take_while(|d| if hex { d.is_ascii_hexdigit() } else { d.is_ascii_digit() }).collect();
            if !digits.is_empty() && rest[digits_start + digits.len()..].starts_with(';') {
                if let Some(ch) = u32::from_str_radix(&digits, if hex { 16 } else { 10 }).ok().and_then(char::from_u32) {
                    out.push(ch);
                    i += digits_start + digits.len() + 1;
                    continue;
                }
            }
        }
        out.push('&');
        i += 1;
    }
    out
}

// ---------- JS ----------

#[derive(Debug, Clone, PartialEq)]
pub enum Js {
    Str(Vec<u16>),
    Ident(String),
    Call(String, Vec<Js>),
    Obj(Vec<(Vec<u16>, Js)>),
}

struct JsParser<'a> {
    s: &'a [char],
    i: usize,
}

fn is_js_ws(c: char) -> bool {
    matches!(c, '\t' | '\u{b}' | '\u{c}' | ' ' | '\u{a0}' | '\u{feff}' | '\n' | '\r' | '\u{2028}' | '\u{2029}') || (c != '\u{85}' && c.is_whitespace() && !c.is_ascii())
}

fn show(u: &[u16]) -> String {
    serde_json::to_string(&String::from_utf16_lossy(u)).unwrap()
}

impl<'a> JsParser<'a> {
    fn ws(&mut self) {
        while self.i < self.s.len() && is_js_ws(self.s[self.i]) {
            self.i += 1;
        }
    }
    fn peek(&self) -> Option<char> {
        self.s.get(self.i).copied()
    }
    fn context(&self, at: usize) -> String {
        let a = at.saturating_sub(40);
        let b = (at + 30).min(self.s.len());
        self.s[a..b].iter().collect()
    }
    fn err<T>(&self, msg: &str) -> Result<T, String> {
        Err(format!("{msg} at offset {} near {:?}", self.i, self.context(self.i)))
    }

    /// ECMA-262 StringLiteral, strict mode. `self.i` is at the opening quote.
    fn string(&mut self) -> Result<Vec<u16>, String> {
        let q = self.s[self.i];
        let start = self.i;
        self.i += 1;
        let mut out: Vec<u16> = vec![];
        let mut buf = [0u16; 2];
        loop {
            let Some(c) = self.peek() else {
                return Err(format!("unterminated string literal starting at offset {start} near {:?}", self.context(start)));
            };
            self.i += 1;
            if c == q {
                return Ok(out);
            }
            if c == '\n' || c == '\r' {
                return Err(format!(
                    "raw line terminator U+{:04X} inside the string literal starting at offset {start} near {:?}",
                    c as u32,
                    self.context(start)
                ));
            }
            if c != '\\' {
                out.extend_from_slice(c.encode_utf16(&mut buf));
                continue;
            }
            let Some(e) = self.peek() else {
                return self.err("backslash at end of script");
            };
            self.i += 1;
            match e {
                '\'' | '"' | '\\' => out.push(e as u16),
                'b' => out.push(8),
                'f' => out.push(0xc),
                'n' => out.push(0xa),
                'r' => out.push(0xd),
                't' => out.push(9),
                'v' => out.push(0xb),
                '0' if !self.peek().is_some_and(|d| d.is_ascii_digit()) => out.push(0),
                '0'..='9' => return self.err("octal / \\8 \\9 escape in strict (module) code"),
                'x' => {
                    let h: String = self.s[self.i..self.s.len().min(self.i + 2)].iter().collect();
                    if h.chars().count() != 2 || !h.chars().all(|d| d.is_ascii_hexdigit()) {
                        return self.err("malformed \\x escape");
                    }
                    out.push(u16::from_str_radix(&h, 16).unwrap());
                    self.i += 2;
                }
                'u' => {
                    if self.peek() == Some('{') {
                        self.i += 1;
                        let mut h = String::new();
                        while let Some(d) = self.peek() {
                            if d == '}' {
                                break;
                            }
                            h.push(d);
                            self.i += 1;
                        }
                        if self.peek() != Some('}') || h.is_empty() || !h.chars().all(|d| d.is_ascii_hexdigit()) {
                            return self.err("malformed \\u{...} escape");
                        }
                        self.i += 1;
                        let v = u32::from_str_radix(&h, 16).unwrap_or(u32::MAX);
                        if v > 0x10FFFF {
                            return self.err("\\u{...} escape above 10FFFF");
                        }
                        if v >= 0x10000 {
                            let w = v - 0x10000;
                            out.push(0xD800 + (w >> 10) as u16);
                            out.push(0xDC00 + (w & 0x3FF) as u16);
                        } else {
                            out.push(v as u16);
                        }
                    } else {
                        let h: String = self.s[self.i..self.s.len().min(self.i + 4)].iter().collect();
                        if h.chars().count() != 4 || !h.chars().all(|d| d.is_ascii_hexdigit()) {
                            return self.err("malformed \\u escape");
                        }
                        out.push(u16::from_str_radix(&h, 16).unwrap());
                        self.i += 4;
                    }
                }
                '\r' => {
                    if self.peek() == Some('\n') {
                        self.i += 1;
                    }
                }
                '\n' | '\u{2028}' | '\u{2029}' => {}
                other => out.extend_from_slice(other.encode_utf16(&mut buf)),
            }
        }
    }

    fn ident(&mut self) -> Option<String> {
        let st = self.i;
        while let Some(c) = self.peek() {
            let ok = c == '_' || c == '$' || c.is_ascii_alphabetic() || (self.i > st && c.is_ascii_digit());
            if !ok {
                break;
            }
            self.i += 1;
        }
        if self.i > st { Some(self.s[st..self.i].iter().collect()) } else { None }
    }

    fn value(&mut self) -> Result<Js, String> {
        self.ws();
        match self.peek() {
            Some('\'') | Some('"') => Ok(Js::Str(self.string()?)),
            Some('{') => self.object(),
            _ => {
                let Some(id) = self.ident() else {
                    return self.err("expected a value");
                };
                self.ws();
                if self.peek() == Some('(') {
                    self.i += 1;
                    let mut args = vec![];
                    loop {
                        self.ws();
                        if self.peek() == Some(')') {
                            self.i += 1;
                            break;
                        }
                        args.push(self.value()?);
                        self.ws();
                        match self.peek() {
                            Some(',') => self.i += 1,
                            Some(')') => {}
                            _ => return self.err("expected ',' or ')' in argument list"),
                        }
                    }
                    Ok(Js::Call(id, args))
                } else {
                    Ok(Js::Ident(id))
                }
            }
        }
    }

    fn object(&mut self) -> Result<Js, String> {
        self.i += 1; // {
        let mut props = vec![];
        loop {
            self.ws();
            match self.peek() {
                Some('}') => {
                    self.i += 1;
                    return Ok(Js::Obj(props));
                }
                Some('\'') | Some('"') => {
                    let k = self.string()?;
                    self.ws();
                    if self.peek() != Some(':') {
                        return self.err("expected ':' after property name");
                    }
                    self.i += 1;
                    let v = self.value()?;
                    props.push((k, v));
                }
                _ => {
                    let Some(id) = self.ident() else {
                        return self.err("expected a property name or '}'");
                    };
                    self.ws();
                    if self.peek() != Some(':') {
                        return self.err("expected ':' after property name");
                    }
                    self.i += 1;
                    let v = self.value()?;
                    props.push((id.encode_utf16().collect(), v));
                }
            }
            self.ws();
            match self.peek() {
                Some(',') => self.i += 1,
                Some('}') => {}
                _ => return self.err("expected ',' or '}' after a property (object literal is not well-formed)"),
            }
        }
    }
}

/// Evaluate the argument of `createGraphiQLFetcher(` in the module script.
pub fn eval_fetcher_config(script: &str) -> Result<Js, String> {
    let anchor = "createGraphiQLFetcher(";
    let chars: Vec<char> = script.chars().collect();
    // the first occurrence that is a call (the import line has `{ createGraphiQLFetcher }` without paren)
    let hay: String = chars.iter().collect();
    let Some(byte_at) = hay.find(anchor) else {
        return Err("createGraphiQLFetcher( call not found in the module script".into());
    };
    let at = hay[..byte_at].chars().count() + anchor.chars().count();
    let mut p = JsParser { s: &chars, i: at };
    let v = p.value()?;
    p.ws();
    if p.peek() != Some(')') {
        return p.err("expected ')' after the fetcher configuration");
    }
    Ok(v)
}

// ---------- configuration ----------

#[derive(Debug, Clone, Default)]
struct Config {
    endpoint: String,
    sub: Option<String>,
    title: Option<String>,
    headers: Vec<(String, String)>,
    ws: Vec<(String, String)>,
}

impl Config {
    fn to_json(&self) -> J {
        json!({"endpoint": self.endpoint, "subscription_endpoint": self.sub, "title": self.title, "headers": self.headers, "ws_connection_params": self.ws})
    }
    fn render(&self) -> Result<String, String> {
        let c = self.clone();
        catch(move || {
            let mut b = GraphiQLSource::build().endpoint(&c.endpoint);
            if let Some(s) = &c.sub {
                b = b.subscription_endpoint(s);
            }
            if let Some(t) = &c.title {
                b = b.title(t);
            }
            for (k, v) in &c.headers {
                b = b.header(k, v);
            }
            for (k, v) in &c.ws {
                b = b.ws_connection_param(k, v);
            }
            b.finish()
        })
    }
}

#[derive(Clone, Copy)]
struct Feat {
    html_special: bool,
    backslash: bool,
    line_term: bool,
    both_maps: bool,
}

/// `script`: value goes into the script (feature gates apply); the title always gets the full alphabet.
fn gen_value(r: &mut Rng, f: Feat, script: bool) -> String {
    let mut s = String::new();
    let n = match r.below(8) {
        0 => 0,
        1..=4 => 1 + r.below(5),
        _ => 1 + r.below(14),
    };
    for _ in 0..n {
        let class = r.below(10);
        match class {
            0 if !script || f.html_special => s.push_str(*r.pick(&["'", "\"", "&", "<", ">", "</script>", "</SCRIPT >", "<!--", "-->", "&amp;", "&#39;", "<script>", "</title>", "&lt;"])),
            1 if !script || f.backslash => s.push_str(*r.pick(&["\\", "\\\\", "\\n", "\\'", "\\u0041", "\\x41", "\\u{1F600}", "\\0", "\\1", "\\u12", "\\x4", "\\\u{2028}"])),
            2 if !script || f.line_term => s.push_str(*r.pick(&["\n", "\r", "\r\n"])),
            3 => s.push_str(*r.pick(&["`", "${x}", "\u{2028}", "\u{2029}", "\u{a0}", "\u{feff}", "\t"])),
            4 => s.push_str(*r.pick(&["é", "ß", "中", "😀", "я", "\u{7f}", "\u{80}", "\u{1}"])),
            5 => s.push_str(*r.pick(&["/graphql", "/ws", "https://example.com:8000/api", "?a=1", ";b=2", "Bearer ", "token", "Authorization", "//", "#frag", "%20"])),
            _ => s.push(*r.pick(b"abcXYZ019 /?=.-_:()[]{},;!@#$%^*+|~") as char),
        }
    }
    s
}

fn gen_config(r: &mut Rng, f: Feat) -> Config {
    let mut c = Config { endpoint: gen_value(r, f, true), ..Default::default() };
    if r.bool() {
        c.sub = Some(gen_value(r, f, true));
    }
    if r.chance(2, 3) {
        c.title = Some(gen_value(r, f, false));
    }
    let mut nh = if r.bool() { 1 + r.below(3) } else { 0 };
    let mut nw = if r.bool() { 1 + r.below(3) } else { 0 };
    if !f.both_maps && nh > 0 && nw > 0 {
        if r.bool() {
            nh = 0
        } else {
            nw = 0
        }
    }
    for (n, tgt) in [(nh, 0), (nw, 1)] {
        let mut m: Vec<(String, String)> = vec![];
        for _ in 0..n {
            let k = if r.bool() { gen_value(r, f, true) } else { format!("X-{}", r.below(1000)) };
            if m.iter().any(|(x, _)| *x == k) {
                continue;
            }
            m.push((k, gen_value(r, f, true)));
        }
        if tgt == 0 { c.headers = m } else { c.ws = m }
    }
    c
}

fn u16s(s: &str) -> Vec<u16> {
    s.encode_utf16().collect()
}

fn norm_newlines(s: &str) -> String {
    s.replace("\r\n", "\n").replace('\r', "\n")
}

struct Verdict {
    /// (site, description) of the first broken site
    broken: Option<(String, String)>,
    script: Option<String>,
    evaluated: Option<Js>,
}

fn obj_get<'a>(o: &'a [(Vec<u16>, Js)], k: &str) -> Option<&'a Js> {
    let k = u16s(k);
    o.iter().rev().find(|(n, _)| *n == k).map(|(_, v)| v)
}

fn check_map(site: &str, want: &[(String, String)], got: Option<&Js>) -> Result<(), (String, String)> {
    if want.is_empty() {
        return match got {
            None => Ok(()),
            Some(g) => Err((site.to_string(), format!("{site} present although nothing is configured: {g:?}"))),
        };
    }
    let Some(Js::Obj(props)) = got else {
        return Err((site.to_string(), format!("{site}: expected an object literal, found {got:?}")));
    };
    // JS semantics: later duplicate keys win
    let mut m: BTreeMap<Vec<u16>, &Js> = BTreeMap::new();
    for (k, v) in props {
        m.insert(k.clone(), v);
    }
    for (k, v) in want {
        match m.get(&u16s(k)) {
            None => {
                let names: Vec<String> = m.keys().map(|x| show(x)).collect();
                return Err((format!("{site}.name"), format!("{site}: configured name {} is not a key of the evaluated object (keys: {})", show(&u16s(k)), names.join(", "))));
            }
            Some(Js::Str(g)) if *g == u16s(v) => {}
            Some(Js::Str(g)) => {
                return Err((format!("{site}.value"), format!("{site}[{}]: configured {} but the script evaluates to {}", show(&u16s(k)), show(&u16s(v)), show(g))));
            }
            Some(other) => return Err((format!("{site}.value"), format!("{site}[{}]: not a string literal: {other:?}", show(&u16s(k))))),
        }
    }
    if m.len() != want.len() {
        return Err((site.to_string(), format!("{site}: {} configured entries but {} evaluated keys", want.len(), m.len())));
    }
    Ok(())
}

fn check_url(site: &str, want: Option<&str>, got: Option<&Js>) -> Result<(), (String, String)> {
    match (want, got) {
        (None, None) => Ok(()),
        (None, Some(g)) => Err((site.to_string(), format!("{site} present although not configured: {g:?}"))),
        (Some(w), Some(Js::Call(f, args))) if f == "createUrl" && args.len() == 1 => match &args[0] {
            Js::Str(g) if *g == u16s(w) => Ok(()),
            Js::Str(g) => Err((site.to_string(), format!("{site}: configured {} but the script evaluates to {}", show(&u16s(w)), show(g)))),
            other => Err((site.to_string(), format!("{site}: argument is not a string literal: {other:?}"))),
        },
        (Some(_), other) => Err((site.to_string(), format!("{site}: expected createUrl('<value>'), found {other:?}"))),
    }
}

fn skeleton_of(c: &Config) -> Result<Vec<String>, String> {
    // same shape, harmless values
    let benign = Config {
        endpoint: "/e".into(),
        sub: c.sub.as_ref().map(|_| "/s".to_string()),
        title: c.title.as_ref().map(|_| "t".to_string()),
        headers: c.headers.iter().enumerate().map(|(i, _)| (format!("h{i}"), "v".to_string())).collect(),
        ws: c.ws.iter().enumerate().map(|(i, _)| (format!("w{i}"), "v".to_string())).collect(),
    };
    Ok(tokenize_html(&benign.render()?).tags)
}

fn examine(c: &Config, html: &str, base_tags: &[String]) -> Verdict {
    let page = tokenize_html(html);
    let mut v = Verdict { broken: None, script: None, evaluated: None };
    let module = page.scripts.iter().find(|(a, _)| a.contains("module")).map(|(_, s)| s.clone());
    v.script = module.clone();
    // title (HTML context)
    let title_res: Result<(), (String, String)> = match (&c.title, &page.title_raw) {
        (Some(t), Some(raw)) => {
            let dec = decode_char_refs(raw);
            if norm_newlines(&dec) == norm_newlines(t) {
                Ok(())
            } else {
                Err(("title".into(), format!("title: configured {} but the <title> text is {}", show(&u16s(t)), show(&u16s(&dec)))))
            }
        }
        (None, Some(raw)) if raw.trim() == "GraphiQL" => Ok(()),
        (_, other) => Err(("title".into(), format!("title element content {other:?}"))),
    };
    // script sites
    let script_res: Result<(), (String, String)> = (|| {
        let Some(script) = &module else {
            return Err(("script".to_string(), "no <script type=module> element found".to_string()));
        };
        let cfg = eval_fetcher_config(script).map_err(|e| ("script-syntax".to_string(), format!("fetcher configuration is not well-formed JS: {e}")))?;
        v.evaluated = Some(cfg.clone());
        let Js::Obj(props) = &cfg else {
            return Err(("script".to_string(), format!("fetcher configuration is not an object literal: {cfg:?}")));
        };
        check_url("url", Some(&c.endpoint), obj_get(props, "url"))?;
        check_url("subscriptionUrl", c.sub.as_deref(), obj_get(props, "subscriptionUrl"))?;
        check_map("headers", &c.headers, obj_get(props, "headers"))?;
        check_map("wsConnectionParams", &c.ws, obj_get(props, "wsConnectionParams"))?;
        Ok(())
    })();
    let skeleton_res: Result<(), (String, String)> = if !page.problems.is_empty() {
        Err(("html".into(), format!("HTML tokenisation problems: {:?}", page.problems)))
    } else if page.tags != base_tags {
        let at = page.tags.iter().zip(base_tags).position(|(a, b)| a != b).unwrap_or(page.tags.len().min(base_tags.len()));
        Err(("html".into(), format!("a configured value changed the element structure: tag #{at} is {:?}, expected {:?}", page.tags.get(at), base_tags.get(at))))
    } else {
        Ok(())
    };
    v.broken = skeleton_res.err().or(script_res.err()).or(title_res.err());
    v
}

fn js_to_json(v: &Js) -> J {
    match v {
        Js::Str(u) => json!({"s": u}),
        Js::Ident(i) => json!({"id": i}),
        Js::Call(f, a) => json!({"call": f, "args": a.iter().map(js_to_json).collect::<Vec<_>>()}),
        Js::Obj(p) => {
            // JS object semantics: later duplicate wins, integer-like keys are ordered first; compare as a map
            let mut m: BTreeMap<String, J> = BTreeMap::new();
            for (k, x) in p {
                m.insert(serde_json::to_string(k).unwrap(), js_to_json(x));
            }
            json!({"obj": m})
        }
    }
}

fn js_pretty(v: &Js) -> String {
    match v {
        Js::Str(u) => show(u),
        Js::Ident(i) => i.clone(),
        Js::Call(f, a) => format!("{f}({})", a.iter().map(js_pretty).collect::<Vec<_>>().join(", ")),
        Js::Obj(p) => format!("{{{}}}", p.iter().map(|(k, x)| format!("{}: {}", show(k), js_pretty(x))).collect::<Vec<_>>().join(", ")),
    }
}

// ---------- node cross-check ----------

const NODE_JS: &str = r#"
const fs = require('fs');
const cases = JSON.parse(fs.readFileSync(process.argv[2], 'utf8'));
const units = s => { const a = []; for (let i = 0; i < s.length; i++) a.push(s.charCodeAt(i)); return a; };
const conv = v => {
  if (typeof v === 'string') return {s: units(v)};
  if (v && v.__id) return {id: v.__id};
  if (v && v.__call) return {call: v.__call, args: v.args.map(conv)};
  if (v && typeof v === 'object') { const m = {}; for (const k of Object.keys(v)) m[JSON.stringify(units(k))] = conv(v[k]); return {obj: m}; }
  return {other: String(v)};
};
const out = [];
for (const src of cases) {
  // strip the six static import lines at the top of the module script
  let body = src, n = 0;
  for (;;) { const m = /^\s*import [^\n]*\n/.exec(body); if (!m) break; body = body.slice(m[0].length); n++; }
  let captured;
  class URL { constructor(e) { this.e = e; this.protocol = 'http:'; } toString() { return {__call: 'createUrl', args: [this.e]}; } }
  const stub = new Proxy(function () {}, { get: () => stub, apply: () => stub, construct: () => stub });
  try {
    const f = new Function('React', 'ReactDOM', 'GraphiQL', 'HISTORY_PLUGIN', 'createGraphiQLFetcher', 'explorerPlugin', 'URL', 'window', 'document', 'fetch',
      '"use strict";' + body);
    f(stub, stub, stub, stub, cfg => { captured = cfg; return stub; }, () => stub, URL, {location: {origin: 'http://h'}}, {getElementById: () => stub}, () => stub);
    const c = Object.assign({}, captured);
    if (typeof c.fetch === 'function') c.fetch = {__id: 'customFetch'};
    out.push({ok: conv(c), imports: n});
  } catch (e) {
    out.push({error: String(e && e.name), message: String(e && e.message), imports: n});
  }
}
process.stdout.write(JSON.stringify(out));
"#;

struct NodeCheck {
    dir: std::path::PathBuf,
    available: bool,
}

impl NodeCheck {
    fn new() -> NodeCheck {
        let available = std::path::Path::new("/usr/bin/node").exists() && std::env::var("VH_C34_NO_NODE").is_err();
        let dir = std::env::temp_dir().join(format!("vh-c34-{}", std::process::id()));
        if available {
            let _ = std::fs::create_dir_all(&dir);
            let _ = std::fs::write(dir.join("check.js"), NODE_JS);
        }
        NodeCheck { dir, available }
    }

    /// Returns node's verdict per script: Ok(config json) or Err(error name).
    fn run(&self, shard: u64, scripts: &[String]) -> Result<Vec<Result<J, String>>, String> {
        let input = self.dir.join(format!("in-{shard}.json"));
        let mut f = std::fs::File::create(&input).map_err(|e| e.to_string())?;
        f.write_all(serde_json::to_string(scripts).unwrap().as_bytes()).map_err(|e| e.to_string())?;
        drop(f);
        let out = std::process::Command::new("/usr/bin/node")
            .arg(self.dir.join("check.js"))
            .arg(&input)
            .output()
            .map_err(|e| format!("cannot run node: {e}"))?;
        if !out.status.success() {
            return Err(format!("node failed: {}", String::from_utf8_lossy(&out.stderr)));
        }
        let v: J = serde_json::from_slice(&out.stdout).map_err(|e| format!("node output unreadable: {e}"))?;
        let arr = v.as_array().ok_or("node output is not an array")?;
        if arr.len() != scripts.len() {
            return Err("node output length differs".into());
        }
        Ok(arr
            .iter()
            .map(|x| if let Some(ok) = x.get("ok") { Ok(ok.clone()) } else { Err(format!("{}: {}", x["error"].as_str().unwrap_or("?"), x["message"].as_str().unwrap_or("?"))) })
            .collect())
    }
}

impl Drop for NodeCheck {
    fn drop(&mut self) {
        if self.available {
            let _ = std::fs::remove_dir_all(&self.dir);
        }
    }
}

/// Compare the evaluator with node on a batch; disagreement = the oracle is not trustworthy => inconclusive.
fn cross_check(run: &Run, node: &NodeCheck, shard: u64, batch: &mut Vec<(String, Option<Js>, J)>) {
    if !node.available || batch.is_empty() {
        batch.clear();
        return;
    }
    let scripts: Vec<String> = batch.iter().map(|b| b.0.clone()).collect();
    match node.run(shard, &scripts) {
        Err(e) => run.inconclusive(&format!("node cross-check failed to run: {e}")),
        Ok(res) => {
            for ((_, mine, cfg), theirs) in batch.iter().zip(res) {
                match (mine, theirs) {
                    (Some(m), Ok(t)) => {
                        let mj = js_to_json(m);
                        // node reports the object it captured: { url, fetch, ... } with url values as call markers
                        if mj == t {
                            run.count("node_agrees_on_value", 1);
                        } else {
                            run.inconclusive(&format!("evaluator and node disagree: evaluator {mj} node {t} config {cfg}"));
                        }
                    }
                    (None, Err(e)) => {
                        run.count("node_agrees_on_syntax_error", 1);
                        run.seen("node_error_kinds", e.split(':').next().unwrap_or("?"));
                    }
                    (Some(m), Err(e)) => run.inconclusive(&format!("evaluator accepts but node rejects ({e}): evaluator {} config {cfg}", js_to_json(m))),
                    (None, Ok(t)) => run.inconclusive(&format!("evaluator rejects but node evaluates to {t}: config {cfg}")),
                }
            }
        }
    }
    batch.clear();
}

// ---------- pinned witnesses ----------

fn witness(run: &Run, id: &str, c: Config, explain: &str) {
    run.eval();
    let html = match c.render() {
        Ok(h) => h,
        Err(p) => {
            run.violation(&format!("{id}|panic"), &format!("GraphiQLSource::finish panicked: {p}"), c.to_json());
            return;
        }
    };
    let base = match skeleton_of(&c) {
        Ok(b) => b,
        Err(e) => {
            run.inconclusive(&format!("cannot render baseline page: {e}"));
            return;
        }
    };
    let v = examine(&c, &html, &base);
    match v.broken {
        None => run.count("witnesses_behaving", 1),
        Some((site, what)) => {
            // strip volatile offsets from the signature
            let stable: String = what.split(" near ").next().unwrap_or(&what).split(" at offset ").next().unwrap_or(&what).to_string();
            run.violation(&format!("{id}|{site}: {stable}"), &format!("{what}. {explain}"), json!({"config": c.to_json(), "site": site, "script": v.script}));
        }
    }
}

fn witnesses(run: &Run) {
    let why = "templates/graphiql_source.jinja renders every value with askama's default HTML escaper ({{ value }}), also inside <script type=\"module\"> \
               where character references are not decoded and where backslash and line terminators are significant to JS";
    witness(
        run,
        "C34-entity-in-script",
        Config { endpoint: "/graphql?a=1&b='x'".into(), ..Default::default() },
        &format!("{why} (templates/graphiql_source.jinja:81)"),
    );
    witness(
        run,
        "C34-backslash-in-script",
        Config { endpoint: "/".into(), headers: vec![("X-Path".into(), "C:\\new".into())], ..Default::default() },
        &format!("{why}; backslash is not escaped, so the two characters \\n are evaluated as a line feed (templates/graphiql_source.jinja:89)"),
    );
    witness(
        run,
        "C34-trailing-backslash-in-script",
        Config { endpoint: "/".into(), ws: vec![("token".into(), "abc\\".into())], ..Default::default() },
        &format!("{why}; a trailing backslash escapes the closing quote, the literal runs on into the following lines (templates/graphiql_source.jinja:96)"),
    );
    witness(
        run,
        "C34-line-terminator-in-script",
        Config { endpoint: "/".into(), sub: Some("/ws\n".into()), ..Default::default() },
        &format!("{why}; a raw LF inside a single-quoted literal is a SyntaxError, the whole module script is dropped (templates/graphiql_source.jinja:84)"),
    );
    witness(
        run,
        "C34-headers-ws-missing-comma",
        Config { endpoint: "/".into(), headers: vec![("A".into(), "b".into())], ws: vec![("c".into(), "d".into())], ..Default::default() },
        "the template emits `headers: {...}` and `wsConnectionParams: {...}` without a comma between them (templates/graphiql_source.jinja:91-94), so with both \
         configured the object literal is a SyntaxError and no configured string is evaluated at all",
    );
}

fn selftest(run: &Run) -> bool {
    // evaluator self-test on hand-made literals
    let cases: [(&str, Option<&str>); 12] = [
        ("createGraphiQLFetcher({ url: createUrl('a\\'b') })", Some("a'b")),
        ("createGraphiQLFetcher({ url: createUrl('\\x41\\u0042\\u{43}\\n\\0') })", Some("ABC\n\0")),
        ("createGraphiQLFetcher({ url: createUrl('a\\\nb') })", Some("ab")),
        ("createGraphiQLFetcher({ url: createUrl('a\u{2028}b') })", Some("a\u{2028}b")),
        ("createGraphiQLFetcher({ url: createUrl('&#39;') })", Some("&#39;")),
        ("createGraphiQLFetcher({ url: createUrl('\\q\\a') })", Some("qa")),
        ("createGraphiQLFetcher({ url: createUrl('a\nb') })", None),
        ("createGraphiQLFetcher({ url: createUrl('a\\') })", None),
        ("createGraphiQLFetcher({ url: createUrl('\\1') })", None),
        ("createGraphiQLFetcher({ url: createUrl('\\u12') })", None),
        ("createGraphiQLFetcher({ url: createUrl('a') b: 1 })", None),
        ("createGraphiQLFetcher({ url: createUrl('\\u{110000}') })", None),
    ];
    let mut ok = true;
    for (src, want) in cases {
        let got = eval_fetcher_config(src);
        let good = match (&got, want) {
            (Ok(Js::Obj(p)), Some(w)) => matches!(obj_get(p, "url"), Some(Js::Call(_, a)) if a.len() == 1 && a[0] == Js::Str(u16s(w))),
            (Err(_), None) => true,
            _ => false,
        };
        if !good {
            run.inconclusive(&format!("evaluator self-test failed on {src:?}: {got:?}"));
            ok = false;
        }
    }
    let p = tokenize_html("<html><head><title>a &#38; b &lt;/title&gt;</title><script type=\"module\">x='</scr'+'ipt>';y=\"&#39;\"</SCRIPT ></head></html>");
    if p.title_raw.as_deref().map(decode_char_refs).as_deref() != Some("a & b </title>") || p.scripts.len() != 1 || p.scripts[0].1 != "x='</scr'+'ipt>';y=\"&#39;\"" {
        run.inconclusive(&format!("HTML tokenizer self-test failed: {p:?}"));
        ok = false;
    }
    if ok {
        run.count("evaluator_selftest_cases", cases.len() as u64 + 1);
    }
    ok
}

pub fn main() {
    let mut run = Run::from_args(
        "exploration",
        "random GraphiQLSource configurations (endpoint, optional subscription endpoint, optional title, 0-3 headers, 0-3 ws connection \
         params; names and values drawn from: ' \" & < > </script> </SCRIPT > <!-- --> &amp; &#39; <script> </title>; backslash forms \\ \\\\ \\n \\' \
         \\u0041 \\x41 \\u{1F600} \\0 \\1 \\u12 \\x4; CR LF CRLF; backtick ${x} U+2028 U+2029 NBSP BOM TAB; non-ASCII incl. astral, C0/C1 \
         controls; URL-ish fragments) rendered by GraphiQLSource::finish and read back by the harness's HTML tokenizer + ECMA-262 string \
         literal evaluator; distinct by hash of the configuration; non-trivial = some configured value contains a character outside [A-Za-z0-9/]",
    );
    run.assume("HTML: script data ends at the first '</script' followed by whitespace, '/' or '>' (script-data escaped states are not modelled; they need a raw '<!--' which would itself be reported as a changed value)");
    run.assume("JS: module code is strict; raw U+2028/U+2029 inside string literals are legal (ECMA-262 since ES2019), raw LF/CR are SyntaxErrors");
    run.assume("title: compared after CR/CRLF->LF normalisation (HTML input-stream preprocessing); document.title's whitespace stripping is not applied");
    run.assume("version and credentials are not configured strings of the property and keep their defaults");
    run.set_floors(1500, 800);
    run.require_counter("evaluator_selftest_cases");
    run.require_counter("sites_verbatim");
    if !selftest(&run) {
        run.finish();
    }
    let f = Feat {
        html_special: run.feature("script_html_special_chars"),
        backslash: run.feature("script_backslash"),
        line_term: run.feature("script_line_terminators"),
        both_maps: run.feature("headers_with_ws_params"),
    };
    witnesses(&run);
    let node = NodeCheck::new();
    if !node.available {
        run.note("/usr/bin/node not present (or VH_C34_NO_NODE set): evaluator cross-check skipped");
    } else {
        run.require_counter("node_agrees_on_value");
    }
    let shards = run.scale(8, 16);
    let per_shard = run.scale(2500, 60_000);
    let node_every = run.scale(8, 20);
    std::thread::scope(|sc| {
        for shard in 0..shards {
            let run = &run;
            let node = &node;
            sc.spawn(move || {
                let mut r = Rng::new(rng::mix(&[run.seed, 34, shard]));
                let mut batch: Vec<(String, Option<Js>, J)> = vec![];
                let mut skeletons: BTreeMap<(bool, bool, usize, usize), Vec<String>> = BTreeMap::new();
                for i in 0..per_shard {
                    let c = gen_config(&mut r, f);
                    let cj = c.to_json();
                    let h = rng::hash_str(&cj.to_string());
                    run.eval();
                    let all: Vec<&String> = std::iter::once(&c.endpoint)
                        .chain(c.sub.iter())
                        .chain(c.title.iter())
                        .chain(c.headers.iter().flat_map(|(k, v)| [k, v]))
                        .chain(c.ws.iter().flat_map(|(k, v)| [k, v]))
                        .collect();
                    if all.iter().any(|s| s.chars().any(|ch| !(ch.is_ascii_alphanumeric() || ch == '/'))) {
                        run.nontrivial(h);
                    }
                    let html = match c.render() {
                        Ok(h) => h,
                        Err(p) => {
                            run.violation(&format!("gen-panic:{h:x}"), &format!("GraphiQLSource::finish panicked: {p}"), cj);
                            continue;
                        }
                    };
                    let key = (c.sub.is_some(), c.title.is_some(), c.headers.len(), c.ws.len());
                    if !skeletons.contains_key(&key) {
                        match skeleton_of(&c) {
                            Ok(s) => {
                                skeletons.insert(key, s);
                            }
                            Err(e) => {
                                run.inconclusive(&format!("cannot render baseline page: {e}"));
                                return;
                            }
                        }
                    }
                    let v = examine(&c, &html, &skeletons[&key]);
                    match &v.broken {
                        None => {
                            run.count("pages_verbatim", 1);
                            run.count("sites_verbatim", all.len() as u64);
                            if c.title.is_some() {
                                run.count("titles_verbatim", 1);
                            }
                            run.sample_upto(4, json!({"config": cj, "evaluated": v.evaluated.as_ref().map(js_pretty), "title_text": c.title}));
                        }
                        Some((site, what)) => {
                            run.count(&format!("broken_site_{site}"), 1);
                            run.sample_upto(9, json!({"config": cj, "broken_site": site, "what": what}));
                            run.violation(&format!("gen-{site}:{h:x}"), what, json!({"config": cj, "site": site, "script": v.script}));
                        }
                    }
                    if node.available && i % node_every == 0 {
                        if let Some(s) = &v.script {
                            batch.push((s.clone(), v.evaluated.clone(), cj));
                        }
                        if batch.len() >= 300 {
                            cross_check(run, node, shard, &mut batch);
                        }
                    }
                }
                cross_check(run, node, shard, &mut batch);
            });
        }
    });
    drop(node);
    run.finish();
}
