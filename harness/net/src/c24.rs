//! C24 — multipart uploads bind files exactly as mapped and respect limits.
//!
//! Oracle: the binding model of DESIGN A.6 over the harness's own
//! multipart/form-data encoder. For a generated (operations, map, files):
//!   B1 every mapped path that addresses a variable holds the marker
//!      "#__graphql_file__:k" and uploads[k] has the filename, content type and
//!      bytes of exactly the mapped file; every other variable is unchanged
//!   B2 a map key without a file part => error
//!   L1 a file part larger than max_file_size => error
//!   L2 more file parts than max_num_files => error
//!   E  end to end: a mutation resolver that calls `upload.value(ctx)` and reads
//!      the content sees exactly the mapped bytes (Upload, [Upload!]!, input object)
//! Not judged (counted): a request *within* the limits that is rejected.

use std::io::{Read, Seek, SeekFrom};

use async_graphql::http::{MultipartOptions, receive_batch_body};
use async_graphql::{BatchRequest, Context, InputObject, Object, Request, Schema, SimpleObject, Upload, UploadValue};
use vh_core::serde_json::{self, Map, Value as J, json};
use vh_core::vsched::block_on;
use vh_core::{Rng, Run, catch, rng};

use crate::common::*;

const MARK: &str = "#__graphql_file__:";

#[derive(Clone, Debug)]
struct FileSpec {
    key: String,
    filename: String,
    content_type: Option<String>,
    data: Vec<u8>,
    /// paths listed in the map for this file
    paths: Vec<String>,
    /// has a map entry
    mapped: bool,
    /// has a file part in the body
    present: bool,
}

fn gen_filename(r: &mut Rng) -> String {
    if r.chance(1, 25) {
        return String::new();
    }
    let mut s = String::new();
    for _ in 0..(1 + r.below(12)) {
        match r.below(10) {
            0 => s.push(*r.pick(&[' ', '.', '-', '_', '(', ')', '\'', ',', '=', ';', '+', '%'])),
            1 => s.push(*r.pick(&['é', 'ß', '中', '文', 'я', '😀', 'ñ'])),
            _ => s.push(*r.pick(b"abcdefghijklmnopqrstuvwxyzABCDEFGHIJKLMNOPQRSTUVWXYZ0123456789") as char),
        }
    }
    s.push_str(*r.pick(&[".txt", ".png", ".bin", "", ".tar.gz"]));
    s
}

fn gen_file_ct(r: &mut Rng) -> Option<String> {
    r.pick(&[
        None,
        Some("text/plain"),
        Some("application/octet-stream"),
        Some("image/png"),
        Some("text/plain; charset=utf-8"),
        Some("application/x-custom+json"),
    ])
    .map(|s| s.to_string())
}

fn gen_bytes(r: &mut Rng, len: usize, boundary: &str) -> Vec<u8> {
    let mut v = Vec::with_capacity(len);
    while v.len() < len {
        match r.below(12) {
            0 => v.extend_from_slice(b"\r\n"),
            1 => v.extend_from_slice(b"\r\n--"),
            2 => {
                // the boundary text, but not at the start of a line / not complete
                v.extend_from_slice(b"--");
                v.extend_from_slice(&boundary.as_bytes()[..boundary.len() - 1]);
            }
            3 => v.extend_from_slice(b"Content-Disposition: form-data; name=\"x\"\r\n\r\n"),
            4 => v.push(0),
            5 => v.push(0xff),
            _ => v.push(r.below(256) as u8),
        }
    }
    v.truncate(len);
    // the full delimiter must not occur in a part (the data follows a CRLF)
    let delim = format!("\r\n--{boundary}").into_bytes();
    loop {
        let mut probe = b"\r\n".to_vec();
        probe.extend_from_slice(&v);
        match find(&probe, &delim, 0) {
            Some(i) => {
                let at = i + delim.len() - 1 - 2;
                v[at] = b'#';
            }
            None => break,
        }
    }
    v
}

/// Random variables tree; every leaf position is recorded as a candidate path.
fn gen_tree(r: &mut Rng, depth: u32, path: &str, leaves: &mut Vec<String>) -> J {
    let leaf = depth == 0 || r.chance(2, 5);
    if leaf {
        leaves.push(path.to_string());
        return match r.below(6) {
            0 => json!(r.range(-9, 9)),
            1 => json!(gen_ident(r)),
            2 => json!(r.bool()),
            _ => J::Null,
        };
    }
    if r.bool() {
        let n = 1 + r.below(3);
        J::Array((0..n).map(|i| gen_tree(r, depth - 1, &format!("{path}.{i}"), leaves)).collect())
    } else {
        let mut m = Map::new();
        for _ in 0..(1 + r.below(3)) {
            let k = match r.below(12) {
                0 | 1 => format!("{}", r.below(3)),
                2 => "variables".to_string(),
                _ => gen_ident(r),
            };
            if m.contains_key(&k) {
                continue;
            }
            let v = gen_tree(r, depth - 1, &format!("{path}.{k}"), leaves);
            m.insert(k, v);
        }
        J::Object(m)
    }
}

struct Case {
    boundary: String,
    batch: bool,
    /// operations as JSON (object, or array for a batch)
    operations: J,
    files: Vec<FileSpec>,
    opts: (Option<usize>, Option<usize>),
    body: Vec<u8>,
    ops_len: usize,
    map_len: usize,
}

fn build_body(r: &mut Rng, c: &mut Case) {
    let ops_text = json_text(r, &c.operations);
    let mut map = Map::new();
    for f in &c.files {
        if f.mapped {
            map.insert(f.key.clone(), json!(f.paths));
        }
    }
    let map_text = json_text(r, &J::Object(map));
    c.ops_len = ops_text.len();
    c.map_len = map_text.len();
    let mut parts = vec![Part::field("operations", ops_text.into_bytes()), Part::field("map", map_text.into_bytes())];
    let mut fparts: Vec<Part> = c
        .files
        .iter()
        .filter(|f| f.present)
        .map(|f| Part { name: f.key.clone(), filename: Some(f.filename.clone()), content_type: f.content_type.clone(), data: f.data.clone() })
        .collect();
    r.shuffle(&mut fparts);
    parts.extend(fparts);
    c.body = encode_multipart(&c.boundary, &parts);
}

fn at_path<'a>(root: &'a J, path: &str) -> Option<&'a J> {
    let mut cur = root;
    for part in path.split('.') {
        cur = match cur {
            J::Array(a) => a.get(part.parse::<usize>().ok()?)?,
            J::Object(m) => m.get(part)?,
            _ => return None,
        };
    }
    Some(cur)
}

fn set_path(root: &mut J, path: &str, v: J) -> bool {
    let mut cur = root;
    for part in path.split('.') {
        cur = match cur {
            J::Array(a) => match part.parse::<usize>().ok().and_then(|i| a.get_mut(i)) {
                Some(x) => x,
                None => return false,
            },
            J::Object(m) => match m.get_mut(part) {
                Some(x) => x,
                None => return false,
            },
            _ => return false,
        };
    }
    *cur = v;
    true
}

fn read_upload(u: &UploadValue) -> Result<Vec<u8>, String> {
    let mut f = u.content.try_clone().map_err(|e| e.to_string())?;
    f.seek(SeekFrom::Start(0)).map_err(|e| e.to_string())?;
    let mut v = vec![];
    f.read_to_end(&mut v).map_err(|e| e.to_string())?;
    Ok(v)
}

fn decode(c: &Case, chunk: usize) -> Result<Result<BatchRequest, String>, String> {
    let ct = format!("multipart/form-data; boundary={}", c.boundary);
    let mut opts = MultipartOptions::default();
    if let Some(l) = c.opts.0 {
        opts = opts.max_file_size(l);
    }
    if let Some(n) = c.opts.1 {
        opts = opts.max_num_files(n);
    }
    let body = c.body.clone();
    catch(move || block_on(receive_batch_body(Some(ct), ChunkReader::new(body, chunk), opts)).map_err(|e| format!("{e:?}")))
}

fn case_json(c: &Case) -> J {
    json!({
        "boundary": c.boundary,
        "operations": c.operations,
        "max_file_size": c.opts.0,
        "max_num_files": c.opts.1,
        "files": c.files.iter().map(|f| json!({"key": f.key, "filename": f.filename, "content_type": f.content_type, "size": f.data.len(),
            "data_hex": hex(&f.data[..f.data.len().min(256)]), "paths": f.paths, "mapped": f.mapped, "present": f.present})).collect::<Vec<_>>(),
        "body_len": c.body.len(),
        "body_hex": hex(&c.body[..c.body.len().min(6000)]),
    })
}

/// B1: compare the decoded requests with the binding model.
fn check_binding(run: &Run, c: &Case, decoded: &BatchRequest) -> Result<u64, String> {
    let reqs: Vec<&Request> = decoded.iter().collect();
    let expected_reqs: Vec<J> = if c.batch { c.operations.as_array().unwrap().clone() } else { vec![c.operations.clone()] };
    match (c.batch, decoded) {
        (true, BatchRequest::Batch(_)) | (false, BatchRequest::Single(_)) => {}
        _ => return Err("batch/single shape of operations not kept".into()),
    }
    if reqs.len() != expected_reqs.len() {
        return Err(format!("{} requests decoded, {} encoded", reqs.len(), expected_reqs.len()));
    }
    let mut bound = 0u64;
    let mut observed: Vec<J> = reqs.iter().map(|q| serde_json::to_value(&q.variables).unwrap()).collect();
    let mut expected: Vec<J> = expected_reqs.iter().map(|q| q["variables"].clone()).collect();
    for f in c.files.iter().filter(|f| f.mapped && f.present) {
        for p in &f.paths {
            // split into request index and variable path
            let (idx, vpath) = if c.batch {
                let mut it = p.splitn(2, '.');
                let Some(i) = it.next().and_then(|x| x.parse::<usize>().ok()) else { continue };
                let Some(rest) = it.next() else { continue };
                (i, rest.to_string())
            } else {
                (0usize, p.clone())
            };
            let Some(inner) = vpath.strip_prefix("variables.") else {
                run.count("paths_without_variables_prefix", 1);
                continue; // not a variable path: addresses nothing
            };
            if idx >= expected.len() || at_path(&expected[idx], inner).is_none() {
                run.count("paths_addressing_nothing", 1);
                if inner.starts_with("variables.") {
                    run.count("paths_with_repeated_variables_prefix_addressing_nothing", 1);
                }
                continue; // addresses nothing: ignored by the model
            }
            let got = at_path(&observed[idx], inner).cloned().unwrap_or(J::Null);
            let Some(k) = got.as_str().and_then(|s| s.strip_prefix(MARK)).and_then(|s| s.parse::<usize>().ok()) else {
                return Err(format!("path {p:?} (file {:?}) holds {got} instead of an upload marker", f.key));
            };
            let Some(u) = reqs[idx].uploads.get(k) else {
                return Err(format!("path {p:?} holds marker {k} but request {idx} has only {} uploads", reqs[idx].uploads.len()));
            };
            let bytes = read_upload(u)?;
            // file parts that carry the same name as this one (a repeated part name): the map entry names the
            // key, not one of the parts, so a reference to any part of that name is accepted
            let same_key_other = c.files.iter().any(|g| g.present && !g.mapped && g.key == f.key && u.filename == g.filename && u.content_type == g.content_type && bytes == g.data);
            if same_key_other {
                run.count("paths_bound_to_a_later_part_of_a_repeated_name", 1);
            }
            if inner == "variables" || inner.starts_with("variables.") || inner.contains(".variables") {
                run.count("paths_through_a_variable_or_member_named_variables_bound", 1);
            }
            if !same_key_other && (u.filename != f.filename || u.content_type != f.content_type || bytes != f.data) {
                return Err(format!(
                    "path {p:?} is mapped to file {:?} (filename {:?}, content type {:?}, {} bytes {}) but references upload {k}: filename {:?}, content type {:?}, {} bytes {}",
                    f.key,
                    f.filename,
                    f.content_type,
                    f.data.len(),
                    hex(&f.data[..f.data.len().min(24)]),
                    u.filename,
                    u.content_type,
                    bytes.len(),
                    hex(&bytes[..bytes.len().min(24)])
                ));
            }
            bound += 1;
            set_path(&mut observed[idx], inner, json!("<bound>"));
            set_path(&mut expected[idx], inner, json!("<bound>"));
        }
    }
    for (i, (o, e)) in observed.iter().zip(&expected).enumerate() {
        if o != e {
            return Err(format!("request {i}: variables outside the mapped paths changed: decoded {o} expected {e}"));
        }
        let q = &expected_reqs[i]["query"];
        if json!(reqs[i].query) != *q {
            return Err(format!("request {i}: query differs"));
        }
    }
    Ok(bound)
}

fn gen_case(r: &mut Rng) -> (Case, Vec<String>) {
    let boundary = gen_boundary(r);
    let batch = r.chance(1, 3);
    let nreq = if batch { 1 + r.below(3) } else { 1 };
    let mut leaves: Vec<String> = vec![];
    let mut reqs = vec![];
    let mut has_var_named_variables = false;
    for i in 0..nreq {
        let mut vars = Map::new();
        let prefix = if batch { format!("{i}.variables") } else { "variables".to_string() };
        for _ in 0..(1 + r.below(3)) {
            let k = match r.below(16) {
                0 | 1 => format!("{}", r.below(3)),
                2 | 3 | 4 => "variables".to_string(),
                _ => gen_ident(r),
            };
            if vars.contains_key(&k) {
                continue;
            }
            let v = gen_tree(r, 3, &format!("{prefix}.{k}"), &mut leaves);
            vars.insert(k, v);
        }
        // a variable literally named `variables` next to an unrelated variable that has the name of one of its members
        if let Some(J::Object(inner)) = vars.get("variables").cloned() {
            has_var_named_variables = true;
            if r.bool()
                && let Some(k) = inner.keys().next().cloned()
                && !vars.contains_key(&k)
            {
                leaves.push(format!("{prefix}.{k}"));
                vars.insert(k, J::Null);
            }
        } else if vars.contains_key("variables") {
            has_var_named_variables = true;
        }
        reqs.push(json!({"query": format!("mutation M{i} {{ up }}"), "variables": J::Object(vars)}));
    }
    r.shuffle(&mut leaves);
    let nfiles = 1 + r.below(4);
    let mut files = vec![];
    for k in 0..nfiles {
        let key = match r.below(4) {
            0 => format!("f{k}"),
            1 => format!("file {k}"),
            _ => format!("{k}"),
        };
        let npaths = match r.below(6) {
            0 => 0,
            1 | 2 | 3 => 1,
            _ => 2 + r.below(2),
        };
        let mut paths = vec![];
        for _ in 0..npaths {
            if let Some(p) = leaves.pop() {
                paths.push(p);
            }
        }
        if r.chance(1, 6) {
            // a path that addresses nothing
            paths.push(match r.below(3) {
                0 => (if batch { "0.variables.no-such.7.q" } else { "variables.no-such.7.q" }).to_string(),
                1 => (if batch { "9.variables.a" } else { "variables.no-such-either" }).to_string(),
                _ => (if batch { "0.variables.no-such" } else { "variables.no-such" }).to_string(),
            });
        }
        if r.chance(1, 5)
            && let Some(leaf) = leaves.pop()
        {
            // a path that is not of the form `variables.<path>` / `<n>.variables.<path>`: the `variables.` prefix is
            // missing, or written twice (which would name a member of a variable called `variables`). It addresses
            // nothing; the leaf it was derived from is used by no other path and must stay as sent.
            let (idx, rest) = if batch {
                let (i, rest) = leaf.split_once('.').unwrap();
                (format!("{i}."), rest.to_string())
            } else {
                (String::new(), leaf.clone())
            };
            let inner = rest.strip_prefix("variables.").unwrap();
            if r.bool() {
                if !inner.starts_with("variables") {
                    paths.push(match r.below(4) {
                        0 => format!("{idx}{inner}"),
                        1 => format!("{idx}variable.{inner}"),
                        2 => format!("{idx}Variables.{inner}"),
                        _ => format!("{idx}.{inner}"),
                    });
                }
            } else if !has_var_named_variables {
                paths.push(format!("{idx}variables.variables.{inner}"));
            }
        }
        let len = *r.pick(&[0usize, 1, 2, 5, 17, 64, 200, 1000, 2047, 2048, 2049, 5000]);
        files.push(FileSpec {
            key,
            filename: gen_filename(r),
            content_type: gen_file_ct(r),
            data: gen_bytes(r, len, &boundary),
            paths,
            mapped: true,
            present: true,
        });
    }
    let operations = if batch { J::Array(reqs) } else { reqs.pop().unwrap() };
    (Case { boundary, batch, operations, files, opts: (None, None), body: vec![], ops_len: 0, map_len: 0 }, leaves)
}

fn binding_round(run: &Run, r: &mut Rng) {
    let (mut c, _) = gen_case(r);
    // extra file parts without map entry: ignored by the model
    if r.chance(1, 4) {
        let extra_len = r.below(40);
        let b = c.boundary.clone();
        c.files.push(FileSpec {
            key: format!("extra{}", r.below(9)),
            filename: gen_filename(r),
            content_type: gen_file_ct(r),
            data: gen_bytes(r, extra_len, &b),
            paths: vec![],
            mapped: false,
            present: true,
        });
        run.count("cases_with_unmapped_extra_file", 1);
    }
    let missing = r.chance(1, 5);
    let mut missing_at = None;
    if missing {
        let i = r.below(c.files.len());
        if c.files[i].mapped {
            c.files[i].present = false;
            missing_at = Some(i);
        }
    }
    // a part name that occurs twice (or three times): the further parts have the name of a mapped, present file
    let mapped_present: Vec<usize> = (0..c.files.len()).filter(|&i| c.files[i].mapped && c.files[i].present).collect();
    let mut duplicated = false;
    if r.chance(1, 4) && !mapped_present.is_empty() {
        // without a missing file so far: half of these cases also drop the part of another map entry
        if missing_at.is_none() && mapped_present.len() >= 2 && r.bool() {
            let i = *r.pick(&mapped_present);
            c.files[i].present = false;
        }
        let candidates: Vec<usize> = (0..c.files.len()).filter(|&i| c.files[i].mapped && c.files[i].present).collect();
        let of = *r.pick(&candidates);
        let b = c.boundary.clone();
        for _ in 0..(1 + r.below(2)) {
            let len = r.below(60);
            let same = r.chance(1, 4);
            c.files.push(FileSpec {
                key: c.files[of].key.clone(),
                filename: if same { c.files[of].filename.clone() } else { gen_filename(r) },
                content_type: gen_file_ct(r),
                data: gen_bytes(r, len, &b),
                paths: vec![],
                mapped: false,
                present: true,
            });
        }
        duplicated = true;
        run.count("cases_with_repeated_part_name", 1);
    }
    let missing = c.files.iter().any(|f| f.mapped && !f.present);
    build_body(r, &mut c);
    let h = rng::hash_bytes(&c.body);
    run.eval();
    let npaths: usize = c.files.iter().map(|f| f.paths.len()).sum();
    if npaths >= 1 {
        run.nontrivial(h);
    }
    let got = decode(&c, gen_chunk(r));
    match got {
        Err(p) => run.violation(&format!("bind-panic:{h:x}"), &format!("receive_batch_body panicked: {p}"), case_json(&c)),
        Ok(Err(e)) => {
            if missing {
                run.count("missing_file_rejected", 1);
                if duplicated {
                    run.count("missing_file_rejected_although_another_part_name_repeats", 1);
                }
            } else {
                run.violation(&format!("bind-rejected:{h:x}"), &format!("well-formed upload request rejected: {e}"), case_json(&c));
            }
        }
        Ok(Ok(b)) => {
            if missing {
                let keys: Vec<&String> = c.files.iter().filter(|f| f.mapped && !f.present).map(|f| &f.key).collect();
                run.violation(
                    &format!("bind-missing-accepted:{h:x}"),
                    &format!("map entries {keys:?} have no file part but the request was accepted"),
                    case_json(&c),
                );
                return;
            }
            match check_binding(run, &c, &b) {
                Ok(n) => {
                    run.count("requests_bound_exactly", 1);
                    run.count("paths_bound", n);
                    if c.batch {
                        run.count("batch_requests_bound", 1);
                    }
                    if duplicated {
                        run.count("requests_with_repeated_part_name_bound_to_a_part_of_that_name", 1);
                    }
                    if c.files.iter().any(|f| f.present && f.mapped && f.paths.len() >= 2) {
                        run.count("files_bound_to_several_paths", 1);
                    }
                    run.sample(json!({"operations": c.operations, "map": c.files.iter().filter(|f| f.mapped).map(|f| json!({"key": f.key, "paths": f.paths, "filename": f.filename, "size": f.data.len()})).collect::<Vec<_>>(),
                        "decoded_variables": b.iter().map(|q| serde_json::to_value(&q.variables).unwrap()).collect::<Vec<_>>(), "uploads": b.iter().map(|q| q.uploads.len()).collect::<Vec<_>>()}));
                }
                Err(what) => run.violation(&format!("bind-wrong:{h:x}"), &what, case_json(&c)),
            }
        }
    }
}

// ---------- limits ----------

fn limit_round(run: &Run, r: &mut Rng, exceed_count: bool) {
    let boundary = gen_boundary(r);
    // fixed small operations so that the limits can be small as well
    let kind = r.below(3); // 0: only size, 1: only count, 2: both
    let nmax = 1 + r.below(3);
    let count = match r.below(3) {
        0 => nmax.saturating_sub(1).max(1),
        1 => nmax,
        _ => nmax + 1,
    };
    let count = if kind == 0 { 1 + r.below(3) } else { count };
    if kind != 0 && count > nmax && !exceed_count {
        return;
    }
    let vars: Vec<J> = (0..count).map(|_| J::Null).collect();
    let operations = json!({"query": "mutation($f:[Upload]){up(f:$f)}", "variables": {"f": vars}});
    let ops_len = serde_json::to_string(&operations).unwrap().len();
    // size limit: a little above the operations part so that only file parts can exceed it; sometimes far larger
    let lmax = match r.below(3) {
        0 => ops_len + count * 16 + r.below(8),
        1 => ops_len + count * 16 + 20 + r.below(200),
        _ => 2048 + r.below(3000),
    };
    // sometimes (size-only cases) a limit *below* the operations part: no file exceeds it (observation only)
    let tiny = kind == 0 && r.chance(1, 10);
    let lmax = if tiny { ops_len.saturating_sub(1 + r.below(20)).max(8) } else { lmax };
    let mut files = vec![];
    let oversize_at = if kind != 1 && !tiny && r.chance(1, 3) { Some(r.below(count)) } else { None };
    for k in 0..count {
        let len = if Some(k) == oversize_at {
            lmax + 1 + if r.bool() { 0 } else { r.below(50) }
        } else if kind == 1 {
            r.below(40)
        } else {
            match r.below(4) {
                0 if !tiny => lmax - 1,
                1 if !tiny => lmax,
                _ => r.below(lmax.min(64)),
            }
        };
        files.push(FileSpec {
            key: format!("{k}"),
            filename: format!("f{k}.bin"),
            content_type: Some("application/octet-stream".into()),
            data: gen_bytes(r, len, &boundary),
            paths: vec![format!("variables.f.{k}")],
            mapped: true,
            present: true,
        });
    }
    let opts = match kind {
        0 => (Some(lmax), None),
        1 => (None, Some(nmax)),
        _ => (Some(lmax), Some(nmax)),
    };
    let mut c = Case { boundary, batch: false, operations, files, opts, body: vec![], ops_len: 0, map_len: 0 };
    // compact encodings of operations/map (no random whitespace) keep the non-file parts below the size limit
    let mut fixed = Rng::new(7);
    build_body(&mut fixed, &mut c);
    let h = rng::hash_bytes(&[c.body.as_slice(), format!("{:?}", c.opts).as_bytes()].concat());
    run.eval();
    run.nontrivial(h);
    let too_big = c.files.iter().any(|f| opts.0.is_some_and(|l| f.data.len() > l));
    let too_many = opts.1.is_some_and(|n| count > n);
    let at_size_limit = c.files.iter().any(|f| opts.0 == Some(f.data.len()));
    let at_count_limit = opts.1 == Some(count);
    let descr = format!(
        "max_file_size={:?} max_num_files={:?} files={count} sizes={:?} operations_part={}B map_part={}B body={}B",
        opts.0,
        opts.1,
        c.files.iter().map(|f| f.data.len()).collect::<Vec<_>>(),
        c.ops_len,
        c.map_len,
        c.body.len()
    );
    match decode(&c, gen_chunk(r)) {
        Err(p) => run.violation(&format!("limit-panic:{h:x}"), &format!("receive_batch_body panicked: {p}; {descr}"), case_json(&c)),
        Ok(Err(e)) => {
            if too_big {
                run.count("oversize_file_rejected", 1);
            } else if too_many {
                run.count("too_many_files_rejected", 1);
            } else {
                // within both limits: counted, not judged
                run.count("within_limits_rejected", 1);
                let why = if opts.0.is_some_and(|l| c.ops_len > l || c.map_len > l) {
                    "a non-file part (operations/map) is larger than max_file_size"
                } else if let (Some(l), Some(n)) = opts
                    && c.body.len() > l * n
                {
                    "whole body (all parts, headers, delimiters) is larger than max_file_size*max_num_files"
                } else {
                    "unexplained"
                };
                run.seen("within_limits_rejected_reasons", why);
                run.sample_upto(12, json!({"within_limits_but_rejected": descr, "error": e, "reason_guess": why}));
            }
        }
        Ok(Ok(b)) => {
            if too_big {
                run.violation(&format!("limit-size-accepted:{h:x}"), &format!("a file larger than max_file_size was accepted: {descr}"), case_json(&c));
            } else if too_many {
                run.violation(&format!("limit-count-accepted:{h:x}"), &format!("more files than max_num_files were accepted: {descr}"), case_json(&c));
            } else {
                run.count("within_limits_accepted", 1);
                if at_size_limit {
                    run.count("accepted_with_file_exactly_at_max_file_size", 1);
                }
                if at_count_limit {
                    run.count("accepted_with_exactly_max_num_files", 1);
                }
                match check_binding(run, &c, &b) {
                    Ok(n) => run.count("paths_bound", n),
                    Err(what) => run.violation(&format!("limit-bind-wrong:{h:x}"), &what, case_json(&c)),
                }
                run.sample_upto(9, json!({"within_limits_accepted": descr}));
            }
        }
    }
}

// ---------- end to end ----------

#[derive(SimpleObject)]
struct Seen {
    filename: String,
    content_type: Option<String>,
    hex: String,
}

#[derive(InputObject)]
struct In {
    files: Vec<Upload>,
    main: Option<Upload>,
}

fn see(ctx: &Context<'_>, u: Upload, rewind: bool) -> async_graphql::Result<Seen> {
    let mut v = u.value(ctx)?;
    if rewind {
        v.content.seek(SeekFrom::Start(0))?;
    }
    let mut bytes = vec![];
    v.content.read_to_end(&mut bytes)?;
    Ok(Seen { filename: v.filename, content_type: v.content_type, hex: hex(&bytes) })
}

struct Q;
#[Object]
impl Q {
    async fn ok(&self) -> bool {
        true
    }
}

struct M;
#[Object]
impl M {
    async fn single(&self, ctx: &Context<'_>, file: Upload, rewind: bool) -> async_graphql::Result<Seen> {
        see(ctx, file, rewind)
    }
    async fn multi(&self, ctx: &Context<'_>, files: Vec<Upload>, rewind: bool) -> async_graphql::Result<Vec<Seen>> {
        files.into_iter().map(|f| see(ctx, f, rewind)).collect()
    }
    async fn nested(&self, ctx: &Context<'_>, input: In, rewind: bool) -> async_graphql::Result<Vec<Seen>> {
        input.main.into_iter().chain(input.files).map(|f| see(ctx, f, rewind)).collect()
    }
}

type S = Schema<Q, M, async_graphql::EmptySubscription>;

struct E2eCase {
    c: Case,
    /// slot path -> file index
    slots: Vec<(String, usize)>,
    shared: bool,
    rewind: bool,
}

fn gen_e2e(r: &mut Rng, allow_shared_naive: bool) -> E2eCase {
    let boundary = gen_boundary(r);
    let nmulti = r.below(4);
    let nnested = r.below(3);
    let main = r.bool();
    let mut slot_paths = vec!["variables.a".to_string()];
    for i in 0..nmulti {
        slot_paths.push(format!("variables.b.{i}"));
    }
    if main {
        slot_paths.push("variables.c.main".to_string());
    }
    for i in 0..nnested {
        slot_paths.push(format!("variables.c.files.{i}"));
    }
    let rewind = r.bool();
    // share files between slots sometimes (one file, several paths)
    let share = r.chance(1, 3) && (rewind || allow_shared_naive);
    let nfiles = if share { 1 + r.below(slot_paths.len()) } else { slot_paths.len() };
    let mut files: Vec<FileSpec> = (0..nfiles)
        .map(|k| {
            let len = *r.pick(&[0usize, 1, 3, 16, 100, 300, 2048, 4100]);
            FileSpec {
                key: format!("{k}"),
                filename: gen_filename(r),
                content_type: gen_file_ct(r),
                data: gen_bytes(r, len, &boundary),
                paths: vec![],
                mapped: true,
                present: true,
            }
        })
        .collect();
    let mut slots = vec![];
    for (i, p) in slot_paths.iter().enumerate() {
        let k = if i < nfiles { i } else { r.below(nfiles) };
        files[k].paths.push(p.clone());
        slots.push((p.clone(), k));
    }
    let shared = files.iter().any(|f| f.paths.len() >= 2);
    let rw = if rewind { "true" } else { "false" };
    let query = format!(
        "mutation($a: Upload!, $b: [Upload!]!, $c: In!) {{ single(file: $a, rewind: {rw}) {{ filename contentType hex }} multi(files: $b, rewind: {rw}) {{ filename contentType hex }} nested(input: $c, rewind: {rw}) {{ filename contentType hex }} }}"
    );
    let operations = json!({
        "query": query,
        "variables": {
            "a": null,
            "b": (0..nmulti).map(|_| J::Null).collect::<Vec<_>>(),
            "c": {"files": (0..nnested).map(|_| J::Null).collect::<Vec<_>>(), "main": null},
        }
    });
    let mut c = Case { boundary, batch: false, operations, files, opts: (None, None), body: vec![], ops_len: 0, map_len: 0 };
    build_body(r, &mut c);
    E2eCase { c, slots, shared, rewind }
}

fn seen_json(f: &FileSpec) -> J {
    json!({"filename": f.filename, "contentType": f.content_type, "hex": hex(&f.data)})
}

fn e2e_check(run: &Run, schema: &S, e: &E2eCase, sig_prefix: &str) -> Option<String> {
    let c = &e.c;
    run.eval();
    let req = match decode(c, 512) {
        Ok(Ok(BatchRequest::Single(q))) => q,
        other => {
            return Some(format!("end-to-end upload request not decoded: {:?}", other.map(|x| x.map(|_| "batch"))));
        }
    };
    let resp = match catch(|| block_on(schema.execute(req))) {
        Ok(r) => r,
        Err(p) => return Some(format!("execute panicked: {p}")),
    };
    let by_path = |p: &str| e.slots.iter().find(|(q, _)| q == p).map(|(_, k)| seen_json(&c.files[*k]));
    let nmulti = e.slots.iter().filter(|(p, _)| p.starts_with("variables.b.")).count();
    let nnested = e.slots.iter().filter(|(p, _)| p.starts_with("variables.c.files.")).count();
    let mut nested = vec![];
    if let Some(m) = by_path("variables.c.main") {
        nested.push(m);
    }
    for i in 0..nnested {
        nested.push(by_path(&format!("variables.c.files.{i}")).unwrap());
    }
    let want = json!({
        "single": by_path("variables.a").unwrap(),
        "multi": (0..nmulti).map(|i| by_path(&format!("variables.b.{i}")).unwrap()).collect::<Vec<_>>(),
        "nested": nested,
    });
    let got = serde_json::to_value(&resp).unwrap();
    let _ = sig_prefix;
    if got == json!({"data": want}) {
        None
    } else {
        // describe the first differing slot compactly
        let mut what = String::new();
        let d = &got["data"];
        let mut cmp = |name: String, g: &J, w: &J| {
            if g != w && what.is_empty() {
                let gl = g["hex"].as_str().map(|s| s.len() / 2);
                let wl = w["hex"].as_str().map(|s| s.len() / 2);
                what = format!(
                    "{name}: resolver saw filename {} contentType {} {gl:?} bytes, mapped file has filename {} contentType {} {wl:?} bytes",
                    g["filename"], g["contentType"], w["filename"], w["contentType"]
                );
            }
        };
        cmp("single".into(), &d["single"], &want["single"]);
        for (i, w) in want["multi"].as_array().unwrap().iter().enumerate() {
            cmp(format!("multi[{i}]"), &d["multi"][i], w);
        }
        for (i, w) in want["nested"].as_array().unwrap().iter().enumerate() {
            cmp(format!("nested[{i}]"), &d["nested"][i], w);
        }
        if what.is_empty() {
            what = format!("response {}", vh_core::run::truncate(&got.to_string(), 600));
        }
        if !resp.errors.is_empty() {
            what = format!("{what}; errors: {:?}", resp.errors.iter().map(|x| x.message.clone()).collect::<Vec<_>>());
        }
        Some(what)
    }
}

fn e2e_round(run: &Run, r: &mut Rng, schema: &S, allow_shared_naive: bool) {
    let e = gen_e2e(r, allow_shared_naive);
    let h = rng::hash_bytes(&e.c.body);
    run.nontrivial(h);
    match e2e_check(run, schema, &e, "e2e") {
        None => {
            run.count("e2e_resolver_saw_mapped_bytes", 1);
            run.count(if e.rewind { "e2e_reads_after_rewind" } else { "e2e_reads_without_rewind" }, 1);
            if e.shared {
                run.count("e2e_shared_file_cases_ok", 1);
            }
            run.sample_upto(7, json!({"e2e_map": e.slots.iter().map(|(p, k)| format!("{k} -> {p}")).collect::<Vec<_>>(), "rewind": e.rewind,
                "files": e.c.files.iter().map(|f| json!({"filename": f.filename, "size": f.data.len()})).collect::<Vec<_>>()}));
        }
        Some(what) => {
            let mut j = case_json(&e.c);
            j["rewind"] = json!(e.rewind);
            j["slots"] = json!(e.slots.iter().map(|(p, k)| format!("{k} -> {p}")).collect::<Vec<_>>());
            run.violation(
                &format!("e2e:{h:x}"),
                &format!("end to end (rewind={}, one file mapped to several paths={}): {what}", e.rewind, e.shared),
                j,
            );
        }
    }
}

// ---------- pinned witnesses ----------

fn simple_case(nfiles: usize, size: usize, opts: (Option<usize>, Option<usize>)) -> Case {
    let boundary = "vhwitnessboundary".to_string();
    let operations = json!({"query": "mutation($f:[Upload]){up(f:$f)}", "variables": {"f": (0..nfiles).map(|_| J::Null).collect::<Vec<_>>()}});
    let files = (0..nfiles)
        .map(|k| FileSpec {
            key: format!("{k}"),
            filename: format!("f{k}.bin"),
            content_type: Some("application/octet-stream".into()),
            data: vec![b'a' + k as u8; size],
            paths: vec![format!("variables.f.{k}")],
            mapped: true,
            present: true,
        })
        .collect();
    let mut c = Case { boundary, batch: false, operations, files, opts, body: vec![], ops_len: 0, map_len: 0 };
    build_body(&mut Rng::new(7), &mut c);
    c
}

fn witness_max_num_files(run: &Run) {
    run.eval();
    let mut observed = vec![];
    for (n, opts) in [(3usize, (None, Some(1usize))), (3, (Some(4096usize), Some(1)))] {
        let c = simple_case(n, 1, opts);
        match decode(&c, 512) {
            Ok(Err(_)) => {}
            Ok(Ok(b)) => observed.push(format!(
                "files={n} max_num_files={:?} max_file_size={:?} => accepted with {} uploads",
                opts.1,
                opts.0,
                b.iter().map(|q| q.uploads.len()).sum::<usize>()
            )),
            Err(p) => observed.push(format!("files={n} {opts:?} => panic {p}")),
        }
    }
    if observed.is_empty() {
        run.count("witness_max_num_files_ok", 1);
    } else {
        run.violation(
            &format!("C24-max-num-files|{}", observed.join(" ; ")),
            &format!(
                "max_num_files is not enforced as a number of files: {}. receive_batch_multipart only derives a whole-stream byte budget \
                 max_file_size*max_num_files when *both* options are set and never counts file parts (src/http/multipart.rs:52-63)",
                observed.join(" ; ")
            ),
            json!({"observed": observed, "body": lossy(&simple_case(3, 1, (None, Some(1))).body, 2000)}),
        );
    }
}

fn witness_shared_file(run: &Run, schema: &S) {
    // one file mapped to two variables, resolver reads each upload without seeking first
    let boundary = "vhwitnessboundary".to_string();
    let operations = json!({
        "query": "mutation($a: Upload!, $b: [Upload!]!, $c: In!) { single(file: $a, rewind: false) { filename contentType hex } multi(files: $b, rewind: false) { filename contentType hex } nested(input: $c, rewind: false) { filename contentType hex } }",
        "variables": {"a": null, "b": [null], "c": {"files": [], "main": null}}
    });
    let files = vec![FileSpec {
        key: "0".into(),
        filename: "a.txt".into(),
        content_type: Some("text/plain".into()),
        data: b"hello".to_vec(),
        paths: vec!["variables.a".into(), "variables.b.0".into()],
        mapped: true,
        present: true,
    }];
    let mut c = Case { boundary, batch: false, operations, files, opts: (None, None), body: vec![], ops_len: 0, map_len: 0 };
    build_body(&mut Rng::new(7), &mut c);
    let e = E2eCase { c, slots: vec![("variables.a".into(), 0), ("variables.b.0".into(), 0)], shared: true, rewind: false };
    match e2e_check(run, schema, &e, "w") {
        None => run.count("witness_shared_file_ok", 1),
        Some(what) => run.violation(
            &format!("C24-shared-file-offset|{what}"),
            &format!(
                "file \"hello\" mapped to variables.a and variables.b.0; resolvers read `upload.value(ctx)?.content` to the end: {what}. \
                 The per-path copies are made with UploadValue::try_clone -> File::try_clone (src/types/upload.rs:30-37, src/http/multipart.rs:144), \
                 which duplicates the descriptor and shares one file offset, so the first reader consumes the content of every other path"
            ),
            case_json(&e.c),
        ),
    }
}

pub fn main() {
    let mut run = Run::from_args(
        "exploration",
        "generated graphql-multipart bodies from the harness's own encoder: single and batch operations with random variable trees, 1-4 \
         files (0-5000 bytes incl. CRLF, '--'+boundary prefixes, header look-alikes, NUL/0xFF; UTF-8 filenames; 6 content types incl. none) \
         mapped to 0-3 leaf paths each (also paths addressing nothing, unmapped extra files, missing files), file parts permuted, body read \
         in chunks of 1..2^20 bytes; limit cases with max_file_size just above the operations part (file sizes limit-1/limit/limit+1) and \
         max_num_files 1-3 (counts limit-1/limit/limit+1); end-to-end mutation with Upload, [Upload!]! and an input object reading \
         upload.value(ctx); distinct by hash of the body (+limits); non-trivial = at least one mapped path",
    );
    run.assume("binding model = DESIGN A.6: mapped paths that address a variable become references to a copy of the file; paths addressing nothing and unmapped file parts are ignored; a map key without file part is an error");
    run.assume("a part name that occurs more than once: the map entry names the key, so the mapped paths must refer to one of the parts of that name (which one is not asserted, nor what happens to the others); a missing part of ANOTHER map entry is still an error");
    run.assume("a map path is `variables.<path>` (batch: `<n>.variables.<path>`), the prefix taken once: `variables.variables.f` names member f of the variable called `variables`; a path without the prefix names nothing");
    run.assume("only operations, map, then file parts (permuted) is generated - the order the graphql-multipart spec requires");
    run.assume("NOT judged (counted with reason guess): requests within both limits that are rejected (e.g. operations part larger than max_file_size, body larger than max_file_size*max_num_files)");
    run.assume("std::fs / tempfile deliver the bytes that were written");
    run.set_floors(1500, 500);
    for c in ["requests_bound_exactly", "batch_requests_bound", "files_bound_to_several_paths", "missing_file_rejected", "oversize_file_rejected",
        "accepted_with_file_exactly_at_max_file_size", "accepted_with_exactly_max_num_files", "e2e_resolver_saw_mapped_bytes",
        "missing_file_rejected_although_another_part_name_repeats", "requests_with_repeated_part_name_bound_to_a_part_of_that_name",
        "paths_without_variables_prefix", "paths_with_repeated_variables_prefix_addressing_nothing",
        "paths_through_a_variable_or_member_named_variables_bound"]
    {
        run.require_counter(c);
    }
    let exceed_count = run.feature("exceed_max_num_files");
    let shared_naive = run.feature("shared_file_read_without_rewind");
    let schema: S = Schema::build(Q, M, async_graphql::EmptySubscription).finish();

    witness_max_num_files(&run);
    witness_shared_file(&run, &schema);

    let shards = run.scale(8, 16);
    let per_shard = run.scale(1200, 15_000);
    std::thread::scope(|sc| {
        for shard in 0..shards {
            let run = &run;
            let schema = schema.clone();
            sc.spawn(move || {
                let mut r = Rng::new(rng::mix(&[run.seed, 24, shard]));
                for i in 0..per_shard {
                    binding_round(run, &mut r);
                    limit_round(run, &mut r, exceed_count);
                    if i % 2 == 0 {
                        e2e_round(run, &mut r, &schema, shared_naive);
                    }
                }
            });
        }
    });
    run.finish();
}
