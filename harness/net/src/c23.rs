//! C23 — all HTTP request encodings decode to the same request; batches keep order.
//!
//! Oracle: the harness generates a *logical* request (query text, operation
//! name, variables object, extensions object), encodes it with its own
//! encoders (own JSON writer with every escape spelling, own percent-encoder,
//! own multipart encoder) in four transport forms and compares what the
//! library decoded with the logical request, field by field:
//!   D1 JSON body            receive_body / receive_json
//!   D2 JSON batch element   receive_batch_body / receive_batch_json (length + order)
//!   D3 GET query string     parse_query_string
//!   D4 multipart operations receive_body / receive_batch_body (multipart/form-data)
//!   B  execute_batch: response i belongs to request i under every completion
//!      order of gated resolvers (vsched: Dfs for n<=5, Lifo/Fifo/Random beyond)
//!   M  malformed variants are rejected (only classes that are unambiguously
//!      malformed; lenient-by-standard classes are counted, not judged)

use std::sync::{Arc, Mutex};

use async_graphql::http::{MultipartOptions, parse_query_string, receive_batch_body, receive_batch_json, receive_body, receive_json};
use async_graphql::{BatchRequest, BatchResponse, Context, EmptyMutation, EmptySubscription, Object, Request, Schema};
use vh_core::serde_json::{self, Map, Value as J, json};
use vh_core::vsched::{Chooser, Dfs, FifoChooser, LifoChooser, Outcome, RandomChooser, Sched, block_on};
use vh_core::{Rng, Run, catch, rng};

use crate::common::*;

#[derive(Clone, Debug)]
pub struct Logical {
    pub query: String,
    pub op: Option<String>,
    pub vars: Map<String, J>,
    pub ext: Map<String, J>,
}

impl Logical {
    fn to_json(&self) -> J {
        json!({"query": self.query, "operationName": self.op, "variables": J::Object(self.vars.clone()), "extensions": J::Object(self.ext.clone())})
    }
}

fn gen_logical(r: &mut Rng) -> Logical {
    let query = match r.below(6) {
        0 => format!("query {} {{ a(x: \"{}\") }}", gen_ident(r), gen_text(r, 10).replace('"', "")),
        1 => String::new(),
        _ => gen_text(r, 48),
    };
    let op = match r.below(4) {
        0 => None,
        1 => Some(gen_text(r, 10)),
        _ => Some(gen_ident(r)),
    };
    let vars = if r.chance(1, 4) { Map::new() } else { gen_object(r, 3, true) };
    let ext = if r.chance(1, 2) { Map::new() } else { gen_object(r, 2, true) };
    Logical { query, op, vars, ext }
}

fn observe(req: &Request) -> J {
    json!({
        "query": req.query,
        "operationName": req.operation_name,
        "variables": serde_json::to_value(&req.variables).unwrap_or(J::String("<unserialisable>".into())),
        "extensions": serde_json::to_value(&req.extensions).unwrap_or(J::String("<unserialisable>".into())),
    })
}

/// JSON object text of one request: random key order, optional members absent
/// or null when empty.
fn enc_json(r: &mut Rng, l: &Logical) -> String {
    let mut fields: Vec<(&str, J)> = vec![];
    if !(l.query.is_empty() && r.bool()) {
        fields.push(("query", J::String(l.query.clone())));
    }
    match &l.op {
        Some(o) => fields.push(("operationName", J::String(o.clone()))),
        None => {
            if r.chance(1, 3) {
                fields.push(("operationName", J::Null))
            }
        }
    }
    for (name, m) in [("variables", &l.vars), ("extensions", &l.ext)] {
        if m.is_empty() {
            match r.below(3) {
                0 => {}
                1 => fields.push((name, J::Null)),
                _ => fields.push((name, J::Object(Map::new()))),
            }
        } else {
            fields.push((name, J::Object(m.clone())));
        }
    }
    r.shuffle(&mut fields);
    let mut m = Map::new();
    for (k, v) in fields {
        m.insert(k.to_string(), v);
    }
    let mut s = String::new();
    write_json_object(r, &m, &mut s);
    s
}

fn enc_get(r: &mut Rng, l: &Logical, with_op: bool) -> String {
    let mut pairs: Vec<(String, String)> = vec![];
    if !(l.query.is_empty() && r.bool()) {
        pairs.push(("query".into(), l.query.clone()));
    }
    if with_op && let Some(o) = &l.op {
        pairs.push(("operationName".into(), o.clone()));
    }
    for (name, m) in [("variables", &l.vars), ("extensions", &l.ext)] {
        if !m.is_empty() || r.chance(1, 3) {
            let mut s = String::new();
            write_json_object(r, m, &mut s);
            pairs.push((name.into(), s));
        }
    }
    r.shuffle(&mut pairs);
    pairs
        .iter()
        .map(|(k, v)| {
            let k = if r.chance(1, 8) { pct_encode(r, k) } else { k.clone() };
            format!("{k}={}", pct_encode(r, v))
        })
        .collect::<Vec<_>>()
        .join("&")
}

/// `Content-Type` header of the `operations` part. JSON text is UTF-8 by definition
/// (RFC 8259 section 8.1); a `charset` parameter on the part does not change the bytes.
fn gen_ops_part_ct(r: &mut Rng) -> Option<&'static str> {
    match r.below(8) {
        0 | 1 => None,
        2 => Some("application/json"),
        3 => Some("application/json; charset=utf-8"),
        4 | 5 => Some("application/json; charset=iso-8859-1"),
        6 => Some("application/json; charset=utf-16"),
        _ => Some(*r.pick(&[
            "application/json;charset=ISO-8859-1",
            "application/json; charset=\"latin1\"",
            "application/json; charset=windows-1252",
            "application/json; charset=utf-16le",
            "application/json; charset=utf-16be",
            "application/json; charset=shift_jis",
            "application/json; charset=us-ascii",
        ])),
    }
}

fn foreign_charset(ct: Option<&str>) -> bool {
    ct.is_some_and(|c| c.contains("charset") && !c.to_ascii_lowercase().contains("utf-8"))
}

/// multipart/form-data body whose `operations` part holds exactly `operations` (bytes).
fn enc_multipart_raw(r: &mut Rng, operations: &[u8], part_ct: Option<&str>) -> (String, Vec<u8>) {
    let boundary = loop {
        let b = gen_boundary(r);
        if find(operations, b.as_bytes(), 0).is_none() {
            break b;
        }
    };
    let mut ops = Part::field("operations", operations.to_vec());
    ops.content_type = part_ct.map(|s| s.to_string());
    let map = Part::field("map", if r.bool() { b"{}".to_vec() } else { b" { } ".to_vec() });
    let body = encode_multipart(&boundary, &[ops, map]);
    let ct = match r.below(3) {
        0 => format!("multipart/form-data; boundary={boundary}"),
        1 => format!("multipart/form-data; boundary=\"{boundary}\""),
        _ => format!("multipart/form-data; charset=utf-8; boundary={boundary}"),
    };
    (ct, body)
}

fn enc_multipart(r: &mut Rng, operations: &str) -> (String, Vec<u8>) {
    let part_ct = gen_ops_part_ct(r);
    enc_multipart_raw(r, operations.as_bytes(), part_ct)
}

/// Byte offsets of `text` (JSON) that lie inside a string literal at a character boundary
/// (after the opening quote or after a complete character / escape sequence).
fn in_string_offsets(text: &str) -> Vec<usize> {
    let b = text.as_bytes();
    let mut out = vec![];
    let mut in_str = false;
    let mut i = 0;
    while i < b.len() {
        if !in_str {
            if b[i] == b'"' {
                in_str = true;
                out.push(i + 1);
            }
            i += 1;
        } else if b[i] == b'\\' {
            i += if b.get(i + 1) == Some(&b'u') { 6 } else { 2 };
            out.push(i);
        } else if b[i] == b'"' {
            in_str = false;
            i += 1;
        } else {
            i += 1;
            while i < b.len() && (b[i] & 0xC0) == 0x80 {
                i += 1;
            }
            out.push(i);
        }
    }
    out
}

/// Byte sequences that are not UTF-8: lone continuation / lead bytes, truncated sequences,
/// overlong forms, an encoded surrogate, code points above U+10FFFF, Latin-1 text.
const BAD_UTF8: [&[u8]; 10] = [
    b"\xff",
    b"\x80",
    b"\xc3\x28",
    b"\xe2\x82",
    b"\xc0\xaf",
    b"\xed\xa0\x80",
    b"\xf4\x90\x80\x80",
    b"\xf0\x9f\x98",
    b"caf\xe9",
    b"\xfe\xff",
];

fn json_ct(r: &mut Rng) -> Option<&'static str> {
    *r.pick(&[
        Some("application/json"),
        Some("application/json; charset=utf-8"),
        Some("application/graphql-response+json"),
        None,
    ])
}

type Decoded = Result<Result<J, String>, String>;

fn dec_single_body(ct: Option<&str>, body: Vec<u8>, chunk: usize) -> Decoded {
    catch(|| {
        block_on(receive_body(ct, ChunkReader::new(body, chunk), MultipartOptions::default()))
            .map(|q| observe(&q))
            .map_err(|e| format!("{e:?}"))
    })
}

fn dec_batch_body(ct: Option<&str>, body: Vec<u8>, chunk: usize) -> Result<Result<BatchRequest, String>, String> {
    catch(|| {
        block_on(receive_batch_body(ct, ChunkReader::new(body, chunk), MultipartOptions::default())).map_err(|e| format!("{e:?}"))
    })
}

fn observe_batch(b: &BatchRequest) -> J {
    match b {
        BatchRequest::Single(q) => json!({"single": observe(q)}),
        BatchRequest::Batch(v) => json!({"batch": v.iter().map(observe).collect::<Vec<_>>()}),
    }
}

fn check_decoding(run: &Run, form: &str, l: &Logical, expect: &J, encoded: &[u8], got: Decoded) -> bool {
    run.eval();
    let mut equal = false;
    let sig = || format!("decode-{form}:{:x}", rng::hash_bytes(encoded));
    let replay = || json!({"form": form, "logical": l.to_json(), "encoded": lossy(encoded, 4000), "encoded_hex": hex(&encoded[..encoded.len().min(2000)])});
    match got {
        Err(p) => run.violation(&sig(), &format!("{form}: decoder panicked: {p}; encoded={}", lossy(encoded, 400)), replay()),
        Ok(Err(e)) => run.violation(
            &sig(),
            &format!("{form}: well-formed encoding rejected: {e}; encoded={}", lossy(encoded, 400)),
            replay(),
        ),
        Ok(Ok(obs)) => {
            if &obs == expect {
                run.count(&format!("decoded_equal_{form}"), 1);
                equal = true;
            } else {
                let mut diff = vec![];
                for k in ["query", "operationName", "variables", "extensions"] {
                    if obs[k] != expect[k] {
                        diff.push(format!("{k}: decoded {} expected {}", obs[k], expect[k]));
                    }
                }
                run.violation(
                    &sig(),
                    &format!("{form}: decoded request differs from the encoded one: {}; encoded={}", diff.join("; "), lossy(encoded, 400)),
                    replay(),
                );
            }
        }
    }
    equal
}

fn decode_round(run: &Run, r: &mut Rng, get_op: bool) {
    let l = gen_logical(r);
    let expect = l.to_json();
    let lh = rng::hash_str(&expect.to_string());
    let interesting = l.query.chars().any(|c| !c.is_ascii_alphanumeric() && c != ' ') || !l.vars.is_empty() || !l.ext.is_empty();
    if interesting {
        run.nontrivial(lh);
    }
    // D1 JSON body
    let text = enc_json(r, &l);
    let chunk = gen_chunk(r);
    let got = if r.bool() {
        dec_single_body(json_ct(r), text.clone().into_bytes(), chunk)
    } else {
        let body = text.clone().into_bytes();
        catch(|| block_on(receive_json(ChunkReader::new(body, chunk))).map(|q| observe(&q)).map_err(|e| format!("{e:?}")))
    };
    check_decoding(run, "json", &l, &expect, text.as_bytes(), got);
    run.sample(json!({"logical": expect, "json_body": text}));

    // D3 GET
    let mut expect_get = expect.clone();
    if !get_op {
        expect_get["operationName"] = J::Null;
    } else if l.op.is_some() {
        run.count("get_with_operation_name", 1);
    }
    let qs = enc_get(r, &l, get_op);
    let got = {
        let qs = qs.clone();
        catch(move || parse_query_string(&qs).map(|q| observe(&q)).map_err(|e| format!("{e:?}")))
    };
    check_decoding(run, "get", &l, &expect_get, qs.as_bytes(), got);
    run.sample_upto(8, json!({"logical": expect, "query_string": qs}));

    // D4 multipart operations
    let text = enc_json(r, &l);
    let part_ct = gen_ops_part_ct(r);
    let (ct, body) = enc_multipart_raw(r, text.as_bytes(), part_ct);
    let got = dec_single_body(Some(&ct), body.clone(), gen_chunk(r));
    let equal = check_decoding(run, "multipart", &l, &expect, &body, got);
    if foreign_charset(part_ct) && equal {
        // the part declares a charset other than UTF-8 while the JSON text is UTF-8
        run.count("multipart_operations_with_foreign_charset_param_decoded_equal", 1);
        if !text.is_ascii() {
            run.count("multipart_foreign_charset_param_with_raw_non_ascii_decoded_equal", 1);
        }
        run.seen("operations_part_content_types", part_ct.unwrap_or("<none>"));
    }
    run.sample_upto(10, json!({"content_type": ct, "multipart_body": lossy(&body, 600)}));

    // D4': a byte order mark in front of the JSON text. No rule is invented: whatever the JSON
    // body decoder does with these bytes, the multipart operations part must do the same.
    if r.chance(1, 8) {
        let mut bytes = b"\xef\xbb\xbf".to_vec();
        bytes.extend_from_slice(enc_json(r, &l).as_bytes());
        let as_json = dec_single_body(json_ct(r), bytes.clone(), gen_chunk(r));
        let part_ct = gen_ops_part_ct(r);
        let (ct, body) = enc_multipart_raw(r, &bytes, part_ct);
        let as_part = dec_single_body(Some(&ct), body.clone(), gen_chunk(r));
        run.eval();
        let class = |d: &Decoded| match d {
            Ok(Ok(o)) => format!("accepted as {o}"),
            Ok(Err(_)) => "rejected".to_string(),
            Err(p) => format!("panic {p}"),
        };
        let (a, b) = (class(&as_json), class(&as_part));
        if a == b && !a.starts_with("panic") {
            run.count("bom_same_outcome_json_body_and_multipart_part", 1);
            run.seen("bom_outcomes", if a == "rejected" { "rejected in both forms" } else { "accepted (equal requests) in both forms" });
        } else {
            run.violation(
                &format!("decode-bom:{:x}", rng::hash_bytes(&body)),
                &format!(
                    "JSON text with a leading UTF-8 byte order mark: as a JSON body it is {a}, as the multipart operations part (part Content-Type {part_ct:?}) it is {b}; encoded={}",
                    lossy(&body, 400)
                ),
                json!({"form": "multipart-bom", "logical": l.to_json(), "json_bytes_hex": hex(&bytes[..bytes.len().min(2000)]), "part_content_type": part_ct, "encoded_hex": hex(&body[..body.len().min(2000)])}),
            );
        }
    }
}

fn batch_round(run: &Run, r: &mut Rng) {
    // D2: a batch of n logical requests as JSON array (and as multipart operations)
    let n = 1 + r.below(6);
    let ls: Vec<Logical> = (0..n).map(|_| gen_logical(r)).collect();
    let expect = json!({"batch": ls.iter().map(|l| l.to_json()).collect::<Vec<_>>()});
    let mut text = String::from("[");
    for (i, l) in ls.iter().enumerate() {
        if i > 0 {
            text.push(',');
        }
        if r.bool() {
            text.push_str(*r.pick(&[" ", "\n", "\r\n\t"]));
        }
        text.push_str(&enc_json(r, l));
    }
    text.push_str(*r.pick(&["]", " ]", "\n]\n"]));
    run.nontrivial(rng::hash_str(&text));
    let (form, body, got) = match r.below(3) {
        0 => {
            let b = text.clone().into_bytes();
            let ct = json_ct(r);
            ("batch-json-body", b.clone(), dec_batch_body(ct, b, gen_chunk(r)))
        }
        1 => {
            let b = text.clone().into_bytes();
            let b2 = b.clone();
            let chunk = gen_chunk(r);
            ("batch-json", b, catch(move || block_on(receive_batch_json(ChunkReader::new(b2, chunk))).map_err(|e| format!("{e:?}"))))
        }
        _ => {
            let (ct, b) = enc_multipart(r, &text);
            ("batch-multipart", b.clone(), dec_batch_body(Some(&ct), b, gen_chunk(r)))
        }
    };
    run.eval();
    let sig = format!("decode-{form}:{:x}", rng::hash_bytes(&body));
    let replay = json!({"form": form, "expected": expect, "encoded": lossy(&body, 6000)});
    match got {
        Err(p) => run.violation(&sig, &format!("{form}: decoder panicked: {p}"), replay),
        Ok(Err(e)) => run.violation(&sig, &format!("{form}: well-formed batch of {n} rejected: {e}; body={}", lossy(&body, 400)), replay),
        Ok(Ok(b)) => {
            let obs = observe_batch(&b);
            if obs == expect {
                run.count("batch_decoded_in_order", 1);
                run.count("batch_elements_decoded", n as u64);
            } else {
                let got_n = obs["batch"].as_array().map(|a| a.len());
                run.violation(
                    &sig,
                    &format!("{form}: batch of {n} decoded to {got_n:?} elements / different contents or order: decoded {obs} expected {expect}"),
                    replay,
                );
            }
        }
    }
    // the single-request API on an array body: rejection is counted only
    if r.chance(1, 4) {
        let got = dec_single_body(Some("application/json"), text.into_bytes(), 512);
        match got {
            Ok(Err(_)) => run.count("single_api_rejects_array", 1),
            Ok(Ok(_)) => run.count("single_api_accepts_array", 1),
            Err(_) => run.count("single_api_panics_on_array", 1),
        }
    }
}

// ---------- malformed variants ----------

fn expect_reject(run: &Run, class: &str, input: &[u8], got: Result<Result<J, String>, String>) -> bool {
    run.eval();
    match got {
        Ok(Err(_)) => {
            run.count("malformed_rejected", 1);
            run.seen("malformed_classes_rejected", class);
            return true;
        }
        Ok(Ok(obs)) => run.violation(
            &format!("malformed-{class}:{:x}", rng::hash_bytes(input)),
            &format!("malformed encoding ({class}) accepted: input={} decoded as {obs}", lossy(input, 400)),
            json!({"class": class, "input": lossy(input, 4000), "decoded": obs}),
        ),
        Err(p) => run.violation(
            &format!("malformed-panic-{class}:{:x}", rng::hash_bytes(input)),
            &format!("malformed encoding ({class}) made the decoder panic instead of returning a request error: {p}; input={}", lossy(input, 400)),
            json!({"class": class, "input": lossy(input, 4000)}),
        ),
    }
    false
}

fn observe_only(run: &Run, class: &str, got: Result<Result<J, String>, String>, sample: J) {
    run.eval();
    let outcome = match &got {
        Ok(Ok(_)) => "accepted",
        Ok(Err(_)) => "rejected",
        Err(_) => "panicked",
    };
    run.count(&format!("lenient_{class}_{outcome}"), 1);
    run.seen("lenient_observations", &format!("{class}: {outcome}"));
    if let Err(p) = got {
        run.violation(&format!("panic-{class}:{:x}", rng::hash_str(&sample.to_string())), &format!("decoder panicked on {class}: {p}: {sample}"), sample);
    }
}

fn dec_any_batch(ct: Option<&str>, body: Vec<u8>) -> Result<Result<J, String>, String> {
    dec_batch_body(ct, body, 61).map(|r| r.map(|b| observe_batch(&b)))
}

fn dec_get(qs: &str) -> Result<Result<J, String>, String> {
    let qs = qs.to_string();
    catch(move || parse_query_string(&qs).map(|q| observe(&q)).map_err(|e| format!("{e:?}")))
}

fn invalid_json_text(r: &mut Rng) -> String {
    loop {
        let v = J::Object(gen_object(r, 2, true));
        let mut t = json_text(r, &v);
        match r.below(5) {
            0 => {
                let cut = r.below(t.len());
                let mut c = cut;
                while !t.is_char_boundary(c) {
                    c -= 1;
                }
                t.truncate(c);
            }
            1 => t.push_str(*r.pick(&["x", "}", ",", "{}", "1"])),
            2 => t = t.replacen('{', "{,", 1),
            3 => t = format!("{{'a':1}}{}", if r.bool() { "" } else { " " }),
            _ => t = t.replacen('}', "", 1),
        }
        if serde_json::from_str::<J>(&t).is_err() {
            return t;
        }
    }
}

fn malformed_round(run: &Run, r: &mut Rng, array_single: bool) {
    let l = gen_logical(r);
    match r.below(13) {
        12 => {
            // bytes that are not UTF-8 inside a string of the JSON text: JSON text is UTF-8 (RFC 8259 8.1);
            // oracle: the harness-side serde_json and str::from_utf8 both refuse the bytes
            let good = enc_json(r, &l);
            let offs = in_string_offsets(&good);
            if offs.is_empty() {
                return;
            }
            let at = *r.pick(&offs);
            let bad_seq = *r.pick(&BAD_UTF8);
            let mut bad = good.as_bytes()[..at].to_vec();
            bad.extend_from_slice(bad_seq);
            bad.extend_from_slice(&good.as_bytes()[at..]);
            if std::str::from_utf8(&bad).is_ok() || serde_json::from_slice::<J>(&bad).is_ok() {
                return;
            }
            // the same bytes in both transport forms
            let got = if r.bool() { dec_single_body(json_ct(r), bad.clone(), gen_chunk(r)) } else { dec_any_batch(json_ct(r), bad.clone()) };
            expect_reject(run, "json-body-invalid-utf8", &bad, got);
            let part_ct = gen_ops_part_ct(r);
            let (ct, body) = enc_multipart_raw(r, &bad, part_ct);
            let got = if r.bool() { dec_single_body(Some(&ct), body.clone(), gen_chunk(r)) } else { dec_any_batch(Some(&ct), body.clone()) };
            if expect_reject(run, "multipart-operations-invalid-utf8", &body, got) {
                run.count("multipart_operations_invalid_utf8_rejected", 1);
            }
        }
        0 => {
            // JSON body that is not JSON (oracle: serde_json on the harness side refuses it)
            let good = enc_json(r, &l);
            let bad = loop {
                let mut t = good.clone();
                match r.below(4) {
                    0 => {
                        let mut c = r.below(t.len());
                        while !t.is_char_boundary(c) {
                            c -= 1;
                        }
                        t.truncate(c);
                    }
                    1 => t.push_str(*r.pick(&["x", "}", ",", "{}", "[]", "0"])),
                    2 => t = t.replacen(':', " ", 1),
                    _ => t = invalid_json_text(r),
                }
                if serde_json::from_str::<J>(&t).is_err() {
                    break t;
                }
            };
            let got = if r.bool() { dec_single_body(json_ct(r), bad.clone().into_bytes(), gen_chunk(r)) } else { dec_any_batch(json_ct(r), bad.clone().into_bytes()) };
            expect_reject(run, "json-body-not-json", bad.as_bytes(), got);
        }
        1 => {
            let bad = *r.pick(&["", " ", "\n", "\r\n\t "]);
            let got = if r.bool() { dec_single_body(json_ct(r), bad.as_bytes().to_vec(), 16) } else { dec_any_batch(json_ct(r), bad.as_bytes().to_vec()) };
            expect_reject(run, "empty-body", bad.as_bytes(), got);
        }
        2 => {
            // a JSON array that is not a non-empty array of request objects: empty batch, positional array
            if !array_single {
                return;
            }
            let bad = match r.below(5) {
                0 => "[]".to_string(),
                1 => " [ ] ".to_string(),
                2 => "[\n]".to_string(),
                3 => format!("[{}]", json_text(r, &json!(l.query))),
                _ => {
                    let id = gen_ident(r);
                    let q = json_text(r, &json!(l.query));
                    format!("[{q}, {}]", json_text(r, &json!(id)))
                }
            };
            let class = if bad.trim().len() <= 4 && !bad.contains('"') { "empty-batch" } else { "positional-array" };
            if r.bool() {
                expect_reject(run, class, bad.as_bytes(), dec_any_batch(json_ct(r), bad.as_bytes().to_vec()));
            } else {
                let (ct, body) = enc_multipart(r, &bad);
                expect_reject(run, &format!("{class}-multipart"), &body, dec_any_batch(Some(&ct), body.clone()));
            }
        }
        3 => {
            // top-level JSON that is not an object / array of objects
            let bad = match r.below(5) {
                0 => "5".to_string(),
                1 => "\"{}\"".to_string(),
                2 => "true".to_string(),
                3 => "null".to_string(),
                _ => {
                    // an array element that is itself an array is the positional-array defect again
                    let el = if array_single { *r.pick(&["5", "\"x\"", "null", "[]", "[\"{a}\"]"]) } else { *r.pick(&["5", "\"x\"", "null"]) };
                    format!("[{}, {el}]", enc_json(r, &l))
                }
            };
            expect_reject(run, "json-not-a-request-object", bad.as_bytes(), dec_any_batch(json_ct(r), bad.as_bytes().to_vec()));
        }
        4 => {
            // members of the wrong JSON type
            let (k, v) = match r.below(7) {
                0 => ("query", json!(5)),
                1 => ("query", json!({"a": 1})),
                2 => ("operationName", json!(5)),
                3 => ("operationName", json!(["Q"])),
                4 => ("variables", json!([1])),
                5 => ("variables", json!("{}")),
                _ => ("extensions", json!([])),
            };
            let mut m = Map::new();
            m.insert("query".into(), json!(l.query));
            m.insert(k.into(), v);
            let bad = json_text(r, &J::Object(m));
            let got = if r.bool() {
                dec_any_batch(json_ct(r), bad.clone().into_bytes())
            } else {
                let (ct, body) = enc_multipart(r, &bad);
                dec_any_batch(Some(&ct), body)
            };
            expect_reject(run, &format!("json-wrong-type-{k}"), bad.as_bytes(), got);
        }
        5 => {
            // GET: variables / extensions that are not JSON
            let key = *r.pick(&["variables", "extensions"]);
            let bad = invalid_json_text(r);
            let qs = format!("query={}&{key}={}", pct_encode(r, &l.query), pct_encode(r, &bad));
            expect_reject(run, &format!("get-{key}-not-json"), qs.as_bytes(), dec_get(&qs));
        }
        6 => {
            // GET: variables / extensions JSON of a non-object type
            let key = *r.pick(&["variables", "extensions"]);
            let bad = *r.pick(&["[1]", "5", "\"{}\"", "true", "[]"]);
            let qs = format!("query={}&{key}={}", pct_encode(r, &l.query), pct_encode(r, bad));
            expect_reject(run, &format!("get-{key}-not-an-object"), qs.as_bytes(), dec_get(&qs));
        }
        7 => {
            let body = enc_json(r, &l).into_bytes();
            if r.bool() {
                // a multipart media type without boundary cannot be decoded at all
                let ct = *r.pick(&["multipart/form-data", "multipart/form-data; charset=utf-8", "multipart/mixed"]);
                let mut input = format!("Content-Type: {ct}\n\n").into_bytes();
                input.extend_from_slice(&body);
                expect_reject(run, "multipart-without-boundary", &input, dec_any_batch(Some(ct), body));
            } else {
                // not judged: a Content-Type value that is not a media type, in front of a fine JSON body
                let ct = *r.pick(&["", "not a mime", "/", "application/", ";", "a/b; c", "/json"]);
                let got = dec_any_batch(Some(ct), body);
                let outcome = match &got {
                    Ok(Ok(_)) => "accepted",
                    Ok(Err(_)) => "rejected",
                    Err(_) => "panicked",
                };
                run.seen("invalid_media_type_strings", &format!("{ct:?}: {outcome}"));
                observe_only(run, "invalid-media-type-string", got, json!({"content_type": ct}));
            }
        }
        8 => {
            // declared encoding and actual encoding disagree
            let text = enc_json(r, &l);
            let (ct, mp) = enc_multipart(r, &text);
            if r.bool() {
                let mut input = format!("Content-Type: {ct}\n\n").into_bytes();
                input.extend_from_slice(text.as_bytes());
                expect_reject(run, "multipart-type-json-body", &input, dec_any_batch(Some(&ct), text.into_bytes()));
            } else {
                let mut input = b"Content-Type: application/json\n\n".to_vec();
                input.extend_from_slice(&mp);
                expect_reject(run, "json-type-multipart-body", &input, dec_any_batch(Some("application/json"), mp));
            }
        }
        9 => {
            // multipart: operations part missing / not JSON
            let boundary = gen_boundary(r);
            let ct = format!("multipart/form-data; boundary={boundary}");
            let pick = r.below(3);
            if pick == 0 {
                let body = encode_multipart(&boundary, &[Part::field("map", b"{}".to_vec())]);
                expect_reject(run, "multipart-no-operations", &body, dec_any_batch(Some(&ct), body.clone()));
            } else if pick == 1 {
                // body cut before the close delimiter is complete (RFC 2046: close-delimiter is mandatory)
                let full = encode_multipart(&boundary, &[Part::field("operations", enc_json(r, &l).into_bytes()), Part::field("map", b"{}".to_vec())]);
                let tail = boundary.len() + 8 + 2; // "\r\n--B--\r\n" minus the final CRLF stays complete; cut at least into the dashes
                let cut = full.len() - 3 - r.below(tail.min(full.len() - 4));
                let body = full[..cut].to_vec();
                expect_reject(run, "multipart-truncated", &body, dec_any_batch(Some(&ct), body.clone()));
            } else {
                let bad = invalid_json_text(r);
                let body = encode_multipart(&boundary, &[Part::field("operations", bad.into_bytes()), Part::field("map", b"{}".to_vec())]);
                expect_reject(run, "multipart-operations-not-json", &body, dec_any_batch(Some(&ct), body.clone()));
            }
        }
        10 => {
            // not judged: the WHATWG urlencoded parser keeps invalid %-sequences literally and decodes bytes lossily
            let frag = *r.pick(&["%zz", "%", "%4", "%G1", "%FF", "%C3", "%ED%A0%80"]);
            let qs = format!("query={}{frag}", pct_encode(r, "{a}"));
            let got = dec_get(&qs);
            let decoded = got.as_ref().ok().and_then(|x| x.as_ref().ok()).map(|j| j["query"].clone());
            run.seen("bad_percent_decodings", &format!("query={{a}} followed by {frag} decodes to {}", decoded.as_ref().map(|d| d.to_string()).unwrap_or("<rejected>".into())));
            observe_only(run, "bad-percent-encoding", got, json!({"query_string": qs}));
            run.sample_upto(14, json!({"bad_percent_query_string": qs, "decoded_query": decoded}));
        }
        _ => {
            // not judged: a non-JSON media type carrying a JSON body
            let ct = *r.pick(&["text/plain", "application/x-www-form-urlencoded", "application/xml", "image/png"]);
            let body = enc_json(r, &l).into_bytes();
            observe_only(run, "other-media-type-with-json-body", dec_any_batch(Some(ct), body), json!({"content_type": ct}));
        }
    }
}

// ---------- batch execution order ----------

struct Query;

#[Object]
impl Query {
    async fn echo(&self, ctx: &Context<'_>, tag: i32) -> i32 {
        let sched = ctx.data_unchecked::<Sched>().clone();
        let log = ctx.data_unchecked::<Arc<Mutex<Vec<i32>>>>().clone();
        sched.gate(format!("echo{tag}")).await;
        log.lock().unwrap().push(tag);
        tag
    }
}

type S = Schema<Query, EmptyMutation, EmptySubscription>;

/// Build the batch through the real decoder: half the elements carry the tag
/// in a variable, some are invalid documents (answered without resolving).
fn exec_batch_text(r: &mut Rng, n: usize) -> (String, Vec<bool>) {
    let mut valid = vec![];
    let mut text = String::from("[");
    for i in 0..n {
        if i > 0 {
            text.push(',');
        }
        let ok = !r.chance(1, 8);
        valid.push(ok);
        let l = if !ok {
            Logical { query: "{ nope }".into(), op: None, vars: Map::new(), ext: Map::new() }
        } else if r.bool() {
            Logical { query: format!("{{ echo(tag: {i}) }}"), op: None, vars: Map::new(), ext: Map::new() }
        } else {
            let mut vars = Map::new();
            vars.insert("t".into(), json!(i));
            Logical { query: "query Q($t: Int!) { echo(tag: $t) }".into(), op: Some("Q".into()), vars, ext: Map::new() }
        };
        text.push_str(&enc_json(r, &l));
    }
    text.push(']');
    (text, valid)
}

struct ExecOutcome {
    completion: Vec<i32>,
    opened: Vec<String>,
}

fn exec_once(run: &Run, schema: &S, text: &str, valid: &[bool], chooser: &mut dyn Chooser, kind: &str) -> Option<ExecOutcome> {
    let n = valid.len();
    let body = text.as_bytes().to_vec();
    let batch = match block_on(receive_batch_json(ChunkReader::new(body, 512))) {
        Ok(b) => b,
        Err(e) => {
            run.violation(&format!("exec-decode:{:x}", rng::hash_str(text)), &format!("batch for execution rejected: {e:?}: {text}"), json!({"body": text}));
            return None;
        }
    };
    let sched = Sched::new();
    let log: Arc<Mutex<Vec<i32>>> = Arc::new(Mutex::new(vec![]));
    let batch = batch.data(sched.clone()).data(log.clone());
    let schema2 = schema.clone();
    run.eval();
    let res = catch(|| sched.run(async move { schema2.execute_batch(batch).await }, chooser, false, 10_000));
    let (out, rep) = match res {
        Ok(x) => x,
        Err(p) => {
            run.violation(&format!("exec-panic:{:x}", rng::hash_str(text)), &format!("execute_batch panicked: {p}"), json!({"body": text}));
            return None;
        }
    };
    if rep.outcome != Outcome::Done {
        run.inconclusive(&format!("execute_batch schedule ended with {:?}", rep.outcome));
        return None;
    }
    let completion = log.lock().unwrap().clone();
    let sig = format!("exec-order:{:x}", rng::hash_str(&format!("{text}|{:?}", rep.opened)));
    let replay = json!({"body": text, "schedule": rep.opened, "chooser": kind});
    match out {
        Some(BatchResponse::Batch(rs)) => {
            let obs: Vec<J> = rs.iter().map(|x| serde_json::to_value(x).unwrap()).collect();
            let mut bad = vec![];
            if rs.len() != n {
                bad.push(format!("{} responses for {n} requests", rs.len()));
            }
            for (i, x) in rs.iter().enumerate().take(n) {
                if valid[i] {
                    let want = json!({"data": {"echo": i}});
                    if obs[i] != want {
                        bad.push(format!("response {i} is {} expected {want}", obs[i]));
                    }
                } else if x.errors.is_empty() {
                    bad.push(format!("response {i} belongs to an invalid document but carries no error: {}", obs[i]));
                }
            }
            if bad.is_empty() {
                run.count("batch_responses_in_request_order", 1);
            } else {
                run.violation(&sig, &format!("execute_batch responses not in request order (resolver completion order {completion:?}): {}", bad.join("; ")), replay);
            }
        }
        other => run.violation(&sig, &format!("execute_batch of a {n}-element batch returned {other:?}"), replay),
    }
    let sorted = completion.windows(2).all(|w| w[0] < w[1]);
    if !sorted {
        run.count("batches_completed_out_of_request_order", 1);
    }
    if completion.len() >= 2 && completion.windows(2).all(|w| w[0] > w[1]) {
        run.count("batches_completed_in_exact_reverse_order", 1);
    }
    run.seen("completion_orders", &format!("{completion:?}"));
    Some(ExecOutcome { completion, opened: rep.opened })
}

fn exec_part(run: &Run, r: &mut Rng, schema: &S, dfs_max: usize, random_runs: u64) {
    // exhaustive: every completion order of n gated resolvers
    for n in 1..=dfs_max {
        let valid = vec![true; n];
        let mut text = String::from("[");
        for i in 0..n {
            if i > 0 {
                text.push(',');
            }
            text.push_str(&format!("{{\"query\":\"{{ echo(tag: {i}) }}\"}}"));
        }
        text.push(']');
        let mut dfs = Dfs::new();
        let mut schedules = 0u64;
        loop {
            let Some(o) = exec_once(run, schema, &text, &valid, &mut dfs, "dfs") else { return };
            schedules += 1;
            run.nontrivial(rng::hash_str(&format!("dfs{n}:{:?}", o.completion)));
            if !dfs.advance() {
                break;
            }
        }
        run.count("dfs_schedules", schedules);
        run.seen("dfs_batch_sizes_completed", &format!("n={n}: {schedules} schedules"));
    }
    for k in 0..random_runs {
        let n = 2 + r.below(9);
        let (text, valid) = exec_batch_text(r, n);
        let o = match k % 4 {
            0 => exec_once(run, schema, &text, &valid, &mut LifoChooser, "lifo"),
            1 => exec_once(run, schema, &text, &valid, &mut FifoChooser, "fifo"),
            _ => exec_once(run, schema, &text, &valid, &mut RandomChooser(r.fork(k)), "random"),
        };
        if let Some(o) = o {
            run.nontrivial(rng::hash_str(&format!("{text}{:?}", o.opened)));
            if k < 2 {
                run.sample_upto(12, json!({"batch_body": text, "gate_open_order": o.opened, "resolver_completion_order": o.completion}));
            }
        }
    }
}

fn witness_get_operation_name(run: &Run) {
    // pinned witness of the GET operationName defect
    let qs = "query=query%20Foo%7B__typename%7D%20query%20Bar%7B__typename%7D&operationName=Foo";
    run.eval();
    match dec_get(qs) {
        Ok(Ok(obs)) => {
            if obs["operationName"] == json!("Foo") {
                run.count("witness_get_operation_name_ok", 1);
            } else {
                run.violation(
                    &format!("C23-get-operation-name|operationName={}", obs["operationName"]),
                    &format!(
                        "GET query string {qs:?} decodes with operation_name={} (expected \"Foo\"): parse_query_string reads the key `operation_name`, \
                         the standard `operationName` parameter is ignored (src/http/mod.rs:29)",
                        obs["operationName"]
                    ),
                    json!({"query_string": qs, "decoded": obs}),
                );
            }
        }
        other => run.violation(
            &format!("C23-get-operation-name|{other:?}"),
            &format!("GET query string {qs:?} not decoded: {other:?}"),
            json!({"query_string": qs}),
        ),
    }
}

fn witness_array_as_single(run: &Run) {
    // pinned witness: JSON arrays that are not batches of request objects
    run.eval();
    let mut observed = vec![];
    for body in ["[]", "[\"{ a }\",\"Q\"]"] {
        match dec_any_batch(Some("application/json"), body.as_bytes().to_vec()) {
            Ok(Err(_)) => {}
            Ok(Ok(obs)) => observed.push(format!("{body} => {obs}")),
            Err(p) => observed.push(format!("{body} => panic {p}")),
        }
    }
    if observed.is_empty() {
        run.count("witness_array_as_single_ok", 1);
    } else {
        run.violation(
            &format!("C23-array-as-single-request|{}", observed.join(" ; ")),
            &format!(
                "JSON array bodies that are not non-empty arrays of request objects are accepted as a *single* request instead of being rejected: {}. \
                 BatchRequest is #[serde(untagged)] with Single(Request) tried first (src/request.rs:189-199) and the derived Deserialize of Request \
                 accepts a sequence positionally with every member defaulted, so deserialize_non_empty_vec (src/request.rs:272) is never reached for []",
                observed.join(" ; ")
            ),
            json!({"bodies": ["[]", "[\"{ a }\",\"Q\"]"], "observed": observed}),
        );
    }
}

pub fn main() {
    let mut run = Run::from_args(
        "exploration",
        "random logical requests (query text over quotes, & = % + # ?, CR/LF/TAB, C0 controls, BMP and astral characters; optional \
         operationName; nested variables/extensions objects with arbitrary keys) encoded by the harness's own JSON writer (random escape \
         spellings, whitespace, member order, absent/null members), percent-encoder (random hex case, + or %20, over-encoding) and \
         multipart encoder (random boundary, chunked reads), decoded by receive_body/receive_json/receive_batch_body/receive_batch_json/\
         parse_query_string and compared field by field; batches of 1-6; execute_batch under every completion order of gated resolvers \
         (Dfs) and Lifo/Fifo/Random orders for 2-10 requests; malformed variants per class; distinct by hash of the logical request / \
         (batch text, schedule); non-trivial = query needs escaping or variables/extensions non-empty",
    );
    run.assume("serde_json on the harness side defines what is (in)valid JSON and JSON value equality (objects as maps, number kinds kept)");
    run.assume("JSON text is UTF-8 (RFC 8259 8.1): a charset parameter on the multipart operations part does not re-interpret its bytes; bytes that are not UTF-8 inside the JSON text are malformed in every transport form; for a leading byte order mark only equality of the two decoders' outcomes (JSON body vs operations part) is asserted");
    run.assume("malformed = not JSON where JSON is required, wrong JSON type of a member, empty body/batch, unparsable media type, multipart without boundary/operations, declared and actual body encoding disagree");
    run.assume("NOT judged (counted only): invalid %-sequences and non-UTF-8 percent bytes in a query string (the WHATWG urlencoded parser keeps/replaces them by design), a non-JSON media type such as text/plain carrying a JSON body, the single-request API given an array");
    run.set_floors(2000, 500);
    run.require_counter("decoded_equal_json");
    run.require_counter("decoded_equal_get");
    run.require_counter("decoded_equal_multipart");
    run.require_counter("batch_decoded_in_order");
    run.require_counter("batch_responses_in_request_order");
    run.require_counter("batches_completed_in_exact_reverse_order");
    run.require_counter("malformed_rejected");
    run.require_counter("multipart_foreign_charset_param_with_raw_non_ascii_decoded_equal");
    run.require_counter("multipart_operations_invalid_utf8_rejected");
    run.require_counter("bom_same_outcome_json_body_and_multipart_part");

    let get_op = run.feature("get_operation_name");
    let array_single = run.feature("array_body_as_single_request");
    let shards = run.scale(8, 16);
    let per_shard = run.scale(6000, 150_000);
    let schema: S = Schema::build(Query, EmptyMutation, EmptySubscription).finish();
    let dfs_max = run.scale(5, 7) as usize;
    let random_runs = run.scale(300, 6000);

    witness_get_operation_name(&run);
    witness_array_as_single(&run);

    std::thread::scope(|sc| {
        for shard in 0..shards {
            let run = &run;
            let schema = schema.clone();
            sc.spawn(move || {
                let mut r = Rng::new(rng::mix(&[run.seed, 23, shard]));
                if shard == 0 {
                    exec_part(run, &mut r, &schema, dfs_max, random_runs);
                } else if shard % 4 == 1 {
                    exec_part(run, &mut r, &schema, 0, random_runs);
                }
                for i in 0..per_shard {
                    decode_round(run, &mut r, get_op);
                    if i % 3 == 0 {
                        batch_round(run, &mut r);
                    }
                    if i % 2 == 0 {
                        malformed_round(run, &mut r, array_single);
                    }
                }
            });
        }
    });
    run.finish();
}
