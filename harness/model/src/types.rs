//! The harness' own description of a GraphQL type system and of values.
//! Independent of async-graphql: reference models are written against this.

use std::collections::{BTreeSet, HashMap};
use std::fmt;

use serde_json::Value as J;

#[derive(Clone, Debug, PartialEq, Eq, Hash, PartialOrd, Ord)]
pub enum Ty {
    Named(String),
    List(Box<Ty>),
    NonNull(Box<Ty>),
}

impl Ty {
    pub fn named(s: &str) -> Ty {
        Ty::Named(s.to_string())
    }
    pub fn list(self) -> Ty {
        Ty::List(Box::new(self))
    }
    pub fn nn(self) -> Ty {
        match self {
            Ty::NonNull(_) => self,
            other => Ty::NonNull(Box::new(other)),
        }
    }
    /// innermost named type
    pub fn name(&self) -> &str {
        match self {
            Ty::Named(n) => n,
            Ty::List(t) | Ty::NonNull(t) => t.name(),
        }
    }
    pub fn is_nonnull(&self) -> bool {
        matches!(self, Ty::NonNull(_))
    }
    /// strip one NonNull wrapper if present
    pub fn nullable(&self) -> &Ty {
        match self {
            Ty::NonNull(t) => t,
            t => t,
        }
    }
    pub fn list_depth(&self) -> usize {
        match self {
            Ty::Named(_) => 0,
            Ty::List(t) => 1 + t.list_depth(),
            Ty::NonNull(t) => t.list_depth(),
        }
    }
    /// Parse "[Int!]!" style text.
    pub fn parse(s: &str) -> Ty {
        let s = s.trim();
        if let Some(inner) = s.strip_suffix('!') {
            return Ty::NonNull(Box::new(Ty::parse(inner)));
        }
        if let Some(inner) = s.strip_prefix('[') {
            let inner = inner.strip_suffix(']').expect("unbalanced type");
            return Ty::List(Box::new(Ty::parse(inner)));
        }
        Ty::Named(s.to_string())
    }
}

impl fmt::Display for Ty {
    fn fmt(&self, f: &mut fmt::Formatter<'_>) -> fmt::Result {
        match self {
            Ty::Named(n) => write!(f, "{n}"),
            Ty::List(t) => write!(f, "[{t}]"),
            Ty::NonNull(t) => write!(f, "{t}!"),
        }
    }
}

/// A GraphQL value (literal in a document, or a coerced runtime value).
#[derive(Clone, Debug, PartialEq)]
pub enum Val {
    Null,
    Int(i64),
    Float(f64),
    Str(String),
    Bool(bool),
    Enum(String),
    List(Vec<Val>),
    Obj(Vec<(String, Val)>),
    Var(String),
}

impl Val {
    pub fn obj_get(&self, k: &str) -> Option<&Val> {
        match self {
            Val::Obj(m) => m.iter().find(|(n, _)| n == k).map(|(_, v)| v),
            _ => None,
        }
    }

    pub fn contains_var(&self) -> bool {
        match self {
            Val::Var(_) => true,
            Val::List(xs) => xs.iter().any(|x| x.contains_var()),
            Val::Obj(m) => m.iter().any(|(_, v)| v.contains_var()),
            _ => false,
        }
    }

    pub fn vars(&self, out: &mut Vec<String>) {
        match self {
            Val::Var(v) => out.push(v.clone()),
            Val::List(xs) => xs.iter().for_each(|x| x.vars(out)),
            Val::Obj(m) => m.iter().for_each(|(_, v)| v.vars(out)),
            _ => {}
        }
    }

    /// GraphQL literal text.
    pub fn gql(&self) -> String {
        match self {
            Val::Null => "null".into(),
            Val::Int(i) => i.to_string(),
            Val::Float(f) => fmt_float(*f),
            Val::Str(s) => quote(s),
            Val::Bool(b) => b.to_string(),
            Val::Enum(e) => e.clone(),
            Val::List(xs) => format!("[{}]", xs.iter().map(|x| x.gql()).collect::<Vec<_>>().join(", ")),
            Val::Obj(m) => format!(
                "{{{}}}",
                m.iter().map(|(k, v)| format!("{k}: {}", v.gql())).collect::<Vec<_>>().join(", ")
            ),
            Val::Var(v) => format!("${v}"),
        }
    }

    /// JSON form (enums become strings). Panics on variables.
    pub fn json(&self) -> J {
        match self {
            Val::Null => J::Null,
            Val::Int(i) => J::from(*i),
            Val::Float(f) => serde_json::Number::from_f64(*f).map(J::Number).unwrap_or(J::Null),
            Val::Str(s) => J::from(s.clone()),
            Val::Bool(b) => J::from(*b),
            Val::Enum(e) => J::from(e.clone()),
            Val::List(xs) => J::Array(xs.iter().map(|x| x.json()).collect()),
            Val::Obj(m) => J::Object(m.iter().map(|(k, v)| (k.clone(), v.json())).collect()),
            Val::Var(v) => panic!("variable ${v} has no JSON form"),
        }
    }

    pub fn from_json(j: &J) -> Val {
        match j {
            J::Null => Val::Null,
            J::Bool(b) => Val::Bool(*b),
            J::Number(n) => {
                if let Some(i) = n.as_i64() {
                    Val::Int(i)
                } else {
                    Val::Float(n.as_f64().unwrap_or(f64::NAN))
                }
            }
            J::String(s) => Val::Str(s.clone()),
            J::Array(a) => Val::List(a.iter().map(Val::from_json).collect()),
            J::Object(m) => Val::Obj(m.iter().map(|(k, v)| (k.clone(), Val::from_json(v))).collect()),
        }
    }

    /// Canonical text used to compare what a resolver saw with what the
    /// reference coercion produced: object keys sorted, enum vs string kept
    /// apart, floats printed shortest-round-trip, ints as ints.
    pub fn canon(&self) -> String {
        match self {
            Val::Null => "null".into(),
            Val::Int(i) => format!("i{i}"),
            Val::Float(f) => {
                if f.fract() == 0.0 && f.abs() < 9e15 {
                    // an integral float and the same integer are one GraphQL number
                    format!("i{}", *f as i64)
                } else {
                    format!("f{}", fmt_float(*f))
                }
            }
            Val::Str(s) => format!("s{}", quote(s)),
            Val::Bool(b) => format!("b{b}"),
            Val::Enum(e) => format!("e{e}"),
            Val::List(xs) => format!("[{}]", xs.iter().map(|x| x.canon()).collect::<Vec<_>>().join(",")),
            Val::Obj(m) => {
                let mut items: Vec<(String, String)> = m.iter().map(|(k, v)| (k.clone(), v.canon())).collect();
                items.sort();
                format!(
                    "{{{}}}",
                    items.iter().map(|(k, v)| format!("{k}:{v}")).collect::<Vec<_>>().join(",")
                )
            }
            Val::Var(v) => format!("${v}"),
        }
    }
}

pub fn fmt_float(f: f64) -> String {
    if !f.is_finite() {
        return "0.0".into();
    }
    let s = format!("{f:?}"); // shortest round-trip, always has '.' or 'e'
    s
}

pub fn quote(s: &str) -> String {
    let mut o = String::from("\"");
    for c in s.chars() {
        match c {
            '"' => o.push_str("\\\""),
            '\\' => o.push_str("\\\\"),
            '\n' => o.push_str("\\n"),
            '\r' => o.push_str("\\r"),
            '\t' => o.push_str("\\t"),
            c if (c as u32) < 0x20 || c as u32 == 0x7f => o.push_str(&format!("\\u{:04x}", c as u32)),
            c => o.push(c),
        }
    }
    o.push('"');
    o
}

#[derive(Clone, Debug, PartialEq)]
pub enum ScalarKind {
    Int,
    Float,
    String,
    Boolean,
    ID,
    /// custom scalar: integers that are even
    EvenInt,
    /// custom scalar: strings of at most 8 characters
    ShortStr,
}

#[derive(Clone, Debug, PartialEq)]
pub struct ArgDef {
    pub name: String,
    pub ty: Ty,
    pub default: Option<Val>,
}

#[derive(Clone, Debug, PartialEq)]
pub struct FieldDef {
    pub name: String,
    pub args: Vec<ArgDef>,
    pub ty: Ty,
}

impl FieldDef {
    pub fn arg(&self, n: &str) -> Option<&ArgDef> {
        self.args.iter().find(|a| a.name == n)
    }
}

#[derive(Clone, Debug, PartialEq)]
pub enum Kind {
    Scalar(ScalarKind),
    Enum(Vec<String>),
    Object { fields: Vec<FieldDef>, implements: Vec<String> },
    Interface { fields: Vec<FieldDef>, implements: Vec<String> },
    Union(Vec<String>),
    Input { fields: Vec<ArgDef>, oneof: bool },
}

#[derive(Clone, Debug, PartialEq)]
pub struct TypeDef {
    pub name: String,
    pub kind: Kind,
}

#[derive(Clone, Debug, Default)]
pub struct TypeSystem {
    pub types: Vec<TypeDef>,
    pub index: HashMap<String, usize>,
    pub query: String,
    pub mutation: Option<String>,
    pub subscription: Option<String>,
    /// custom directives usable on fields (name, arguments); no effect on execution
    pub custom_directives: Vec<(String, Vec<ArgDef>)>,
}

impl TypeSystem {
    pub fn new(query: &str) -> TypeSystem {
        let mut ts = TypeSystem { query: query.to_string(), ..Default::default() };
        for (n, k) in [
            ("Int", ScalarKind::Int),
            ("Float", ScalarKind::Float),
            ("String", ScalarKind::String),
            ("Boolean", ScalarKind::Boolean),
            ("ID", ScalarKind::ID),
        ] {
            ts.add(TypeDef { name: n.to_string(), kind: Kind::Scalar(k) });
        }
        ts
    }

    pub fn add(&mut self, t: TypeDef) {
        if let Some(&i) = self.index.get(&t.name) {
            self.types[i] = t;
        } else {
            self.index.insert(t.name.clone(), self.types.len());
            self.types.push(t);
        }
    }

    pub fn get(&self, name: &str) -> Option<&TypeDef> {
        self.index.get(name).map(|&i| &self.types[i])
    }

    pub fn kind(&self, name: &str) -> &Kind {
        &self.get(name).unwrap_or_else(|| panic!("unknown type {name}")).kind
    }

    pub fn is_builtin_scalar(name: &str) -> bool {
        matches!(name, "Int" | "Float" | "String" | "Boolean" | "ID")
    }

    pub fn fields(&self, name: &str) -> &[FieldDef] {
        match self.kind(name) {
            Kind::Object { fields, .. } | Kind::Interface { fields, .. } => fields,
            _ => &[],
        }
    }

    pub fn field(&self, ty: &str, f: &str) -> Option<&FieldDef> {
        self.fields(ty).iter().find(|x| x.name == f)
    }

    pub fn is_composite(&self, name: &str) -> bool {
        matches!(self.kind(name), Kind::Object { .. } | Kind::Interface { .. } | Kind::Union(_))
    }

    pub fn is_leaf(&self, name: &str) -> bool {
        matches!(self.kind(name), Kind::Scalar(_) | Kind::Enum(_))
    }

    pub fn is_object(&self, name: &str) -> bool {
        matches!(self.kind(name), Kind::Object { .. })
    }

    pub fn is_input_type(&self, name: &str) -> bool {
        matches!(self.kind(name), Kind::Scalar(_) | Kind::Enum(_) | Kind::Input { .. })
    }

    pub fn objects(&self) -> Vec<&TypeDef> {
        self.types.iter().filter(|t| matches!(t.kind, Kind::Object { .. })).collect()
    }

    /// All interfaces an object or interface implements, transitively.
    pub fn implements_closure(&self, name: &str) -> BTreeSet<String> {
        let mut out = BTreeSet::new();
        let mut stack = vec![name.to_string()];
        while let Some(n) = stack.pop() {
            let imps = match self.get(&n).map(|t| &t.kind) {
                Some(Kind::Object { implements, .. }) | Some(Kind::Interface { implements, .. }) => implements.clone(),
                _ => vec![],
            };
            for i in imps {
                if out.insert(i.clone()) {
                    stack.push(i);
                }
            }
        }
        out
    }

    /// Set of object types a composite type can be at run time.
    pub fn possible_types(&self, name: &str) -> BTreeSet<String> {
        match self.kind(name) {
            Kind::Object { .. } => [name.to_string()].into_iter().collect(),
            Kind::Union(m) => m.iter().cloned().collect(),
            Kind::Interface { .. } => self
                .objects()
                .into_iter()
                .filter(|o| self.implements_closure(&o.name).contains(name))
                .map(|o| o.name.clone())
                .collect(),
            _ => BTreeSet::new(),
        }
    }

    /// spec DoesFragmentTypeApply(objectType, fragmentType)
    pub fn fragment_applies(&self, object: &str, cond: &str) -> bool {
        if object == cond {
            return true;
        }
        match self.get(cond).map(|t| &t.kind) {
            Some(Kind::Interface { .. }) => self.implements_closure(object).contains(cond),
            Some(Kind::Union(m)) => m.iter().any(|x| x == object),
            _ => false,
        }
    }

    /// Minimal SDL of the model (for samples / replays; not an oracle).
    pub fn sdl(&self) -> String {
        let mut o = String::new();
        for t in &self.types {
            if Self::is_builtin_scalar(&t.name) {
                continue;
            }
            match &t.kind {
                Kind::Scalar(_) => o.push_str(&format!("scalar {}\n", t.name)),
                Kind::Enum(v) => o.push_str(&format!("enum {} {{ {} }}\n", t.name, v.join(" "))),
                Kind::Union(m) => o.push_str(&format!("union {} = {}\n", t.name, m.join(" | "))),
                Kind::Object { fields, implements } | Kind::Interface { fields, implements } => {
                    let kw = if matches!(t.kind, Kind::Object { .. }) { "type" } else { "interface" };
                    let imp = if implements.is_empty() {
                        String::new()
                    } else {
                        format!(" implements {}", implements.join(" & "))
                    };
                    o.push_str(&format!("{kw} {}{imp} {{", t.name));
                    for f in fields {
                        let args = if f.args.is_empty() {
                            String::new()
                        } else {
                            format!(
                                "({})",
                                f.args
                                    .iter()
                                    .map(|a| format!(
                                        "{}: {}{}",
                                        a.name,
                                        a.ty,
                                        a.default.as_ref().map(|d| format!(" = {}", d.gql())).unwrap_or_default()
                                    ))
                                    .collect::<Vec<_>>()
                                    .join(", ")
                            )
                        };
                        o.push_str(&format!(" {}{}: {}", f.name, args, f.ty));
                    }
                    o.push_str(" }\n");
                }
                Kind::Input { fields, oneof } => {
                    o.push_str(&format!("input {}{} {{", t.name, if *oneof { " @oneOf" } else { "" }));
                    for a in fields {
                        o.push_str(&format!(
                            " {}: {}{}",
                            a.name,
                            a.ty,
                            a.default.as_ref().map(|d| format!(" = {}", d.gql())).unwrap_or_default()
                        ));
                    }
                    o.push_str(" }\n");
                }
            }
        }
        o.push_str(&format!(
            "schema {{ query: {}{}{} }}\n",
            self.query,
            self.mutation.as_ref().map(|m| format!(" mutation: {m}")).unwrap_or_default(),
            self.subscription.as_ref().map(|m| format!(" subscription: {m}")).unwrap_or_default()
        ));
        o
    }
}
