//! Executable-document AST of the harness and a printer that records where
//! every field / spread / directive token starts (1-based line, column).

use std::collections::HashMap;

use crate::types::{Ty, Val};

#[derive(Clone, Copy, Debug, PartialEq, Eq)]
pub enum OpKind {
    Query,
    Mutation,
    Subscription,
}

#[derive(Clone, Debug, PartialEq)]
pub struct Dir {
    pub name: String,
    pub args: Vec<(String, Val)>,
}

#[derive(Clone, Debug, PartialEq)]
pub struct VarDef {
    pub name: String,
    pub ty: Ty,
    pub default: Option<Val>,
}

#[derive(Clone, Debug, PartialEq)]
pub struct FieldSel {
    /// unique node id within the document (index into the position table)
    pub id: usize,
    pub alias: Option<String>,
    pub name: String,
    pub args: Vec<(String, Val)>,
    pub dirs: Vec<Dir>,
    pub sel: Vec<Sel>,
}

impl FieldSel {
    pub fn key(&self) -> &str {
        self.alias.as_deref().unwrap_or(&self.name)
    }
}

#[derive(Clone, Debug, PartialEq)]
pub enum Sel {
    Field(FieldSel),
    Inline { id: usize, cond: Option<String>, dirs: Vec<Dir>, sel: Vec<Sel> },
    Spread { id: usize, name: String, dirs: Vec<Dir> },
}

#[derive(Clone, Debug, PartialEq)]
pub struct Frag {
    pub name: String,
    pub cond: String,
    pub sel: Vec<Sel>,
}

#[derive(Clone, Debug, PartialEq)]
pub struct Op {
    pub kind: OpKind,
    pub name: Option<String>,
    pub vars: Vec<VarDef>,
    pub dirs: Vec<Dir>,
    pub sel: Vec<Sel>,
}

#[derive(Clone, Debug, PartialEq, Default)]
pub struct Doc {
    pub ops: Vec<Op>,
    pub frags: Vec<Frag>,
    pub next_id: usize,
}

impl Doc {
    pub fn fresh_id(&mut self) -> usize {
        self.next_id += 1;
        self.next_id - 1
    }
    pub fn frag(&self, name: &str) -> Option<&Frag> {
        self.frags.iter().find(|f| f.name == name)
    }
    pub fn op(&self, name: Option<&str>) -> Option<&Op> {
        match name {
            Some(n) => self.ops.iter().find(|o| o.name.as_deref() == Some(n)),
            None if self.ops.len() == 1 => self.ops.first(),
            None => None,
        }
    }
}

/// Positions of printed nodes: node id -> (line, column), 1-based, columns in
/// Unicode scalar values.
#[derive(Clone, Debug, Default)]
pub struct Printed {
    pub text: String,
    pub pos: HashMap<usize, (usize, usize)>,
}

pub struct Printer {
    out: String,
    line: usize,
    col: usize,
    pos: HashMap<usize, (usize, usize)>,
    /// pretty (multi-line, indented) or compact (single line)
    pretty: bool,
}

impl Printer {
    pub fn new(pretty: bool) -> Printer {
        Printer { out: String::new(), line: 1, col: 1, pos: HashMap::new(), pretty }
    }
    fn w(&mut self, s: &str) {
        for c in s.chars() {
            if c == '\n' {
                self.line += 1;
                self.col = 1;
            } else {
                self.col += 1;
            }
        }
        self.out.push_str(s);
    }
    fn nl(&mut self, indent: usize) {
        if self.pretty {
            self.w("\n");
            self.w(&"  ".repeat(indent));
        } else {
            self.w(" ");
        }
    }
    fn mark(&mut self, id: usize) {
        self.pos.insert(id, (self.line, self.col));
    }
    fn dirs(&mut self, dirs: &[Dir]) {
        for d in dirs {
            self.w(" @");
            self.w(&d.name);
            self.args(&d.args);
        }
    }
    fn args(&mut self, args: &[(String, Val)]) {
        if args.is_empty() {
            return;
        }
        self.w("(");
        for (i, (k, v)) in args.iter().enumerate() {
            if i > 0 {
                self.w(", ");
            }
            self.w(k);
            self.w(": ");
            self.w(&v.gql());
        }
        self.w(")");
    }
    fn sels(&mut self, sel: &[Sel], indent: usize) {
        self.w("{");
        for s in sel {
            self.nl(indent + 1);
            match s {
                Sel::Field(f) => {
                    self.mark(f.id);
                    if let Some(a) = &f.alias {
                        self.w(a);
                        self.w(": ");
                    }
                    self.w(&f.name);
                    self.args(&f.args);
                    self.dirs(&f.dirs);
                    if !f.sel.is_empty() {
                        self.w(" ");
                        self.sels(&f.sel, indent + 1);
                    }
                }
                Sel::Inline { id, cond, dirs, sel } => {
                    self.mark(*id);
                    self.w("...");
                    if let Some(c) = cond {
                        self.w(" on ");
                        self.w(c);
                    }
                    self.dirs(dirs);
                    self.w(" ");
                    self.sels(sel, indent + 1);
                }
                Sel::Spread { id, name, dirs } => {
                    self.mark(*id);
                    self.w("...");
                    self.w(name);
                    self.dirs(dirs);
                }
            }
        }
        self.nl(indent);
        self.w("}");
    }

    pub fn print(mut self, doc: &Doc) -> Printed {
        for (i, op) in doc.ops.iter().enumerate() {
            if i > 0 {
                self.nl(0);
            }
            let shorthand = op.kind == OpKind::Query && op.name.is_none() && op.vars.is_empty() && op.dirs.is_empty();
            if !shorthand {
                self.w(match op.kind {
                    OpKind::Query => "query",
                    OpKind::Mutation => "mutation",
                    OpKind::Subscription => "subscription",
                });
                if let Some(n) = &op.name {
                    self.w(" ");
                    self.w(n);
                }
                if !op.vars.is_empty() {
                    self.w("(");
                    for (i, v) in op.vars.iter().enumerate() {
                        if i > 0 {
                            self.w(", ");
                        }
                        self.w("$");
                        self.w(&v.name);
                        self.w(": ");
                        self.w(&v.ty.to_string());
                        if let Some(d) = &v.default {
                            self.w(" = ");
                            self.w(&d.gql());
                        }
                    }
                    self.w(")");
                }
                self.dirs(&op.dirs);
                self.w(" ");
            }
            self.sels(&op.sel, 0);
        }
        for f in &doc.frags {
            self.nl(0);
            self.w("fragment ");
            self.w(&f.name);
            self.w(" on ");
            self.w(&f.cond);
            self.w(" ");
            self.sels(&f.sel, 0);
        }
        Printed { text: self.out, pos: self.pos }
    }
}

pub fn print(doc: &Doc, pretty: bool) -> Printed {
    Printer::new(pretty).print(doc)
}

/// Count syntactic nodes (selections, arguments, directives, variable
/// definitions, fragment definitions, operations).
pub fn node_count(doc: &Doc) -> usize {
    fn sels(s: &[Sel]) -> usize {
        s.iter()
            .map(|x| match x {
                Sel::Field(f) => 1 + f.args.len() + f.dirs.len() + sels(&f.sel),
                Sel::Inline { dirs, sel, .. } => 1 + dirs.len() + sels(sel),
                Sel::Spread { dirs, .. } => 1 + dirs.len(),
            })
            .sum()
    }
    doc.ops.iter().map(|o| 1 + o.vars.len() + o.dirs.len() + sels(&o.sel)).sum::<usize>()
        + doc.frags.iter().map(|f| 1 + sels(&f.sel)).sum::<usize>()
}

/// Walk every selection of the document (operations and fragments).
pub fn walk_sels<'a>(doc: &'a Doc, f: &mut dyn FnMut(&'a Sel)) {
    fn go<'a>(s: &'a [Sel], f: &mut dyn FnMut(&'a Sel)) {
        for x in s {
            f(x);
            match x {
                Sel::Field(fs) => go(&fs.sel, f),
                Sel::Inline { sel, .. } => go(sel, f),
                Sel::Spread { .. } => {}
            }
        }
    }
    for o in &doc.ops {
        go(&o.sel, f);
    }
    for fr in &doc.frags {
        go(&fr.sel, f);
    }
}
