//! Input coercion per the GraphQL specification (§3 input coercion rules,
//! §6.1.2 CoerceVariableValues, §6.4.1 CoerceArgumentValues).

use std::collections::BTreeMap;

use serde_json::Value as J;

use crate::doc::Op;
use crate::types::{ArgDef, FieldDef, Kind, ScalarKind, Ty, TypeSystem, Val};

/// Coerced variable values; a variable that is neither supplied nor defaulted
/// is *absent* (not in the map), which is distinct from null.
pub type Vars = BTreeMap<String, Val>;

#[derive(Debug, Clone, PartialEq)]
pub enum C {
    Absent,
    V(Val),
}

/// Coerce `v` (a literal, possibly containing variables when `vars` is given,
/// or a JSON-derived value when `from_json`) to input type `ty`.
pub fn coerce(ts: &TypeSystem, ty: &Ty, v: &Val, vars: Option<&Vars>, from_json: bool) -> Result<C, String> {
    if let Val::Var(name) = v {
        let vars = vars.ok_or_else(|| format!("variable ${name} not allowed here"))?;
        return match vars.get(name) {
            Some(Val::Null) if ty.is_nonnull() => Err(format!("variable ${name} is null at a non-null position")),
            Some(x) => Ok(C::V(x.clone())),
            None => Ok(C::Absent),
        };
    }
    if *v == Val::Null {
        return if ty.is_nonnull() { Err(format!("null for non-null type {ty}")) } else { Ok(C::V(Val::Null)) };
    }
    match ty {
        Ty::NonNull(inner) => coerce(ts, inner, v, vars, from_json),
        Ty::List(item) => match v {
            Val::List(xs) => {
                let mut out = vec![];
                for x in xs {
                    match coerce(ts, item, x, vars, from_json)? {
                        C::V(y) => out.push(y),
                        // an absent variable inside a list literal: graphql-js yields null
                        C::Absent => {
                            if item.is_nonnull() {
                                return Err("absent variable in non-null list item".into());
                            }
                            out.push(Val::Null)
                        }
                    }
                }
                Ok(C::V(Val::List(out)))
            }
            single => match coerce(ts, item, single, vars, from_json)? {
                C::V(y) => Ok(C::V(Val::List(vec![y]))),
                C::Absent => Ok(C::Absent),
            },
        },
        Ty::Named(n) => {
            let td = ts.get(n).ok_or_else(|| format!("unknown type {n}"))?;
            match &td.kind {
                Kind::Scalar(k) => coerce_scalar(k, v).map(C::V),
                Kind::Enum(members) => match v {
                    Val::Enum(e) if members.contains(e) => Ok(C::V(Val::Enum(e.clone()))),
                    Val::Str(e) if from_json && members.contains(e) => Ok(C::V(Val::Enum(e.clone()))),
                    other => Err(format!("{} is not a value of enum {n}", other.gql())),
                },
                Kind::Input { fields, oneof } => {
                    let Val::Obj(given) = v else {
                        return Err(format!("{} is not an input object for {n}", v.gql()));
                    };
                    for (k, _) in given {
                        if !fields.iter().any(|f| &f.name == k) {
                            return Err(format!("unknown field {k} on input {n}"));
                        }
                    }
                    let mut seen = std::collections::BTreeSet::new();
                    for (k, _) in given {
                        if !seen.insert(k) {
                            return Err(format!("duplicate field {k}"));
                        }
                    }
                    let mut out = vec![];
                    for f in fields {
                        let supplied = given.iter().find(|(k, _)| k == &f.name).map(|(_, x)| x);
                        let c = match supplied {
                            Some(x) => coerce(ts, &f.ty, x, vars, from_json)?,
                            None => C::Absent,
                        };
                        match c {
                            C::V(y) => out.push((f.name.clone(), y)),
                            C::Absent => {
                                if let Some(d) = &f.default {
                                    match coerce(ts, &f.ty, d, None, false)? {
                                        C::V(y) => out.push((f.name.clone(), y)),
                                        C::Absent => {}
                                    }
                                } else if f.ty.is_nonnull() {
                                    return Err(format!("required field {}.{} missing", n, f.name));
                                }
                            }
                        }
                    }
                    if *oneof {
                        if given.len() != 1 || out.len() != 1 || out[0].1 == Val::Null {
                            return Err(format!("oneOf input {n} needs exactly one non-null field"));
                        }
                    }
                    Ok(C::V(Val::Obj(out)))
                }
                _ => Err(format!("{n} is not an input type")),
            }
        }
    }
}

pub fn coerce_scalar(k: &ScalarKind, v: &Val) -> Result<Val, String> {
    match (k, v) {
        (ScalarKind::Int, Val::Int(i)) if *i >= i32::MIN as i64 && *i <= i32::MAX as i64 => Ok(Val::Int(*i)),
        (ScalarKind::Float, Val::Int(i)) => Ok(Val::Float(*i as f64)),
        (ScalarKind::Float, Val::Float(f)) if f.is_finite() => Ok(Val::Float(*f)),
        (ScalarKind::String, Val::Str(s)) => Ok(Val::Str(s.clone())),
        (ScalarKind::Boolean, Val::Bool(b)) => Ok(Val::Bool(*b)),
        (ScalarKind::ID, Val::Str(s)) => Ok(Val::Str(s.clone())),
        (ScalarKind::ID, Val::Int(i)) => Ok(Val::Str(i.to_string())),
        (ScalarKind::EvenInt, Val::Int(i)) if i % 2 == 0 => Ok(Val::Int(*i)),
        (ScalarKind::ShortStr, Val::Str(s)) if s.chars().count() <= 8 => Ok(Val::Str(s.clone())),
        (k, v) => Err(format!("{} is not a valid {k:?}", v.gql())),
    }
}

/// Is `v` a valid *result* for a leaf of this scalar kind?
pub fn valid_result_scalar(k: &ScalarKind, v: &Val) -> bool {
    match (k, v) {
        (ScalarKind::Int, Val::Int(i)) => *i >= i32::MIN as i64 && *i <= i32::MAX as i64,
        (ScalarKind::Float, Val::Int(_)) => true,
        (ScalarKind::Float, Val::Float(f)) => f.is_finite(),
        (ScalarKind::String, Val::Str(_)) => true,
        (ScalarKind::Boolean, Val::Bool(_)) => true,
        (ScalarKind::ID, Val::Str(_)) => true,
        (ScalarKind::EvenInt, Val::Int(i)) => i % 2 == 0,
        (ScalarKind::ShortStr, Val::Str(s)) => s.chars().count() <= 8,
        _ => false,
    }
}

/// §6.1.2 CoerceVariableValues.
pub fn coerce_variables(ts: &TypeSystem, op: &Op, raw: &J) -> Result<Vars, String> {
    let empty = serde_json::Map::new();
    let raw = raw.as_object().unwrap_or(&empty);
    let mut out = Vars::new();
    for vd in &op.vars {
        if !ts.is_input_type(vd.ty.name()) {
            return Err(format!("variable ${} is not of an input type", vd.name));
        }
        match raw.get(&vd.name) {
            Some(j) => {
                let v = Val::from_json(j);
                match coerce(ts, &vd.ty, &v, None, true).map_err(|e| format!("variable ${}: {e}", vd.name))? {
                    C::V(x) => {
                        out.insert(vd.name.clone(), x);
                    }
                    C::Absent => {}
                }
            }
            None => {
                if let Some(d) = &vd.default {
                    match coerce(ts, &vd.ty, d, None, false).map_err(|e| format!("default of ${}: {e}", vd.name))? {
                        C::V(x) => {
                            out.insert(vd.name.clone(), x);
                        }
                        C::Absent => {}
                    }
                } else if vd.ty.is_nonnull() {
                    return Err(format!("required variable ${} not provided", vd.name));
                }
            }
        }
    }
    Ok(out)
}

/// §6.4.1 CoerceArgumentValues. The result lists only arguments that have a
/// value (explicit null included); omitted ones without default are absent.
pub fn coerce_args(
    ts: &TypeSystem,
    defs: &[ArgDef],
    given: &[(String, Val)],
    vars: &Vars,
) -> Result<Vec<(String, Val)>, String> {
    let mut out = vec![];
    for d in defs {
        let supplied = given.iter().find(|(k, _)| k == &d.name).map(|(_, v)| v);
        let c = match supplied {
            Some(v) => coerce(ts, &d.ty, v, Some(vars), false).map_err(|e| format!("argument {}: {e}", d.name))?,
            None => C::Absent,
        };
        match c {
            C::V(x) => out.push((d.name.clone(), x)),
            C::Absent => {
                if let Some(def) = &d.default {
                    if let C::V(x) = coerce(ts, &d.ty, def, None, false)? {
                        out.push((d.name.clone(), x));
                    }
                } else if d.ty.is_nonnull() {
                    return Err(format!("required argument {} missing", d.name));
                }
            }
        }
    }
    Ok(out)
}

pub fn coerce_field_args(
    ts: &TypeSystem,
    field: &FieldDef,
    given: &[(String, Val)],
    vars: &Vars,
) -> Result<Vec<(String, Val)>, String> {
    coerce_args(ts, &field.args, given, vars)
}

/// Canonical text of an argument map, used as the data-world key. Null-valued
/// entries are dropped at every object level: "absent" and "null" select the
/// same data, so receiving types that cannot tell them apart (Option<T>) stay
/// in step with the reference. (What a resolver received is compared exactly,
/// elsewhere, by the argument monitor.)
pub fn canon_args(args: &[(String, Val)]) -> String {
    fn strip(v: &Val) -> Val {
        match v {
            Val::Obj(m) => Val::Obj(m.iter().filter(|(_, x)| *x != Val::Null).map(|(k, x)| (k.clone(), strip(x))).collect()),
            Val::List(xs) => Val::List(xs.iter().map(strip).collect()),
            other => other.clone(),
        }
    }
    strip(&Val::Obj(args.to_vec())).canon()
}
