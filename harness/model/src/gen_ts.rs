//! G1 — random type systems (valid by construction).

use vh_core::Rng;

use crate::types::*;

#[derive(Clone, Debug)]
pub struct TsOpts {
    pub max_objects: usize,
    pub interfaces: bool,
    pub interface_inheritance: bool,
    pub unions: bool,
    pub custom_scalars: bool,
    pub input_objects: bool,
    pub oneof: bool,
    pub mutation: bool,
    pub args: bool,
}

impl Default for TsOpts {
    fn default() -> Self {
        TsOpts {
            max_objects: 5,
            interfaces: true,
            interface_inheritance: true,
            unions: true,
            custom_scalars: true,
            input_objects: true,
            oneof: true,
            mutation: true,
            args: true,
        }
    }
}

fn wrap(r: &mut Rng, base: Ty, allow_list: bool) -> Ty {
    // nullability / list wrappers in every combination up to depth 2
    let mut t = base;
    if r.chance(2, 5) {
        t = t.nn();
    }
    if allow_list && r.chance(1, 3) {
        t = t.list();
        if r.chance(1, 2) {
            t = t.nn();
        }
        if r.chance(1, 6) {
            t = t.list();
            if r.chance(1, 2) {
                t = t.nn();
            }
        }
    }
    t
}

pub fn gen_input_literal(ts: &TypeSystem, ty: &Ty, r: &mut Rng, depth: u32) -> Val {
    match ty {
        Ty::NonNull(t) => {
            let v = gen_input_literal(ts, t, r, depth);
            if v == Val::Null { gen_nonnull_literal(ts, t, r, depth) } else { v }
        }
        other => {
            if r.chance(1, 8) {
                return Val::Null;
            }
            gen_nonnull_literal(ts, other, r, depth)
        }
    }
}

fn gen_nonnull_literal(ts: &TypeSystem, ty: &Ty, r: &mut Rng, depth: u32) -> Val {
    match ty {
        Ty::NonNull(t) => gen_nonnull_literal(ts, t, r, depth),
        Ty::List(item) => {
            let n = r.below(3);
            Val::List((0..n).map(|_| gen_input_literal(ts, item, r, depth)).collect())
        }
        Ty::Named(n) => match ts.kind(n) {
            Kind::Scalar(k) => match k {
                ScalarKind::Int => Val::Int(*r.pick(&[0, 1, -1, 7, 42, i32::MAX as i64, i32::MIN as i64, 1000])),
                ScalarKind::Float => r.pick(&[Val::Float(0.5), Val::Float(-2.25), Val::Int(3), Val::Float(1e3)]).clone(),
                ScalarKind::String => Val::Str(r.pick(&["", "x", "hello", "a b", "q\"q", "é"]).to_string()),
                ScalarKind::Boolean => Val::Bool(r.bool()),
                ScalarKind::ID => {
                    if r.bool() {
                        Val::Str(format!("id{}", r.below(9)))
                    } else {
                        Val::Int(r.below(99) as i64)
                    }
                }
                ScalarKind::EvenInt => Val::Int(r.range(-5, 5) * 2),
                ScalarKind::ShortStr => Val::Str(r.pick(&["", "ab", "12345678"]).to_string()),
            },
            Kind::Enum(m) => Val::Enum(r.pick(m).clone()),
            Kind::Input { fields, oneof } => {
                if *oneof {
                    let f = r.pick(fields);
                    return Val::Obj(vec![(f.name.clone(), gen_nonnull_literal(ts, &f.ty, r, depth.saturating_sub(1)))]);
                }
                let mut out = vec![];
                for f in fields {
                    let required = f.ty.is_nonnull() && f.default.is_none();
                    let recursive = matches!(ts.kind(f.ty.name()), Kind::Input { .. });
                    if recursive && depth == 0 {
                        if required {
                            // cannot happen: generator never makes required recursive fields
                            out.push((f.name.clone(), gen_nonnull_literal(ts, &f.ty, r, 0)));
                        }
                        continue;
                    }
                    if required || r.chance(3, 5) {
                        out.push((f.name.clone(), gen_input_literal(ts, &f.ty, r, depth.saturating_sub(1))));
                    }
                }
                Val::Obj(out)
            }
            _ => Val::Null,
        },
    }
}

/// Generate a random valid type system.
pub fn gen_type_system(r: &mut Rng, o: &TsOpts) -> TypeSystem {
    let mut ts = TypeSystem::new("Query");
    if o.custom_scalars && r.chance(2, 3) {
        ts.add(TypeDef { name: "Even".into(), kind: Kind::Scalar(ScalarKind::EvenInt) });
        if r.bool() {
            ts.add(TypeDef { name: "Short".into(), kind: Kind::Scalar(ScalarKind::ShortStr) });
        }
    }
    let n_enums = 1 + r.below(2);
    for i in 0..n_enums {
        let n = 2 + r.below(3);
        let vals = (0..n).map(|j| format!("E{i}V{j}")).collect();
        ts.add(TypeDef { name: format!("En{i}"), kind: Kind::Enum(vals) });
    }
    let leafs: Vec<String> = ts
        .types
        .iter()
        .filter(|t| matches!(t.kind, Kind::Scalar(_) | Kind::Enum(_)))
        .map(|t| t.name.clone())
        .collect();

    // input objects
    let mut inputs: Vec<String> = vec![];
    if o.input_objects {
        let n = r.below(3);
        for i in 0..n {
            let name = format!("In{i}");
            inputs.push(name.clone());
            // declare first (empty) so later ones can reference earlier ones
            ts.add(TypeDef { name, kind: Kind::Input { fields: vec![], oneof: false } });
        }
        for i in 0..n {
            let nf = 1 + r.below(4);
            let mut fields = vec![];
            for j in 0..nf {
                let use_input = !inputs.is_empty() && r.chance(1, 4);
                let (base, is_input) = if use_input {
                    (Ty::named(r.pick(&inputs).as_str()), true)
                } else {
                    (Ty::named(r.pick(&leafs).as_str()), false)
                };
                let mut ty = wrap(r, base, true);
                if is_input {
                    // never required recursion: nested input objects stay nullable at top level
                    ty = ty.nullable().clone();
                }
                let default = if !is_input && r.chance(1, 3) {
                    let d = gen_input_literal(&ts, &ty, r, 1);
                    if d == Val::Null && ty.is_nonnull() { None } else { Some(d) }
                } else {
                    None
                };
                fields.push(ArgDef { name: format!("f{j}"), ty, default });
            }
            ts.add(TypeDef { name: format!("In{i}"), kind: Kind::Input { fields, oneof: false } });
        }
        if o.oneof && r.chance(1, 2) {
            let nf = 2 + r.below(2);
            let fields = (0..nf)
                .map(|j| {
                    let base = if !inputs.is_empty() && r.chance(1, 4) {
                        Ty::named(r.pick(&inputs).as_str())
                    } else {
                        Ty::named(r.pick(&leafs).as_str())
                    };
                    // oneOf fields are nullable without defaults
                    ArgDef { name: format!("o{j}"), ty: if r.chance(1, 4) { base.list() } else { base }, default: None }
                })
                .collect();
            ts.add(TypeDef { name: "Pick".into(), kind: Kind::Input { fields, oneof: true } });
            inputs.push("Pick".into());
        }
    }

    // names of composite output types, decided up front so fields can reference any of them
    let n_obj = 2 + r.below(o.max_objects.max(2) - 1);
    let objs: Vec<String> = (0..n_obj).map(|i| format!("Ob{i}")).collect();
    let n_if = if o.interfaces { r.below(3) } else { 0 };
    let ifs: Vec<String> = (0..n_if).map(|i| format!("If{i}")).collect();
    let n_un = if o.unions { r.below(3) } else { 0 };
    let uns: Vec<String> = (0..n_un).map(|i| format!("Un{i}")).collect();

    let mut composites: Vec<String> = objs.clone();
    composites.extend(ifs.iter().cloned());
    composites.extend(uns.iter().cloned());

    let mut field_counter = 0usize;
    let gen_field = |r: &mut Rng, ts: &TypeSystem, name: String, leaf_only: bool| -> FieldDef {
        let base = if !leaf_only && r.chance(2, 5) {
            Ty::named(r.pick(&composites).as_str())
        } else {
            Ty::named(r.pick(&leafs).as_str())
        };
        let ty = wrap(r, base, true);
        let mut args = vec![];
        if o.args && r.chance(1, 3) {
            let na = 1 + r.below(2);
            for a in 0..na {
                let use_input = !inputs.is_empty() && r.chance(1, 3);
                let base = if use_input { Ty::named(r.pick(&inputs).as_str()) } else { Ty::named(r.pick(&leafs).as_str()) };
                let aty = wrap(r, base, true);
                let default = if r.chance(1, 3) {
                    let d = gen_input_literal(ts, &aty, r, 2);
                    if d == Val::Null && aty.is_nonnull() { None } else { Some(d) }
                } else {
                    None
                };
                args.push(ArgDef { name: format!("a{a}"), ty: aty, default });
            }
        }
        FieldDef { name, args, ty }
    };

    // interfaces (If1 may implement If0)
    let mut if_fields: Vec<Vec<FieldDef>> = vec![];
    let mut if_impl: Vec<Vec<String>> = vec![];
    for i in 0..n_if {
        let mut fields = vec![];
        let mut implements = vec![];
        if i > 0 && o.interface_inheritance && r.chance(1, 2) {
            implements.push(ifs[0].clone());
            fields.extend(if_fields[0].iter().cloned());
        }
        let nf = 1 + r.below(3);
        for _ in 0..nf {
            field_counter += 1;
            fields.push(gen_field(r, &ts, format!("i{field_counter}"), false));
        }
        if_fields.push(fields);
        if_impl.push(implements);
    }

    // objects
    let mut obj_defs: Vec<(Vec<FieldDef>, Vec<String>)> = vec![];
    for _ in 0..n_obj {
        let mut fields: Vec<FieldDef> = vec![];
        let mut implements: Vec<String> = vec![];
        for (k, iname) in ifs.iter().enumerate() {
            if r.chance(1, 2) {
                for dep in if_impl[k].iter().chain(std::iter::once(iname)) {
                    if !implements.contains(dep) {
                        implements.push(dep.clone());
                        let idx = ifs.iter().position(|x| x == dep).unwrap();
                        for f in &if_fields[idx] {
                            if !fields.iter().any(|x| x.name == f.name) {
                                fields.push(f.clone());
                            }
                        }
                    }
                }
            }
        }
        let nf = 2 + r.below(4);
        for _ in 0..nf {
            field_counter += 1;
            fields.push(gen_field(r, &ts, format!("f{field_counter}"), false));
        }
        obj_defs.push((fields, implements));
    }
    // every interface needs at least one implementor
    for (k, iname) in ifs.iter().enumerate() {
        if !obj_defs.iter().any(|(_, imp)| imp.contains(iname)) {
            let t = r.below(n_obj);
            for dep in if_impl[k].iter().chain(std::iter::once(iname)) {
                if !obj_defs[t].1.contains(dep) {
                    obj_defs[t].1.push(dep.clone());
                    let idx = ifs.iter().position(|x| x == dep).unwrap();
                    for f in &if_fields[idx] {
                        if !obj_defs[t].0.iter().any(|x| x.name == f.name) {
                            obj_defs[t].0.push(f.clone());
                        }
                    }
                }
            }
        }
    }
    for (i, (fields, implements)) in obj_defs.into_iter().enumerate() {
        ts.add(TypeDef { name: objs[i].clone(), kind: Kind::Object { fields, implements } });
    }
    for (i, fields) in if_fields.into_iter().enumerate() {
        ts.add(TypeDef {
            name: ifs[i].clone(),
            kind: Kind::Interface { fields, implements: if_impl[i].clone() },
        });
    }
    for u in &uns {
        let n = 1 + r.below(n_obj.min(3));
        let mut members: Vec<String> = vec![];
        while members.len() < n {
            let m = r.pick(&objs).clone();
            if !members.contains(&m) {
                members.push(m);
            }
        }
        ts.add(TypeDef { name: u.clone(), kind: Kind::Union(members) });
    }

    // Query root: one field per composite (plain, list), a few leaf fields
    let mut qf: Vec<FieldDef> = vec![];
    for (i, c) in composites.iter().enumerate() {
        let mut f = gen_field(r, &ts, format!("q{i}"), true);
        f.ty = match r.below(4) {
            0 => Ty::named(c),
            1 => Ty::named(c).nn(),
            2 => Ty::named(c).list(),
            _ => Ty::named(c).nn().list().nn(),
        };
        qf.push(f);
    }
    for i in 0..2 {
        qf.push(gen_field(r, &ts, format!("ql{i}"), true));
    }
    ts.add(TypeDef { name: "Query".into(), kind: Kind::Object { fields: qf, implements: vec![] } });

    if o.mutation && r.chance(2, 3) {
        let mut mf = vec![];
        let n = 2 + r.below(3);
        for i in 0..n {
            let mut f = gen_field(r, &ts, format!("m{i}"), true);
            if r.chance(1, 2) {
                let base = Ty::named(r.pick(&objs).as_str());
                f.ty = wrap(r, base, false);
            }
            mf.push(f);
        }
        ts.add(TypeDef { name: "Mutation".into(), kind: Kind::Object { fields: mf, implements: vec![] } });
        ts.mutation = Some("Mutation".into());
    }
    ts
}
