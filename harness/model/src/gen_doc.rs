//! G2/G3 — operations that are valid by construction for a given type system,
//! with variable definitions and a runtime variable set.
//!
//! Validity argument (FieldsInSetCanMerge): a document-wide table maps every
//! response key to the exact (field name, argument text, return type) it was
//! first used with; a field that would reuse a key with a different signature
//! gets a fresh alias. Any two fields with equal response keys anywhere in the
//! document are therefore identical in name, arguments and type, so every pair
//! can merge, recursively.

use std::collections::{BTreeSet, HashMap};

use serde_json::{Map, Value as J};
use vh_core::Rng;

use crate::doc::*;
use crate::gen_ts::gen_input_literal;
use crate::types::*;

#[derive(Clone, Debug)]
pub struct DocOpts {
    pub max_depth: u32,
    pub max_items: usize,
    pub fragments: bool,
    /// inline/named fragments whose condition is a union while the parent is an object/interface
    pub union_cond_on_concrete: bool,
    pub directives: bool,
    /// @skip/@include driven by a variable that is omitted and has a default
    pub directive_var_default: bool,
    pub variables: bool,
    /// nullable variable without default omitted at an argument that has a default
    pub omitted_var_uses_arg_default: bool,
    /// `$v: T = x` used at a `T!` position (allowed by the spec when the default is non-null)
    pub nullable_var_with_default_at_nonnull: bool,
    pub nested_variables: bool,
    /// nested variables (list items, input-object fields) that the request does not supply (and that have no default)
    pub nested_omitted_variables: bool,
    pub aliases: bool,
    /// let the same response key appear more than once in a selection set
    pub repeated_keys: bool,
    pub typename: bool,
    pub extra_operations: bool,
    pub kind: OpKind,
}

impl Default for DocOpts {
    fn default() -> Self {
        DocOpts {
            max_depth: 4,
            max_items: 4,
            fragments: true,
            union_cond_on_concrete: true,
            directives: true,
            directive_var_default: true,
            variables: true,
            omitted_var_uses_arg_default: true,
            nullable_var_with_default_at_nonnull: true,
            nested_variables: true,
            nested_omitted_variables: false,
            aliases: true,
            repeated_keys: true,
            typename: true,
            extra_operations: true,
            kind: OpKind::Query,
        }
    }
}

#[derive(Clone, Debug)]
pub struct GenDoc {
    pub doc: Doc,
    pub op_name: Option<String>,
    pub vars: J,
    /// generator features this document exercises
    pub features: BTreeSet<String>,
}

struct VarInfo {
    def: VarDef,
    /// runtime JSON value, None = omitted
    value: Option<J>,
}

struct G<'a> {
    ts: &'a TypeSystem,
    r: &'a mut Rng,
    o: &'a DocOpts,
    doc: Doc,
    keys: HashMap<String, String>,
    vars: Vec<VarInfo>,
    done_frags: Vec<Frag>,
    alias_n: usize,
    features: BTreeSet<String>,
}

pub fn overlapping(ts: &TypeSystem, t: &str) -> Vec<String> {
    let p = ts.possible_types(t);
    ts.types
        .iter()
        .filter(|c| ts.is_composite(&c.name))
        .filter(|c| ts.possible_types(&c.name).intersection(&p).next().is_some())
        .map(|c| c.name.clone())
        .collect()
}

impl<'a> G<'a> {
    fn feat(&mut self, s: &str) {
        self.features.insert(s.to_string());
    }

    fn bool_dirs(&mut self) -> Vec<Dir> {
        if !self.o.directives || !self.r.chance(1, 5) {
            return vec![];
        }
        let mut out = vec![];
        let names: &[&str] = match self.r.below(4) {
            0 => &["skip"],
            1 => &["include"],
            2 => &["skip", "include"],
            _ => &["include"],
        };
        for n in names {
            let v = if self.o.variables && self.r.chance(1, 2) {
                let (name, _) = self.bool_var();
                Val::Var(name)
            } else {
                Val::Bool(self.r.bool())
            };
            self.feat("directive");
            out.push(Dir { name: n.to_string(), args: vec![("if".into(), v)] });
        }
        out
    }

    fn bool_var(&mut self) -> (String, ()) {
        let name = format!("b{}", self.vars.len());
        let with_default = self.o.directive_var_default && self.r.chance(1, 2);
        if with_default {
            let nullable = self.r.bool();
            let d = self.r.bool();
            let ty = if nullable { Ty::named("Boolean") } else { Ty::named("Boolean").nn() };
            let value = if self.r.chance(1, 2) { None } else { Some(J::from(self.r.bool())) };
            if value.is_none() {
                self.feat("directive_var_default");
            }
            self.vars.push(VarInfo { def: VarDef { name: name.clone(), ty, default: Some(Val::Bool(d)) }, value });
        } else {
            let value = Some(J::from(self.r.bool()));
            self.vars.push(VarInfo {
                def: VarDef { name: name.clone(), ty: Ty::named("Boolean").nn(), default: None },
                value,
            });
            self.feat("directive_var");
        }
        (name, ())
    }

    /// A variable usable at a position of type `loc` (whose argument has a default iff `loc_default`).
    fn var_for(&mut self, loc: &Ty, loc_default: bool) -> Val {
        let name = format!("v{}", self.vars.len());
        let nullable_loc = !loc.is_nonnull();
        let choice = self.r.below(10);
        let (ty, default): (Ty, Option<Val>) = if nullable_loc && choice < 3 {
            (loc.clone().nn(), None)
        } else if !nullable_loc && choice < 2 && self.o.nullable_var_with_default_at_nonnull {
            // nullable variable with a non-null default at a non-null position
            let d = gen_input_literal(self.ts, loc, self.r, 2);
            self.feat("nullable_var_with_default_at_nonnull");
            (loc.nullable().clone(), Some(d))
        } else if self.r.chance(1, 4) {
            let d = gen_input_literal(self.ts, loc, self.r, 2);
            (loc.clone(), Some(d))
        } else {
            (loc.clone(), None)
        };
        // runtime value
        let can_omit = default.is_some() || !ty.is_nonnull();
        // omitted + no default at an argument position: only when the position is nullable
        let value: Option<J> = if can_omit && self.r.chance(1, 4) {
            if default.is_none() {
                if loc_default {
                    if !self.o.omitted_var_uses_arg_default {
                        Some(gen_input_literal(self.ts, &ty.clone().nn(), self.r, 2).json())
                    } else {
                        self.feat("omitted_var_uses_arg_default");
                        None
                    }
                } else {
                    self.feat("omitted_var");
                    None
                }
            } else {
                self.feat("omitted_var_uses_var_default");
                None
            }
        } else if !ty.is_nonnull() && !loc.is_nonnull() && self.r.chance(1, 6) {
            self.feat("explicit_null_var");
            Some(J::Null)
        } else {
            let v = gen_input_literal(self.ts, &ty.clone().nn(), self.r, 2);
            Some(v.json())
        };
        self.vars.push(VarInfo { def: VarDef { name: name.clone(), ty, default }, value });
        self.feat("variable");
        Val::Var(name)
    }

    /// Replace some inner elements of a literal by variables of the element type.
    fn nest_vars(&mut self, ty: &Ty, v: Val) -> Val {
        if !self.o.nested_variables || !self.o.variables {
            return v;
        }
        match (ty.nullable(), v) {
            (Ty::List(item), Val::List(xs)) => Val::List(
                xs.into_iter()
                    .map(|x| {
                        if self.o.nested_omitted_variables && !item.is_nonnull() && self.r.chance(1, 8) {
                            // an item given by a variable the request does not supply: the item is null
                            self.feat("nested_omitted_variable_in_list");
                            self.omitted_var(item)
                        } else if self.r.chance(1, 5) {
                            self.feat("nested_variable_in_list");
                            self.present_var(item)
                        } else {
                            self.nest_vars(item, x)
                        }
                    })
                    .collect(),
            ),
            (Ty::Named(n), Val::Obj(fields)) => {
                let Kind::Input { fields: defs, oneof } = self.ts.kind(n).clone() else {
                    return Val::Obj(fields);
                };
                Val::Obj(
                    fields
                        .into_iter()
                        .map(|(k, x)| {
                            let fty = defs.iter().find(|d| d.name == k).map(|d| d.ty.clone());
                            match fty {
                                Some(fty) if !oneof && self.o.nested_omitted_variables && !fty.is_nonnull() && self.r.chance(1, 8) => {
                                    // a field given by a variable the request does not supply: the field is absent
                                    self.feat("nested_omitted_variable_in_object");
                                    (k, self.omitted_var(&fty))
                                }
                                Some(fty) if !oneof && self.r.chance(1, 5) => {
                                    self.feat("nested_variable_in_object");
                                    (k, self.present_var(&fty))
                                }
                                Some(fty) => (k, self.nest_vars(&fty, x)),
                                None => (k, x),
                            }
                        })
                        .collect(),
                )
            }
            (_, v) => v,
        }
    }

    /// A variable of the nullable type `ty`, without default, that the request does not supply.
    fn omitted_var(&mut self, ty: &Ty) -> Val {
        let name = format!("v{}", self.vars.len());
        self.vars.push(VarInfo { def: VarDef { name: name.clone(), ty: ty.nullable().clone(), default: None }, value: None });
        Val::Var(name)
    }

    /// A variable of exactly type `ty` that is supplied at run time.
    fn present_var(&mut self, ty: &Ty) -> Val {
        let name = format!("v{}", self.vars.len());
        let v = if !ty.is_nonnull() && self.r.chance(1, 8) {
            J::Null
        } else {
            gen_input_literal(self.ts, &ty.clone().nn(), self.r, 1).json()
        };
        self.vars.push(VarInfo { def: VarDef { name: name.clone(), ty: ty.clone(), default: None }, value: Some(v) });
        Val::Var(name)
    }

    fn args_for(&mut self, fd: &FieldDef) -> Vec<(String, Val)> {
        let mut out = vec![];
        let mut defs: Vec<&ArgDef> = fd.args.iter().collect();
        if self.r.chance(1, 3) {
            defs.reverse();
        }
        for a in defs {
            let required = a.ty.is_nonnull() && a.default.is_none();
            if !required && !self.r.chance(3, 5) {
                continue;
            }
            let v = if self.o.variables && self.r.chance(2, 5) {
                self.var_for(&a.ty, a.default.is_some())
            } else {
                let lit = gen_input_literal(self.ts, &a.ty, self.r, 2);
                self.nest_vars(&a.ty, lit)
            };
            out.push((a.name.clone(), v));
        }
        out
    }

    fn field(&mut self, parent: &str, fd: &FieldDef, depth: u32) -> Sel {
        let args = self.args_for(fd);
        let sig = format!(
            "{}({}):{}",
            fd.name,
            args.iter().map(|(k, v)| format!("{k}:{}", v.gql())).collect::<Vec<_>>().join(","),
            fd.ty
        );
        let mut alias: Option<String> = None;
        if self.o.aliases && self.r.chance(1, 6) {
            self.alias_n += 1;
            alias = Some(format!("al{}", self.alias_n));
            self.feat("alias");
        }
        let mut key = alias.clone().unwrap_or_else(|| fd.name.clone());
        match self.keys.get(&key) {
            Some(s) if *s == sig && self.o.repeated_keys => {
                self.feat("repeated_key");
            }
            Some(_) => {
                self.alias_n += 1;
                key = format!("al{}", self.alias_n);
                alias = Some(key.clone());
                self.keys.insert(key, sig);
            }
            None => {
                self.keys.insert(key, sig);
            }
        }
        let dirs = self.bool_dirs();
        let inner = fd.ty.name().to_string();
        let sel = if self.ts.is_composite(&inner) { self.selection_set(&inner, depth + 1) } else { vec![] };
        let _ = parent;
        let id = self.doc.fresh_id();
        Sel::Field(FieldSel { id, alias, name: fd.name.clone(), args, dirs, sel })
    }

    fn typename(&mut self) -> Sel {
        let id = self.doc.fresh_id();
        let mut alias = None;
        if self.o.aliases && self.r.chance(1, 8) {
            self.alias_n += 1;
            let a = format!("al{}", self.alias_n);
            self.keys.insert(a.clone(), "__typename():String!".into());
            alias = Some(a);
        } else if let Some(s) = self.keys.get("__typename") {
            debug_assert_eq!(s, "__typename():String!");
        } else {
            self.keys.insert("__typename".into(), "__typename():String!".into());
        }
        Sel::Field(FieldSel { id, alias, name: "__typename".into(), args: vec![], dirs: vec![], sel: vec![] })
    }

    fn cond_for(&mut self, parent: &str) -> Option<String> {
        let mut cands = overlapping(self.ts, parent);
        let parent_is_union = matches!(self.ts.kind(parent), Kind::Union(_));
        if !self.o.union_cond_on_concrete && !parent_is_union {
            cands.retain(|c| !matches!(self.ts.kind(c), Kind::Union(_)));
        }
        if cands.is_empty() {
            return None;
        }
        let c = self.r.pick(&cands).clone();
        if matches!(self.ts.kind(&c), Kind::Union(_)) && !parent_is_union {
            self.feat("union_cond_on_concrete");
        }
        if matches!(self.ts.kind(&c), Kind::Interface { .. }) {
            self.feat("interface_cond");
        }
        Some(c)
    }

    fn selection_set(&mut self, parent: &str, depth: u32) -> Vec<Sel> {
        let n = 1 + self.r.below(self.o.max_items);
        let mut out = vec![];
        let fields: Vec<FieldDef> = self.ts.fields(parent).to_vec();
        let leaf_fields: Vec<FieldDef> =
            fields.iter().filter(|f| self.ts.is_leaf(f.ty.name())).cloned().collect();
        let at_max = depth >= self.o.max_depth;
        for _ in 0..n {
            let choice = self.r.below(10);
            let pool = if at_max { &leaf_fields } else { &fields };
            if choice < 6 && !pool.is_empty() {
                let fd = self.r.pick(pool).clone();
                out.push(self.field(parent, &fd, depth));
            } else if choice == 6 && self.o.typename {
                out.push(self.typename());
            } else if self.o.fragments && !at_max && choice <= 8 {
                // inline fragment
                let cond = if self.r.chance(1, 5) { None } else { self.cond_for(parent) };
                let target = cond.clone().unwrap_or_else(|| parent.to_string());
                let dirs = self.bool_dirs();
                let sel = self.selection_set(&target, depth + 1);
                self.feat(if cond.is_some() { "inline_fragment" } else { "inline_fragment_untyped" });
                let id = self.doc.fresh_id();
                out.push(Sel::Inline { id, cond, dirs, sel });
            } else if self.o.fragments && !at_max {
                // named fragment: reuse a finished one that can apply here, or make a new one
                let over: BTreeSet<String> = overlapping(self.ts, parent).into_iter().collect();
                let parent_is_union = matches!(self.ts.kind(parent), Kind::Union(_));
                let reusable: Vec<String> = self
                    .done_frags
                    .iter()
                    .filter(|f| over.contains(&f.cond))
                    .filter(|f| {
                        self.o.union_cond_on_concrete
                            || parent_is_union
                            || !matches!(self.ts.kind(&f.cond), Kind::Union(_))
                    })
                    .map(|f| f.name.clone())
                    .collect();
                let name = if !reusable.is_empty() && self.r.chance(1, 2) {
                    self.feat("fragment_reused");
                    self.r.pick(&reusable).clone()
                } else {
                    let cond = self.cond_for(parent).unwrap_or_else(|| parent.to_string());
                    let name = format!("Fr{}", self.done_frags.len() + self.doc.frags.len() + self.alias_n + 1);
                    self.alias_n += 1;
                    let sel = self.selection_set(&cond, depth + 1);
                    self.done_frags.push(Frag { name: name.clone(), cond, sel });
                    self.feat("named_fragment");
                    name
                };
                let dirs = self.bool_dirs();
                let id = self.doc.fresh_id();
                out.push(Sel::Spread { id, name, dirs });
            } else if !pool.is_empty() {
                let fd = self.r.pick(pool).clone();
                out.push(self.field(parent, &fd, depth));
            } else {
                out.push(self.typename());
            }
        }
        if out.is_empty() {
            out.push(self.typename());
        }
        out
    }
}

/// Generate one valid document with variables for the given operation kind.
pub fn gen_doc(ts: &TypeSystem, r: &mut Rng, o: &DocOpts) -> GenDoc {
    let root = match o.kind {
        OpKind::Query => ts.query.clone(),
        OpKind::Mutation => ts.mutation.clone().expect("no mutation type"),
        OpKind::Subscription => ts.subscription.clone().expect("no subscription type"),
    };
    let mut g = G {
        ts,
        r,
        o,
        doc: Doc::default(),
        keys: HashMap::new(),
        vars: vec![],
        done_frags: vec![],
        alias_n: 0,
        features: BTreeSet::new(),
    };
    let sel = if o.kind == OpKind::Subscription {
        // exactly one root field
        let fields: Vec<FieldDef> = ts.fields(&root).to_vec();
        let fd = g.r.pick(&fields).clone();
        vec![g.field(&root, &fd, 0)]
    } else {
        g.selection_set(&root, 0)
    };
    let named = g.r.chance(1, 2) || !g.vars.is_empty() && g.r.bool();
    let name = if named { Some("Main".to_string()) } else { None };
    let vars: Vec<VarDef> = g.vars.iter().map(|v| v.def.clone()).collect();
    let mut ops = vec![Op { kind: o.kind, name: name.clone(), vars, dirs: vec![], sel }];
    let mut op_name = None;
    if o.extra_operations && name.is_some() && g.r.chance(1, 4) {
        let id = g.doc.fresh_id();
        let other = Op {
            kind: OpKind::Query,
            name: Some("Other".into()),
            vars: vec![],
            dirs: vec![],
            sel: vec![Sel::Field(FieldSel {
                id,
                alias: None,
                name: "__typename".into(),
                args: vec![],
                dirs: vec![],
                sel: vec![],
            })],
        };
        if g.r.bool() {
            ops.push(other);
        } else {
            ops.insert(0, other);
        }
        op_name = name.clone();
        g.features.insert("multiple_operations".into());
    } else if name.is_some() && g.r.bool() {
        op_name = name.clone();
    }
    let mut doc = g.doc;
    doc.ops = ops;
    doc.frags = g.done_frags;
    let mut m = Map::new();
    for v in &g.vars {
        if let Some(j) = &v.value {
            m.insert(v.def.name.clone(), j.clone());
        }
    }
    GenDoc { doc, op_name, vars: J::Object(m), features: g.features }
}
