//! Data world: a pure function from (seed, parent node, field, coerced
//! arguments) to the value a resolver yields. Both the real resolvers and the
//! reference executor consult it, so they always talk about the same data.
//! Faults are keyed by response path.

use std::collections::BTreeMap;

use vh_core::rng::{self, Rng};

use crate::types::{FieldDef, Kind, ScalarKind, Ty, TypeSystem, Val};

#[derive(Clone, Debug, PartialEq)]
pub enum PlanVal {
    Null,
    Leaf(Val),
    Node { ty: String, id: u64 },
    List(Vec<PlanVal>),
    /// the resolver (or, for list items, the item) fails with this message
    Error(String),
}

#[derive(Clone, Copy, Debug, PartialEq, Eq, Hash, PartialOrd, Ord)]
pub enum Fault {
    /// resolver returns an error
    Err,
    /// resolver yields nothing / null (interesting at non-null positions)
    Null,
    /// resolver yields a value that is invalid for the declared leaf type
    BadLeaf,
}

impl Fault {
    pub fn name(&self) -> &'static str {
        match self {
            Fault::Err => "err",
            Fault::Null => "null",
            Fault::BadLeaf => "badleaf",
        }
    }
    pub fn parse(s: &str) -> Option<Fault> {
        Some(match s {
            "err" => Fault::Err,
            "null" => Fault::Null,
            "badleaf" => Fault::BadLeaf,
            _ => return None,
        })
    }
}

#[derive(Clone, Debug, Default)]
pub struct World {
    pub seed: u64,
    /// response path ("a.b.0.c") -> fault
    pub faults: BTreeMap<String, Fault>,
    /// percentage of nullable positions that are null in the fault-free world
    pub null_pct: u32,
    /// when false, Int leaves stay small and strings plain (used where values
    /// feed arguments of other checks)
    pub wild_leaves: bool,
    /// Dynamic-schema resolvers can express a null list item only for built-in
    /// scalars (`FieldValue::NULL` is also the "stateless object" value and is
    /// not accepted for enums / validated scalars), so worlds for dynamic
    /// schemas keep other list items non-null.
    pub null_items_builtin_only: bool,
    /// Faults that fire for ONE parent node only: (response path, parent node id) -> fault.
    /// Several nodes can be resolved at the same response path (every event of a
    /// subscription root field); a node fault hits exactly one of them, and the
    /// error message names the node (`boom@<path>#<node id in hex>`), so the cause
    /// of an error is attributable to one event. Only `Err` and `Null` are honoured.
    pub node_faults: BTreeMap<(String, u64), Fault>,
    /// Subscription event node ids are derived from the response key (alias) of
    /// the root field instead of its name, so two aliases of one field stream
    /// different nodes (C27).
    pub event_ids_by_key: bool,
}

impl World {
    pub fn new(seed: u64) -> World {
        World {
            seed,
            faults: BTreeMap::new(),
            null_pct: 15,
            wild_leaves: true,
            null_items_builtin_only: false,
            node_faults: BTreeMap::new(),
            event_ids_by_key: false,
        }
    }

    pub fn with_faults(&self, f: &[(String, Fault)]) -> World {
        let mut w = self.clone();
        for (p, k) in f {
            w.faults.insert(p.clone(), *k);
        }
        w
    }

    /// What the resolver of `field` on node (`parent_ty`, `parent_id`) yields
    /// for the given coerced arguments (canonical text), when resolved at
    /// response path `path`.
    pub fn resolve(
        &self,
        ts: &TypeSystem,
        parent_ty: &str,
        parent_id: u64,
        field: &FieldDef,
        args_canon: &str,
        path: &str,
    ) -> PlanVal {
        if !self.node_faults.is_empty() {
            match self.node_faults.get(&(path.to_string(), parent_id)) {
                Some(Fault::Err) => return PlanVal::Error(format!("boom@{path}#{parent_id:x}")),
                Some(Fault::Null) => return PlanVal::Null,
                _ => {}
            }
        }
        match self.faults.get(path) {
            Some(Fault::Err) => return PlanVal::Error(format!("boom@{path}")),
            Some(Fault::Null) => return PlanVal::Null,
            _ => {}
        }
        let base = rng::mix(&[
            self.seed,
            parent_id,
            rng::hash_str(parent_ty),
            rng::hash_str(&field.name),
            rng::hash_str(args_canon),
        ]);
        let mut r = Rng::new(base);
        self.gen_val(ts, &field.ty, &mut r, base, path)
    }

    fn gen_val(&self, ts: &TypeSystem, ty: &Ty, r: &mut Rng, id_seed: u64, path: &str) -> PlanVal {
        let fault = self.faults.get(path).copied();
        match ty {
            Ty::NonNull(inner) => {
                if fault == Some(Fault::Null) {
                    // fault at a list item position (field-level Null is handled in resolve)
                    return PlanVal::Null;
                }
                self.gen_inner(ts, inner, r, id_seed, path, fault)
            }
            other => {
                if fault == Some(Fault::Null) {
                    return PlanVal::Null;
                }
                // draw the "is null" decision unconditionally so that faults do not shift the stream
                let is_null = r.chance(self.null_pct, 100);
                if is_null && fault.is_none() {
                    return PlanVal::Null;
                }
                self.gen_inner(ts, other, r, id_seed, path, fault)
            }
        }
    }

    fn gen_inner(
        &self,
        ts: &TypeSystem,
        ty: &Ty,
        r: &mut Rng,
        id_seed: u64,
        path: &str,
        fault: Option<Fault>,
    ) -> PlanVal {
        match ty {
            Ty::NonNull(inner) => self.gen_inner(ts, inner, r, id_seed, path, fault),
            Ty::List(item) => {
                let n = r.below(4);
                let mut out = Vec::with_capacity(n);
                for i in 0..n {
                    let p = format!("{path}.{i}");
                    let mut ri = r.fork(i as u64);
                    if self.faults.get(&p) == Some(&Fault::Err) {
                        out.push(PlanVal::Error(format!("boom@{p}")));
                        continue;
                    }
                    let mut v = self.gen_val(ts, item, &mut ri, rng::mix(&[id_seed, i as u64 + 1]), &p);
                    if v == PlanVal::Null
                        && self.null_items_builtin_only
                        && !(item.list_depth() == 0 && TypeSystem::is_builtin_scalar(item.name()))
                        && self.faults.get(&p).is_none()
                    {
                        // redraw without the null option
                        let mut rj = r.fork(1000 + i as u64);
                        v = self.gen_inner(ts, item, &mut rj, rng::mix(&[id_seed, i as u64 + 1]), &p, None);
                    }
                    out.push(v);
                }
                PlanVal::List(out)
            }
            Ty::Named(n) => match ts.kind(n) {
                Kind::Scalar(k) => {
                    if fault == Some(Fault::BadLeaf) {
                        if let Some(b) = bad_leaf_scalar(k) {
                            return PlanVal::Leaf(b);
                        }
                    }
                    PlanVal::Leaf(self.leaf(k, r))
                }
                Kind::Enum(vals) => {
                    if fault == Some(Fault::BadLeaf) {
                        return PlanVal::Leaf(Val::Enum("NOT_A_MEMBER".into()));
                    }
                    PlanVal::Leaf(Val::Enum(r.pick(vals).clone()))
                }
                Kind::Object { .. } => PlanVal::Node { ty: n.clone(), id: rng::mix(&[id_seed, 0x0b]) },
                Kind::Interface { .. } | Kind::Union(_) => {
                    let poss: Vec<String> = ts.possible_types(n).into_iter().collect();
                    if poss.is_empty() {
                        return PlanVal::Null;
                    }
                    let t = r.pick(&poss).clone();
                    PlanVal::Node { ty: t, id: rng::mix(&[id_seed, 0x0b]) }
                }
                Kind::Input { .. } => PlanVal::Null,
            },
        }
    }

    fn leaf(&self, k: &ScalarKind, r: &mut Rng) -> Val {
        match k {
            ScalarKind::Int => {
                if self.wild_leaves {
                    Val::Int(match r.below(8) {
                        0 => 0,
                        1 => -1,
                        2 => i32::MAX as i64,
                        3 => i32::MIN as i64,
                        _ => r.range(-1000, 1000),
                    })
                } else {
                    Val::Int(r.range(0, 9))
                }
            }
            ScalarKind::Float => Val::Float(match r.below(6) {
                0 => 0.0,
                1 => -1.5,
                2 => 1e10,
                3 => 2.0,
                _ => r.range(-100_000, 100_000) as f64 / 128.0,
            }),
            ScalarKind::String => Val::Str(
                r.pick(&["", "a", "hello world", "q\"uote", "back\\slash", "ünï", "line\nbreak", "😀", "null", "0"])
                    .to_string(),
            ),
            ScalarKind::Boolean => Val::Bool(r.bool()),
            ScalarKind::ID => Val::Str(if r.bool() { format!("id-{}", r.below(50)) } else { r.below(1000).to_string() }),
            ScalarKind::EvenInt => Val::Int(r.range(-50, 50) * 2),
            ScalarKind::ShortStr => Val::Str(r.pick(&["", "ab", "12345678", "xyz"]).to_string()),
        }
    }
}

/// A value that is certainly invalid as a result of the given scalar (None
/// where the spec lets implementations coerce almost anything).
pub fn bad_leaf_scalar(k: &ScalarKind) -> Option<Val> {
    Some(match k {
        ScalarKind::Int => Val::Str("not-an-int".into()),
        ScalarKind::Float => Val::Str("not-a-float".into()),
        ScalarKind::Boolean => Val::Str("not-a-bool".into()),
        ScalarKind::EvenInt => Val::Int(3),
        ScalarKind::ShortStr => Val::Str("way-too-long-for-short".into()),
        ScalarKind::String | ScalarKind::ID => return None,
    })
}

/// Does a BadLeaf fault have a defined effect at a position of this type?
pub fn bad_leaf_applies(ts: &TypeSystem, ty: &Ty) -> bool {
    match ty {
        Ty::NonNull(t) => bad_leaf_applies(ts, t),
        Ty::List(_) => false,
        Ty::Named(n) => match ts.kind(n) {
            Kind::Scalar(k) => bad_leaf_scalar(k).is_some(),
            Kind::Enum(_) => true,
            _ => false,
        },
    }
}
