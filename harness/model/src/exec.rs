//! R1 — reference executor: GraphQL spec §6 over the harness model.
//!
//! Executes *everything* (no cancellation), records every field error with the
//! position it nulled, and lets the comparison decide which errors are
//! optional because another error's propagation discarded their position.

use std::collections::BTreeSet;

use serde_json::{Map, Value as J};

use crate::coerce::{self, Vars};
use crate::doc::{Dir, Doc, FieldSel, Op, OpKind, Sel};
use crate::types::{Kind, Ty, TypeSystem, Val};
use crate::world::{PlanVal, World};

#[derive(Clone, Debug, PartialEq, Eq, PartialOrd, Ord, Hash)]
pub enum Seg {
    Key(String),
    Idx(usize),
}

pub fn path_str(p: &[Seg]) -> String {
    p.iter()
        .map(|s| match s {
            Seg::Key(k) => k.clone(),
            Seg::Idx(i) => i.to_string(),
        })
        .collect::<Vec<_>>()
        .join(".")
}

#[derive(Clone, Debug)]
pub struct RefError {
    pub path: Vec<Seg>,
    /// ids of the field nodes merged under the failing response key
    pub field_ids: Vec<usize>,
    pub kind: String,
    /// the position that became null because of this error (None: `data` itself)
    pub nulled: Option<Vec<Seg>>,
}

#[derive(Clone, Debug)]
pub struct Call {
    pub path: String,
    pub parent_path: String,
    pub key: String,
    pub parent_ty: String,
    pub parent_id: u64,
    pub field: String,
    /// coerced arguments (None when coercion failed → the resolver must not run)
    pub args: Option<Vec<(String, Val)>>,
    pub field_ids: Vec<usize>,
}

#[derive(Clone, Debug, Default)]
pub struct RefResult {
    /// the request fails before execution (variable coercion, unknown operation)
    pub request_error: Option<String>,
    pub data: J,
    pub errors: Vec<RefError>,
    pub calls: Vec<Call>,
    /// (object type, field) pairs whose resolver ran
    pub touched: BTreeSet<(String, String)>,
    /// object types of nodes that were entered
    pub entered: BTreeSet<String>,
    /// object types of nodes that were entered and for which at least one response key was collected
    /// (an object completed as `{}` because no fragment applied is not in this set)
    pub entered_nonempty: BTreeSet<String>,
    pub vars: Vars,
    /// every completed position (fields and list items) with its declared type
    pub positions: Vec<(String, Ty)>,
    /// number of executed response keys that merged more than one field node
    pub merged_groups: usize,
}

struct Bubble(Vec<usize>);

struct Exec<'a> {
    ts: &'a TypeSystem,
    doc: &'a Doc,
    vars: Vars,
    world: &'a World,
    out: RefResult,
}

pub fn eval_dirs(dirs: &[Dir], vars: &Vars) -> bool {
    // returns true when the selection is included
    for d in dirs {
        let cond = d.args.iter().find(|(k, _)| k == "if").map(|(_, v)| v);
        let b = match cond {
            Some(Val::Bool(b)) => Some(*b),
            Some(Val::Var(v)) => match vars.get(v) {
                Some(Val::Bool(b)) => Some(*b),
                _ => None,
            },
            _ => None,
        };
        match (d.name.as_str(), b) {
            ("skip", Some(true)) => return false,
            ("include", Some(false)) => return false,
            _ => {}
        }
    }
    true
}

/// §6.3.2 CollectFields: ordered (response key → field nodes).
pub fn collect_fields<'a>(
    ts: &TypeSystem,
    doc: &'a Doc,
    vars: &Vars,
    object_ty: &str,
    sels: &[&'a [Sel]],
) -> Vec<(String, Vec<&'a FieldSel>)> {
    collect_fields_ex(ts, doc, vars, object_ty, sels).0
}

/// As `collect_fields`; also returns how many fragment spreads were skipped
/// because the fragment had already been visited in this collection.
pub fn collect_fields_ex<'a>(
    ts: &TypeSystem,
    doc: &'a Doc,
    vars: &Vars,
    object_ty: &str,
    sels: &[&'a [Sel]],
) -> (Vec<(String, Vec<&'a FieldSel>)>, usize) {
    fn go<'a>(
        ts: &TypeSystem,
        doc: &'a Doc,
        vars: &Vars,
        object_ty: &str,
        sel: &'a [Sel],
        visited: &mut BTreeSet<String>,
        out: &mut Vec<(String, Vec<&'a FieldSel>)>,
        dups: &mut usize,
    ) {
        for s in sel {
            match s {
                Sel::Field(f) => {
                    if !eval_dirs(&f.dirs, vars) {
                        continue;
                    }
                    let k = f.key().to_string();
                    if let Some(e) = out.iter_mut().find(|(kk, _)| *kk == k) {
                        e.1.push(f);
                    } else {
                        out.push((k, vec![f]));
                    }
                }
                Sel::Inline { cond, dirs, sel, .. } => {
                    if !eval_dirs(dirs, vars) {
                        continue;
                    }
                    if let Some(c) = cond {
                        if !ts.fragment_applies(object_ty, c) {
                            continue;
                        }
                    }
                    go(ts, doc, vars, object_ty, sel, visited, out, dups);
                }
                Sel::Spread { name, dirs, .. } => {
                    if !eval_dirs(dirs, vars) {
                        continue;
                    }
                    if !visited.insert(name.clone()) {
                        *dups += 1;
                        continue;
                    }
                    let Some(fr) = doc.frag(name) else { continue };
                    if !ts.fragment_applies(object_ty, &fr.cond) {
                        continue;
                    }
                    go(ts, doc, vars, object_ty, &fr.sel, visited, out, dups);
                }
            }
        }
    }
    let mut out = vec![];
    let mut visited = BTreeSet::new();
    let mut dups = 0usize;
    for s in sels {
        go(ts, doc, vars, object_ty, s, &mut visited, &mut out, &mut dups);
    }
    (out, dups)
}

impl<'a> Exec<'a> {
    fn error(&mut self, path: &[Seg], fields: &[&FieldSel], kind: &str) -> usize {
        self.out.errors.push(RefError {
            path: path.to_vec(),
            field_ids: fields.iter().map(|f| f.id).collect(),
            kind: kind.to_string(),
            nulled: None,
        });
        self.out.errors.len() - 1
    }

    fn caught(&mut self, origins: &[usize], at: &[Seg]) {
        for &i in origins {
            self.out.errors[i].nulled = Some(at.to_vec());
        }
    }

    fn selection_set(
        &mut self,
        object_ty: &str,
        node_id: u64,
        sels: &[&'a [Sel]],
        path: &mut Vec<Seg>,
    ) -> Result<J, Bubble> {
        self.out.entered.insert(object_ty.to_string());
        let (grouped, dup_spreads) = collect_fields_ex(self.ts, self.doc, &self.vars, object_ty, sels);
        self.out.merged_groups += dup_spreads;
        if !grouped.is_empty() {
            self.out.entered_nonempty.insert(object_ty.to_string());
        }
        let mut map = Map::new();
        let mut bubbles: Vec<usize> = vec![];
        let parent_path = path_str(path);
        for (key, fields) in grouped {
            path.push(Seg::Key(key.clone()));
            if fields.len() > 1 {
                self.out.merged_groups += 1;
            }
            let first = fields[0];
            let r = if first.name == "__typename" {
                Ok(J::from(object_ty))
            } else {
                match self.ts.field(object_ty, &first.name).cloned() {
                    None => {
                        // not valid; validation should have rejected. Treat as field error.
                        let e = self.error(path, &fields, "unknown field");
                        self.caught(&[e], path);
                        Ok(J::Null)
                    }
                    Some(fd) => {
                        let args = coerce::coerce_field_args(self.ts, &fd, &first.args, &self.vars);
                        let pstr = path_str(path);
                        self.out.calls.push(Call {
                            path: pstr.clone(),
                            parent_path: parent_path.clone(),
                            key: key.clone(),
                            parent_ty: object_ty.to_string(),
                            parent_id: node_id,
                            field: first.name.clone(),
                            args: args.clone().ok(),
                            field_ids: fields.iter().map(|f| f.id).collect(),
                        });
                        match args {
                            Err(_) => {
                                let e = self.error(path, &fields, "argument coercion");
                                if fd.ty.is_nonnull() {
                                    Err(Bubble(vec![e]))
                                } else {
                                    self.caught(&[e], path);
                                    Ok(J::Null)
                                }
                            }
                            Ok(args) => {
                                self.out.touched.insert((object_ty.to_string(), first.name.clone()));
                                let canon = coerce::canon_args(&args);
                                let pv = self.world.resolve(self.ts, object_ty, node_id, &fd, &canon, &pstr);
                                self.complete(&fd.ty, pv, &fields, path)
                            }
                        }
                    }
                }
            };
            path.pop();
            match r {
                Ok(v) => {
                    map.insert(key, v);
                }
                Err(Bubble(o)) => bubbles.extend(o),
            }
        }
        if bubbles.is_empty() { Ok(J::Object(map)) } else { Err(Bubble(bubbles)) }
    }

    /// §6.4.3 CompleteValue, with error capture at nullable positions.
    fn complete(&mut self, ty: &Ty, pv: PlanVal, fields: &[&'a FieldSel], path: &mut Vec<Seg>) -> Result<J, Bubble> {
        let nonnull = ty.is_nonnull();
        let inner = ty.nullable();
        self.out.positions.push((path_str(path), ty.clone()));
        let r: Result<J, Bubble> = match pv {
            PlanVal::Error(_) => Err(Bubble(vec![self.error(path, fields, "resolver error")])),
            PlanVal::Null => Ok(J::Null),
            pv => self.complete_inner(inner, pv, fields, path),
        };
        match r {
            Ok(J::Null) if nonnull => {
                let e = self.error(path, fields, "null at non-null position");
                Err(Bubble(vec![e]))
            }
            Ok(v) => Ok(v),
            Err(Bubble(o)) => {
                if nonnull {
                    Err(Bubble(o))
                } else {
                    self.caught(&o, path);
                    Ok(J::Null)
                }
            }
        }
    }

    fn complete_inner(
        &mut self,
        ty: &Ty,
        pv: PlanVal,
        fields: &[&'a FieldSel],
        path: &mut Vec<Seg>,
    ) -> Result<J, Bubble> {
        match ty {
            Ty::NonNull(t) => self.complete_inner(t, pv, fields, path),
            Ty::List(item) => match pv {
                PlanVal::List(items) => {
                    let mut out = vec![];
                    let mut bubbles = vec![];
                    for (i, it) in items.into_iter().enumerate() {
                        path.push(Seg::Idx(i));
                        match self.complete(item, it, fields, path) {
                            Ok(v) => out.push(v),
                            Err(Bubble(o)) => bubbles.extend(o),
                        }
                        path.pop();
                    }
                    if bubbles.is_empty() { Ok(J::Array(out)) } else { Err(Bubble(bubbles)) }
                }
                _ => Err(Bubble(vec![self.error(path, fields, "expected a list")])),
            },
            Ty::Named(n) => match self.ts.kind(n).clone() {
                Kind::Scalar(k) => match pv {
                    PlanVal::Leaf(v) if coerce::valid_result_scalar(&k, &v) => Ok(match (&k, &v) {
                        (crate::types::ScalarKind::Float, Val::Int(i)) => Val::Float(*i as f64).json(),
                        _ => v.json(),
                    }),
                    _ => Err(Bubble(vec![self.error(path, fields, "invalid leaf value")])),
                },
                Kind::Enum(members) => match pv {
                    PlanVal::Leaf(Val::Enum(e)) if members.contains(&e) => Ok(J::from(e)),
                    _ => Err(Bubble(vec![self.error(path, fields, "invalid enum value")])),
                },
                Kind::Object { .. } | Kind::Interface { .. } | Kind::Union(_) => match pv {
                    PlanVal::Node { ty: ot, id } if self.ts.possible_types(n).contains(&ot) => {
                        let sels: Vec<&'a [Sel]> = fields.iter().map(|f| f.sel.as_slice()).collect();
                        self.selection_set(&ot, id, &sels, path)
                    }
                    _ => Err(Bubble(vec![self.error(path, fields, "invalid object value")])),
                },
                Kind::Input { .. } => Err(Bubble(vec![self.error(path, fields, "input type in output position")])),
            },
        }
    }
}

/// Execute `op_name` of `doc` against the world. The root node has id 0.
pub fn execute(ts: &TypeSystem, doc: &Doc, op_name: Option<&str>, raw_vars: &J, world: &World) -> RefResult {
    let Some(op) = doc.op(op_name) else {
        return RefResult { request_error: Some("operation not found / ambiguous".into()), ..Default::default() };
    };
    execute_op(ts, doc, op, raw_vars, world, None)
}

/// `root`: override of the root node (type, id, response path prefix) — used
/// for subscription events, where the selection below the root field is
/// executed on the event's payload.
pub fn execute_op(
    ts: &TypeSystem,
    doc: &Doc,
    op: &Op,
    raw_vars: &J,
    world: &World,
    root: Option<(&str, u64)>,
) -> RefResult {
    let vars = match coerce::coerce_variables(ts, op, raw_vars) {
        Ok(v) => v,
        Err(e) => return RefResult { request_error: Some(e), ..Default::default() },
    };
    let root_ty = match (root, op.kind) {
        (Some((t, _)), _) => t.to_string(),
        (None, OpKind::Query) => ts.query.clone(),
        (None, OpKind::Mutation) => match &ts.mutation {
            Some(m) => m.clone(),
            None => return RefResult { request_error: Some("schema has no mutation type".into()), ..Default::default() },
        },
        (None, OpKind::Subscription) => match &ts.subscription {
            Some(m) => m.clone(),
            None => {
                return RefResult { request_error: Some("schema has no subscription type".into()), ..Default::default() };
            }
        },
    };
    let root_id = root.map(|r| r.1).unwrap_or(0);
    let mut ex = Exec { ts, doc, vars: vars.clone(), world, out: RefResult::default() };
    let mut path = vec![];
    let r = ex.selection_set(&root_ty, root_id, &[op.sel.as_slice()], &mut path);
    let mut out = ex.out;
    out.vars = vars;
    out.data = match r {
        Ok(v) => v,
        Err(_) => J::Null,
    };
    out
}

/// Reference result for ONE subscription event: the selection below the root
/// field(s) with response key `key` of subscription operation `op`, executed
/// on the event payload `payload` (§6.2.3.2 ExecuteSubscriptionEvent for a
/// single root response key). `data` is `{key: value}`, or null when an error
/// propagated through a non-null root field. Error paths start with `key`.
pub fn execute_event(
    ts: &TypeSystem,
    doc: &Doc,
    op: &Op,
    raw_vars: &J,
    world: &World,
    key: &str,
    payload: PlanVal,
) -> RefResult {
    let vars = match coerce::coerce_variables(ts, op, raw_vars) {
        Ok(v) => v,
        Err(e) => return RefResult { request_error: Some(e), ..Default::default() },
    };
    let Some(root_ty) = ts.subscription.clone() else {
        return RefResult { request_error: Some("schema has no subscription type".into()), ..Default::default() };
    };
    let grouped = collect_fields(ts, doc, &vars, &root_ty, &[op.sel.as_slice()]);
    let Some((_, fields)) = grouped.into_iter().find(|(k, _)| k == key) else {
        return RefResult { request_error: Some(format!("no root field with response key {key}")), ..Default::default() };
    };
    let Some(fd) = ts.field(&root_ty, &fields[0].name).cloned() else {
        return RefResult { request_error: Some(format!("unknown subscription field {}", fields[0].name)), ..Default::default() };
    };
    let mut ex = Exec { ts, doc, vars: vars.clone(), world, out: RefResult::default() };
    let mut path = vec![Seg::Key(key.to_string())];
    let r = ex.complete(&fd.ty, payload, &fields, &mut path);
    let mut out = ex.out;
    out.vars = vars;
    out.data = match r {
        Ok(v) => {
            let mut m = Map::new();
            m.insert(key.to_string(), v);
            J::Object(m)
        }
        Err(_) => J::Null,
    };
    out
}

/// Is reference error `e` allowed to be missing from the observed errors,
/// given the set of reference errors that *were* observed? It is when some
/// other observed error nulled a position that contains `e`'s path (the spec
/// lets an implementation cancel/discard work below a nulled position).
pub fn may_be_missing(e: &RefError, all: &[RefError], present: &[bool], idx: usize) -> bool {
    for (j, o) in all.iter().enumerate() {
        if j == idx || !present[j] {
            continue;
        }
        let nulled: &[Seg] = o.nulled.as_deref().unwrap_or(&[]);
        if e.path.len() >= nulled.len() && e.path[..nulled.len()] == *nulled {
            return true;
        }
    }
    false
}
