//! vh-model (stub)
