//! vh-model: the harness' own GraphQL model — type systems, documents, values,
//! data worlds, generators and the reference executor R1. No dependency on the
//! code under test.

pub mod coerce;
pub mod doc;
pub mod exec;
pub mod gen_doc;
pub mod gen_ts;
pub mod types;
pub mod world;

pub use types::{ArgDef, FieldDef, Kind, ScalarKind, Ty, TypeDef, TypeSystem, Val};
