//! Random generator of VALID type systems (at most 10 types).

use async_graphql::{Name, Value};
use vh_core::Rng;

use super::model::*;

/// Generator features (switched off only while a known finding excludes them).
#[derive(Clone, Copy, Debug)]
pub struct Feat {
    /// implementing field may be non-null where the interface field is nullable
    pub cov_nonnull: bool,
    /// implementing field may name a member/implementing type of the interface field's type
    pub cov_named: bool,
}

/// Minimum number of types of a kind the caller needs (for the operators).
#[derive(Clone, Copy, Debug, Default)]
pub struct Need {
    pub enums: usize,
    pub scalars: usize,
    pub inputs: usize,
    pub ifaces: usize,
    pub objects: usize,
    pub unions: usize,
    /// some object implements some interface
    pub obj_impl: bool,
    /// some interface implements some interface
    pub iface_impl: bool,
    pub mutation: bool,
    pub subscription: bool,
}

const IN_SHAPES: [&str; 7] = ["T", "T!", "[T]", "[T!]", "[T]!", "[T!]!", "[[T]]"];

fn shape(r: &mut Rng, base: &str) -> Ty {
    let w = [6u32, 4, 2, 2, 1, 2, 1];
    Ty::parse(IN_SHAPES[r.weighted(&w)]).with_base(base)
}

pub fn default_for(sys_enums: &[(String, Vec<String>)], ty: &Ty, r: &mut Rng) -> Option<Value> {
    match ty {
        Ty::List(_) => Some(Value::List(vec![])),
        Ty::NonNull(inner) => match inner.as_ref() {
            Ty::List(_) => Some(Value::List(vec![])),
            t => default_for(sys_enums, t, r),
        },
        Ty::Named(n) => match n.as_str() {
            "Int" => Some(Value::from(r.range(0, 9) as i32)),
            "Float" => Some(Value::from(1.5f64)),
            "String" => Some(Value::from("d")),
            "Boolean" => Some(Value::from(true)),
            "ID" => Some(Value::from("id0")),
            other => sys_enums
                .iter()
                .find(|(e, _)| e == other)
                .map(|(_, vals)| Value::Enum(Name::new(&vals[0]))),
        },
    }
}

struct Plan {
    enums: Vec<(String, Vec<String>)>,
    scalars: Vec<String>,
    inputs: Vec<String>,
    ifaces: Vec<String>,
    objects: Vec<String>,
    unions: Vec<String>,
    /// per interface: all ancestors (transitive implements), nearest first
    iface_parents: Vec<Vec<usize>>,
    /// per object: implemented interfaces (closed under ancestors)
    obj_impl: Vec<Vec<usize>>,
    union_members: Vec<Vec<usize>>,
}

impl Plan {
    fn input_bases(&self) -> Vec<String> {
        let mut v: Vec<String> = BUILTIN.iter().map(|s| s.to_string()).collect();
        v.extend(self.enums.iter().map(|e| e.0.clone()));
        v.extend(self.scalars.iter().cloned());
        v
    }
    fn gen_input_ty(&self, r: &mut Rng, self_idx: Option<usize>) -> Ty {
        if !self.inputs.is_empty() && r.chance(2, 5) {
            let j = r.below(self.inputs.len());
            let mut t = shape(r, &self.inputs[j]);
            // required references only go "upwards", so they can never close a cycle
            if let (Ty::NonNull(inner), Some(i)) = (&t, self_idx) {
                if matches!(inner.as_ref(), Ty::Named(_)) && j <= i {
                    t = inner.as_ref().clone();
                }
            }
            t
        } else {
            let b = self.input_bases();
            { let base = r.pick(&b).clone(); shape(r, &base) }
        }
    }
    fn gen_arg(&self, r: &mut Rng, name: &str) -> Arg {
        let ty = self.gen_input_ty(r, None);
        let is_input_obj = self.inputs.iter().any(|i| i == ty.name());
        let default = if !is_input_obj && r.chance(1, 3) { default_for(&self.enums, &ty, r) } else { None };
        Arg { name: name.to_string(), ty, default }
    }
    fn gen_output_ty(&self, r: &mut Rng) -> Ty {
        let mut bases: Vec<String> = vec![];
        let w = r.below(10);
        if w < 4 {
            bases.extend(BUILTIN.iter().map(|s| s.to_string()));
            bases.extend(self.enums.iter().map(|e| e.0.clone()));
            bases.extend(self.scalars.iter().cloned());
        } else if w < 7 {
            bases.extend(self.objects.iter().cloned());
        } else {
            bases.extend(self.ifaces.iter().cloned());
            bases.extend(self.unions.iter().cloned());
        }
        if bases.is_empty() {
            bases.extend(BUILTIN.iter().map(|s| s.to_string()));
        }
        { let base = r.pick(&bases).clone(); shape(r, &base) }
    }
    fn gen_field(&self, r: &mut Rng, name: &str) -> FieldDef {
        let nargs = [5u32, 3, 1];
        let n = r.weighted(&nargs);
        let args = (0..n).map(|k| self.gen_arg(r, ["p", "q"][k])).collect();
        FieldDef { name: name.to_string(), ty: self.gen_output_ty(r), args }
    }

    /// Narrow a field type covariantly (valid by the specification).
    fn narrow(&self, r: &mut Rng, ty: &Ty, feat: Feat) -> Ty {
        match ty {
            Ty::NonNull(inner) => Ty::NonNull(Box::new(self.narrow(r, inner, feat))),
            Ty::List(inner) => {
                let t = Ty::List(Box::new(self.narrow(r, inner, feat)));
                if feat.cov_nonnull && r.chance(1, 3) { t.nn() } else { t }
            }
            Ty::Named(n) => {
                let mut name = n.clone();
                if feat.cov_named && r.chance(1, 2) {
                    if let Some(i) = self.ifaces.iter().position(|x| x == n) {
                        let mut subs: Vec<String> = vec![];
                        for (o, imp) in self.obj_impl.iter().enumerate() {
                            if imp.contains(&i) {
                                subs.push(self.objects[o].clone());
                            }
                        }
                        for (j, par) in self.iface_parents.iter().enumerate() {
                            if par.contains(&i) {
                                subs.push(self.ifaces[j].clone());
                            }
                        }
                        if !subs.is_empty() {
                            name = r.pick(&subs).clone();
                        }
                    } else if let Some(u) = self.unions.iter().position(|x| x == n) {
                        let m = *r.pick(&self.union_members[u]);
                        name = self.objects[m].clone();
                    }
                }
                let t = Ty::Named(name);
                if feat.cov_nonnull && r.chance(1, 3) { t.nn() } else { t }
            }
        }
    }

    /// A valid implementation of an interface field.
    fn implement_field(&self, r: &mut Rng, f: &FieldDef, feat: Feat) -> FieldDef {
        let mut out = f.clone();
        out.ty = self.narrow(r, &f.ty, feat);
        // extra optional arguments are valid
        if r.chance(1, 4) && !out.args.iter().any(|a| a.name == "x") {
            let mut a = self.gen_arg(r, "x");
            if a.is_required() {
                a.ty = match a.ty {
                    Ty::NonNull(inner) => *inner,
                    t => t,
                };
            }
            out.args.push(a);
        }
        out
    }
}

pub fn gen_valid(r: &mut Rng, feat: Feat, need: Need) -> System {
    // ---- how many of each kind (at most 10 in total, roots included) ----
    let mut n_enum = r.below(3).max(need.enums);
    let mut n_scalar = r.below(2).max(need.scalars);
    let mut n_input = r.below(4).max(need.inputs);
    let need_if = need.ifaces.max(if need.iface_impl { 2 } else if need.obj_impl { 1 } else { 0 });
    let mut n_iface = r.weighted(&[3, 4, 3, 1]).max(need_if);
    let mut n_obj = (1 + r.below(3)).max(need.objects);
    let mut n_union = r.below(3).max(need.unions);
    let has_mut = need.mutation || r.chance(1, 3);
    let has_sub = need.subscription || r.chance(1, 4);
    let roots = 1 + has_mut as usize + has_sub as usize;
    loop {
        let total = n_enum + n_scalar + n_input + n_iface + n_obj + n_union + roots;
        if total <= 10 {
            break;
        }
        // shrink a random category that is above its required minimum
        let cands: Vec<usize> = [
            (n_enum > need.enums),
            (n_scalar > need.scalars),
            (n_input > need.inputs),
            (n_iface > need_if),
            (n_obj > need.objects.max(1)),
            (n_union > need.unions),
        ]
        .iter()
        .enumerate()
        .filter(|(_, b)| **b)
        .map(|(i, _)| i)
        .collect();
        if cands.is_empty() {
            break;
        }
        match *r.pick(&cands) {
            0 => n_enum -= 1,
            1 => n_scalar -= 1,
            2 => n_input -= 1,
            3 => n_iface -= 1,
            4 => n_obj -= 1,
            _ => n_union -= 1,
        }
    }

    let mut plan = Plan {
        enums: (0..n_enum)
            .map(|i| {
                let nv = 1 + r.below(3);
                (format!("E{i}"), (0..nv).map(|k| format!("V{i}{}", ["A", "B", "C"][k])).collect())
            })
            .collect(),
        scalars: (0..n_scalar).map(|i| format!("S{i}")).collect(),
        inputs: (0..n_input).map(|i| format!("In{i}")).collect(),
        ifaces: (0..n_iface).map(|i| format!("I{i}")).collect(),
        objects: (0..n_obj).map(|i| format!("O{i}")).collect(),
        unions: (0..n_union).map(|i| format!("U{i}")).collect(),
        iface_parents: vec![],
        obj_impl: vec![],
        union_members: vec![],
    };

    // interface inheritance: a forest (each interface has at most one direct parent)
    for i in 0..n_iface {
        let force = need.iface_impl && i == 1;
        if i > 0 && (force || r.chance(1, 2)) {
            let p = r.below(i);
            let mut anc = vec![p];
            anc.extend(plan.iface_parents[p].iter().copied());
            plan.iface_parents.push(anc);
        } else {
            plan.iface_parents.push(vec![]);
        }
    }
    // object implements: one leaf interface and its ancestors, optionally a second unrelated one
    for o in 0..n_obj {
        let mut imp: Vec<usize> = vec![];
        let force = need.obj_impl && o == 0;
        if n_iface > 0 && (force || r.chance(2, 3)) {
            let l = r.below(n_iface);
            imp.push(l);
            imp.extend(plan.iface_parents[l].iter().copied());
            if r.chance(1, 3) {
                let l2 = r.below(n_iface);
                let mut fam2 = vec![l2];
                fam2.extend(plan.iface_parents[l2].iter().copied());
                // unrelated: no interface of the second family is related to the first
                let related = |a: usize, b: usize| a == b || plan.iface_parents[a].contains(&b) || plan.iface_parents[b].contains(&a);
                // also the two families must not share a descendant/ancestor root
                let root = |a: usize| *plan.iface_parents[a].last().unwrap_or(&a);
                if !fam2.iter().any(|x| imp.iter().any(|y| related(*x, *y))) && root(l2) != root(l) {
                    imp.extend(fam2);
                }
            }
        }
        plan.obj_impl.push(imp);
    }
    for _ in 0..n_union {
        let mut m: Vec<usize> = (0..n_obj).filter(|_| r.chance(1, 2)).collect();
        if m.is_empty() {
            m.push(r.below(n_obj));
        }
        plan.union_members.push(m);
    }

    let mut types: Vec<TypeDef> = vec![];
    for (name, vals) in &plan.enums {
        let mut t = TypeDef::new(name, Kind::Enum);
        t.values = vals.clone();
        types.push(t);
    }
    for s in &plan.scalars {
        types.push(TypeDef::new(s, Kind::Scalar));
    }
    for (i, name) in plan.inputs.iter().enumerate() {
        let mut t = TypeDef::new(name, Kind::Input);
        let nf = 1 + r.below(3);
        for k in 0..nf {
            let ty = plan.gen_input_ty(r, Some(i));
            let is_input_obj = plan.inputs.iter().any(|x| x == ty.name());
            let default = if !is_input_obj && r.chance(1, 3) { default_for(&plan.enums, &ty, r) } else { None };
            t.input_fields.push(Arg { name: ["a", "b", "c"][k].to_string(), ty, default });
        }
        types.push(t);
    }
    // interfaces (in index order: parents first)
    let mut iface_defs: Vec<TypeDef> = vec![];
    for i in 0..n_iface {
        let mut t = TypeDef::new(&plan.ifaces[i], Kind::Interface);
        t.implements = plan.iface_parents[i].iter().map(|p| plan.ifaces[*p].clone()).collect();
        if let Some(p) = plan.iface_parents[i].first() {
            // inherit the direct parent's fields (which already contain the ancestors' fields)
            let parent_fields = iface_defs[*p].fields.clone();
            for f in &parent_fields {
                t.fields.push(plan.implement_field(r, f, feat));
            }
        }
        let nf = 1 + r.below(2);
        for k in 0..nf {
            t.fields.push(plan.gen_field(r, &format!("i{i}f{k}")));
        }
        iface_defs.push(t);
    }
    for o in 0..n_obj {
        let mut t = TypeDef::new(&plan.objects[o], Kind::Object);
        t.implements = plan.obj_impl[o].iter().map(|p| plan.ifaces[*p].clone()).collect();
        // required fields: from the most-derived interface of each family
        let imp = plan.obj_impl[o].clone();
        for &i in &imp {
            let is_leaf = !imp.iter().any(|&j| j != i && plan.iface_parents[j].contains(&i));
            if is_leaf {
                for f in &iface_defs[i].fields.clone() {
                    if t.field(&f.name).is_none() {
                        t.fields.push(plan.implement_field(r, f, feat));
                    }
                }
            }
        }
        let nf = 1 + r.below(3);
        for k in 0..nf {
            t.fields.push(plan.gen_field(r, &format!("o{o}f{k}")));
        }
        types.push(t);
    }
    types.extend(iface_defs);
    for (u, name) in plan.unions.iter().enumerate() {
        let mut t = TypeDef::new(name, Kind::Union);
        t.members = plan.union_members[u].iter().map(|m| plan.objects[*m].clone()).collect();
        types.push(t);
    }
    // roots
    let mut q = TypeDef::new("Query", Kind::Object);
    let nf = 2 + r.below(4);
    for k in 0..nf {
        q.fields.push(plan.gen_field(r, &format!("q{k}")));
    }
    types.push(q);
    if has_mut {
        let mut m = TypeDef::new("Mutation", Kind::Object);
        for k in 0..1 + r.below(2) {
            m.fields.push(plan.gen_field(r, &format!("m{k}")));
        }
        types.push(m);
    }
    if has_sub {
        let mut s = TypeDef::new("Subscription", Kind::Object);
        s.as_subscription = true;
        for k in 0..1 + r.below(2) {
            let base = *r.pick(&["Int", "String", "Boolean"]);
            let ty = if r.bool() { Ty::n(base) } else { Ty::n(base).nn() };
            s.fields.push(FieldDef { name: format!("s{k}"), ty, args: vec![] });
        }
        types.push(s);
    }
    // registration order must not matter: shuffle
    r.shuffle(&mut types);
    System {
        query: "Query".into(),
        mutation: has_mut.then(|| "Mutation".to_string()),
        subscription: has_sub.then(|| "Subscription".to_string()),
        types,
    }
}
