//! Build a described type system through the real dynamic-schema API and
//! exercise a built schema (introspection, SDL export, generated queries).

use std::collections::HashMap;
use std::sync::Arc;

use async_graphql::dynamic::{
    Enum, Field, FieldFuture, FieldValue, InputObject, InputValue, Interface, InterfaceField, Object, Scalar,
    Schema, SchemaBuilder, Subscription, SubscriptionField, SubscriptionFieldFuture, TypeRef, Union,
};
use async_graphql::{Name, Value};
use vh_core::Rng;

use super::model::*;

enum VKind {
    Scalar,
    Enum(String),
    Object,
    /// interface / union: a concrete object to answer with, if any
    Abstract(Option<String>),
    Other,
}

pub struct Info {
    kinds: HashMap<String, VKind>,
}

impl Info {
    pub fn new(sys: &System) -> Info {
        let mut kinds = HashMap::new();
        for t in &sys.types {
            let k = match t.kind {
                Kind::Scalar => VKind::Scalar,
                Kind::Enum => VKind::Enum(t.values.first().cloned().unwrap_or_default()),
                Kind::Object => VKind::Object,
                Kind::Interface => VKind::Abstract(sys.object_implementers(&t.name).first().cloned()),
                Kind::Union => VKind::Abstract(
                    t.members.iter().find(|m| sys.kind_of(m) == Some(Kind::Object)).cloned(),
                ),
                Kind::Input => VKind::Other,
            };
            kinds.insert(t.name.clone(), k);
        }
        Info { kinds }
    }

    /// A constant value of the given type (None = null).
    fn value(&self, ty: &Ty) -> Option<FieldValue<'static>> {
        match ty {
            Ty::NonNull(inner) => self.value(inner),
            Ty::List(inner) => {
                let items: Vec<FieldValue<'static>> = (0..2).filter_map(|_| self.value(inner)).collect();
                Some(FieldValue::list(items))
            }
            Ty::Named(n) => match n.as_str() {
                "Int" => Some(FieldValue::value(7)),
                "Float" => Some(FieldValue::value(1.5)),
                "String" => Some(FieldValue::value("s")),
                "Boolean" => Some(FieldValue::value(true)),
                "ID" => Some(FieldValue::value("id1")),
                other => match self.kinds.get(other) {
                    Some(VKind::Scalar) => Some(FieldValue::value("custom")),
                    Some(VKind::Enum(v)) => Some(FieldValue::value(Value::Enum(Name::new(v)))),
                    Some(VKind::Object) => Some(FieldValue::owned_any(0u8)),
                    Some(VKind::Abstract(Some(o))) => Some(FieldValue::owned_any(0u8).with_type(o.clone())),
                    Some(VKind::Abstract(None)) | Some(VKind::Other) | None => None,
                },
            },
        }
    }
}

pub fn to_typeref(t: &Ty) -> TypeRef {
    match t {
        Ty::Named(n) => TypeRef::Named(n.clone().into()),
        Ty::List(i) => TypeRef::List(Box::new(to_typeref(i))),
        Ty::NonNull(i) => TypeRef::NonNull(Box::new(to_typeref(i))),
    }
}

fn input_value(a: &Arg) -> InputValue {
    let mut v = InputValue::new(a.name.clone(), to_typeref(&a.ty));
    if let Some(d) = &a.default {
        v = v.default_value(d.clone());
    }
    v
}

/// Register every described type with the real builder.
pub fn build(sys: &System) -> SchemaBuilder {
    let info = Arc::new(Info::new(sys));
    let mut b = Schema::build(&sys.query, sys.mutation.as_deref(), sys.subscription.as_deref());
    for t in &sys.types {
        match t.kind {
            Kind::Object if t.as_subscription => {
                let mut s = Subscription::new(t.name.clone());
                for f in &t.fields {
                    let ty = f.ty.clone();
                    let info = info.clone();
                    let mut sf = SubscriptionField::new(f.name.clone(), to_typeref(&f.ty), move |_| {
                        let items: Vec<async_graphql::Result<FieldValue<'static>>> =
                            (0..2).filter_map(|_| info.value(&ty)).map(Ok).collect();
                        SubscriptionFieldFuture::new(async move { Ok(futures_util::stream::iter(items)) })
                    });
                    for a in &f.args {
                        sf = sf.argument(input_value(a));
                    }
                    s = s.field(sf);
                }
                b = b.register(s);
            }
            Kind::Object => {
                let mut o = Object::new(t.name.clone());
                for i in &t.implements {
                    o = o.implement(i.clone());
                }
                for f in &t.fields {
                    let ty = f.ty.clone();
                    let info = info.clone();
                    let mut df = Field::new(f.name.clone(), to_typeref(&f.ty), move |_| FieldFuture::Value(info.value(&ty)));
                    for a in &f.args {
                        df = df.argument(input_value(a));
                    }
                    o = o.field(df);
                }
                b = b.register(o);
            }
            Kind::Interface => {
                let mut i = Interface::new(t.name.clone());
                for p in &t.implements {
                    i = i.implement(p.clone());
                }
                for f in &t.fields {
                    let mut df = InterfaceField::new(f.name.clone(), to_typeref(&f.ty));
                    for a in &f.args {
                        df = df.argument(input_value(a));
                    }
                    i = i.field(df);
                }
                b = b.register(i);
            }
            Kind::Union => {
                let mut u = Union::new(t.name.clone());
                for m in &t.members {
                    u = u.possible_type(m.clone());
                }
                b = b.register(u);
            }
            Kind::Enum => {
                b = b.register(Enum::new(t.name.clone()).items(t.values.iter().cloned()));
            }
            Kind::Scalar => {
                b = b.register(Scalar::new(t.name.clone()));
            }
            Kind::Input => {
                let mut i = InputObject::new(t.name.clone());
                for f in &t.input_fields {
                    i = i.field(input_value(f));
                }
                b = b.register(i);
            }
        }
    }
    b
}

// ---------------------------------------------------------------------------
// query generation by walking the described type system
// ---------------------------------------------------------------------------

pub struct QGen<'a> {
    pub sys: &'a System,
    pub r: &'a mut Rng,
    alias: u32,
    /// probability (in sixths) of taking a field
    take: u32,
}

impl<'a> QGen<'a> {
    pub fn new(sys: &'a System, r: &'a mut Rng, take: u32) -> Self {
        QGen { sys, r, alias: 0, take }
    }

    fn literal(&mut self, ty: &Ty, depth: u32) -> String {
        match ty {
            Ty::NonNull(inner) => self.literal_nn(inner, depth),
            other => {
                if self.r.chance(1, 6) { "null".into() } else { self.literal_nn(other, depth) }
            }
        }
    }

    fn literal_nn(&mut self, ty: &Ty, depth: u32) -> String {
        match ty {
            Ty::NonNull(inner) => self.literal_nn(inner, depth),
            Ty::List(inner) => {
                let n = if depth > 3 { 0 } else { self.r.below(3) };
                let items: Vec<String> = (0..n).map(|_| self.literal(inner, depth + 1)).collect();
                format!("[{}]", items.join(", "))
            }
            Ty::Named(n) => match n.as_str() {
                "Int" => format!("{}", self.r.range(-5, 50)),
                "Float" => "2.5".into(),
                "String" => "\"str\"".into(),
                "Boolean" => if self.r.bool() { "true".into() } else { "false".into() },
                "ID" => "\"id7\"".into(),
                other => match self.sys.get(other) {
                    Some(t) if t.kind == Kind::Enum && !t.values.is_empty() => self.r.pick(&t.values).clone(),
                    Some(t) if t.kind == Kind::Input => {
                        let fields = t.input_fields.clone();
                        let mut parts = vec![];
                        for f in &fields {
                            let must = f.is_required();
                            if must || (depth < 3 && self.r.chance(1, 2)) {
                                parts.push(format!("{}: {}", f.name, self.literal(&f.ty, depth + 1)));
                            }
                        }
                        format!("{{{}}}", parts.join(", "))
                    }
                    _ => "\"x\"".into(),
                },
            },
        }
    }

    fn args(&mut self, f: &FieldDef) -> String {
        let mut parts = vec![];
        for a in &f.args {
            if a.is_required() || self.r.chance(1, 2) {
                parts.push(format!("{}: {}", a.name, self.literal(&a.ty, 0)));
            }
        }
        if parts.is_empty() { String::new() } else { format!("({})", parts.join(", ")) }
    }

    fn fields_of(&mut self, t: &TypeDef, depth: u32, out: &mut String) {
        for f in &t.fields {
            if !self.r.chance(self.take, 6) {
                continue;
            }
            let base_kind = self.sys.kind_of(f.ty.name());
            let composite = matches!(base_kind, Some(Kind::Object | Kind::Interface | Kind::Union));
            if composite && depth >= 3 {
                continue;
            }
            self.alias += 1;
            let args = self.args(f);
            out.push_str(&format!(" f{}: {}{}", self.alias, f.name, args));
            if composite {
                out.push_str(" {");
                self.selection(f.ty.name(), depth + 1, out);
                out.push_str(" }");
            }
        }
    }

    /// Selection set content for a composite type.
    pub fn selection(&mut self, tname: &str, depth: u32, out: &mut String) {
        out.push_str(" __typename");
        let Some(t) = self.sys.get(tname) else { return };
        let t = t.clone();
        match t.kind {
            Kind::Object => self.fields_of(&t, depth, out),
            Kind::Interface => {
                self.fields_of(&t, depth, out);
                for o in self.sys.object_implementers(&t.name) {
                    if let Some(ot) = self.sys.get(&o).cloned() {
                        out.push_str(&format!(" ... on {o} {{ __typename"));
                        self.fields_of(&ot, depth, out);
                        out.push_str(" }");
                    }
                }
            }
            Kind::Union => {
                for m in &t.members {
                    if let Some(mt) = self.sys.get(m).cloned() {
                        if matches!(mt.kind, Kind::Object | Kind::Interface) {
                            out.push_str(&format!(" ... on {m} {{ __typename"));
                            self.fields_of(&mt, depth, out);
                            out.push_str(" }");
                        }
                    }
                }
            }
            _ => {}
        }
    }

    pub fn operation(&mut self, kw: &str, root: &str) -> String {
        let mut s = format!("{kw} {{");
        self.selection(root, 0, &mut s);
        s.push_str(" }");
        s
    }
}

pub const INTROSPECTION_QUERY: &str = r#"
query IntrospectionQuery {
  __schema {
    description
    queryType { name }
    mutationType { name }
    subscriptionType { name }
    types { ...FullType }
    directives { name description locations isRepeatable args(includeDeprecated: true) { ...InputValue } }
  }
}
fragment FullType on __Type {
  kind name description specifiedByURL isOneOf
  fields(includeDeprecated: true) {
    name description
    args(includeDeprecated: true) { ...InputValue }
    type { ...TypeRef }
    isDeprecated deprecationReason
  }
  inputFields(includeDeprecated: true) { ...InputValue }
  interfaces { ...TypeRef }
  enumValues(includeDeprecated: true) { name description isDeprecated deprecationReason }
  possibleTypes { ...TypeRef }
}
fragment InputValue on __InputValue {
  name description type { ...TypeRef } defaultValue isDeprecated deprecationReason
}
fragment TypeRef on __Type {
  kind name
  ofType { kind name ofType { kind name ofType { kind name ofType { kind name ofType { kind name ofType { kind name ofType { kind name } } } } } } }
}
"#;
