//! Own description of a GraphQL type system and the oracle: a validator that
//! implements exactly the rules listed in property C33.

use async_graphql::Value;

#[derive(Clone, Debug, PartialEq, Eq, Hash)]
pub enum Ty {
    Named(String),
    List(Box<Ty>),
    NonNull(Box<Ty>),
}

impl Ty {
    pub fn n(s: &str) -> Ty {
        Ty::Named(s.to_string())
    }
    pub fn nn(self) -> Ty {
        match self {
            Ty::NonNull(_) => self,
            o => Ty::NonNull(Box::new(o)),
        }
    }
    pub fn list(self) -> Ty {
        Ty::List(Box::new(self))
    }
    pub fn name(&self) -> &str {
        match self {
            Ty::Named(n) => n,
            Ty::List(t) | Ty::NonNull(t) => t.name(),
        }
    }
    pub fn is_nonnull(&self) -> bool {
        matches!(self, Ty::NonNull(_))
    }
    pub fn show(&self) -> String {
        match self {
            Ty::Named(n) => n.clone(),
            Ty::List(t) => format!("[{}]", t.show()),
            Ty::NonNull(t) => format!("{}!", t.show()),
        }
    }
    /// Parse the compact notation used by the operators: `[Int!]!`.
    pub fn parse(s: &str) -> Ty {
        let s = s.trim();
        if let Some(inner) = s.strip_suffix('!') {
            return Ty::parse(inner).nn();
        }
        if let Some(inner) = s.strip_prefix('[').and_then(|x| x.strip_suffix(']')) {
            return Ty::parse(inner).list();
        }
        Ty::n(s)
    }
    /// Same wrappers around another base name.
    pub fn with_base(&self, base: &str) -> Ty {
        match self {
            Ty::Named(_) => Ty::n(base),
            Ty::List(t) => Ty::List(Box::new(t.with_base(base))),
            Ty::NonNull(t) => Ty::NonNull(Box::new(t.with_base(base))),
        }
    }
}

#[derive(Clone, Debug)]
pub struct Arg {
    pub name: String,
    pub ty: Ty,
    pub default: Option<Value>,
}

impl Arg {
    pub fn new(name: &str, ty: Ty) -> Arg {
        Arg { name: name.to_string(), ty, default: None }
    }
    pub fn is_required(&self) -> bool {
        self.ty.is_nonnull() && self.default.is_none()
    }
    pub fn show(&self) -> String {
        match &self.default {
            Some(d) => format!("{}: {} = {}", self.name, self.ty.show(), d),
            None => format!("{}: {}", self.name, self.ty.show()),
        }
    }
}

#[derive(Clone, Debug)]
pub struct FieldDef {
    pub name: String,
    pub ty: Ty,
    pub args: Vec<Arg>,
}

impl FieldDef {
    pub fn show(&self) -> String {
        if self.args.is_empty() {
            format!("{}: {}", self.name, self.ty.show())
        } else {
            let a: Vec<String> = self.args.iter().map(|a| a.show()).collect();
            format!("{}({}): {}", self.name, a.join(", "), self.ty.show())
        }
    }
}

#[derive(Clone, Copy, Debug, PartialEq, Eq, Hash, PartialOrd, Ord)]
pub enum Kind {
    Object,
    Interface,
    Union,
    Enum,
    Scalar,
    Input,
}

impl Kind {
    pub fn tag(self) -> &'static str {
        match self {
            Kind::Object => "object",
            Kind::Interface => "interface",
            Kind::Union => "union",
            Kind::Enum => "enum",
            Kind::Scalar => "scalar",
            Kind::Input => "input",
        }
    }
}

#[derive(Clone, Debug)]
pub struct TypeDef {
    pub name: String,
    pub kind: Kind,
    pub fields: Vec<FieldDef>,     // object, interface
    pub implements: Vec<String>,   // object, interface
    pub members: Vec<String>,      // union
    pub values: Vec<String>,       // enum
    pub input_fields: Vec<Arg>,    // input object
    /// object that is registered through `dynamic::Subscription`
    pub as_subscription: bool,
}

impl TypeDef {
    pub fn new(name: &str, kind: Kind) -> TypeDef {
        TypeDef {
            name: name.to_string(),
            kind,
            fields: vec![],
            implements: vec![],
            members: vec![],
            values: vec![],
            input_fields: vec![],
            as_subscription: false,
        }
    }
    pub fn field(&self, name: &str) -> Option<&FieldDef> {
        self.fields.iter().find(|f| f.name == name)
    }
}

#[derive(Clone, Debug)]
pub struct System {
    pub query: String,
    pub mutation: Option<String>,
    pub subscription: Option<String>,
    pub types: Vec<TypeDef>,
}

pub const BUILTIN: [&str; 5] = ["Int", "Float", "String", "Boolean", "ID"];

impl System {
    pub fn get(&self, name: &str) -> Option<&TypeDef> {
        self.types.iter().find(|t| t.name == name)
    }
    pub fn get_mut(&mut self, name: &str) -> Option<&mut TypeDef> {
        self.types.iter_mut().find(|t| t.name == name)
    }
    pub fn kind_of(&self, name: &str) -> Option<Kind> {
        if BUILTIN.contains(&name) {
            return Some(Kind::Scalar);
        }
        self.get(name).map(|t| t.kind)
    }
    pub fn names_of(&self, kind: Kind) -> Vec<String> {
        self.types.iter().filter(|t| t.kind == kind && !t.as_subscription).map(|t| t.name.clone()).collect()
    }
    /// Types (objects and interfaces) that list `iface` in their implements.
    pub fn implementers(&self, iface: &str) -> Vec<String> {
        self.types
            .iter()
            .filter(|t| t.implements.iter().any(|i| i == iface))
            .map(|t| t.name.clone())
            .collect()
    }
    pub fn object_implementers(&self, iface: &str) -> Vec<String> {
        self.types
            .iter()
            .filter(|t| t.kind == Kind::Object && t.implements.iter().any(|i| i == iface))
            .map(|t| t.name.clone())
            .collect()
    }

    /// SDL-like text: used for hashing, samples and replay files.
    pub fn describe(&self) -> String {
        let mut s = format!("schema {{ query: {}", self.query);
        if let Some(m) = &self.mutation {
            s += &format!(" mutation: {m}");
        }
        if let Some(m) = &self.subscription {
            s += &format!(" subscription: {m}");
        }
        s += " }\n";
        for t in &self.types {
            match t.kind {
                Kind::Object | Kind::Interface => {
                    let kw = if t.kind == Kind::Object {
                        if t.as_subscription { "type(subscription)" } else { "type" }
                    } else {
                        "interface"
                    };
                    s += &format!("{kw} {}", t.name);
                    if !t.implements.is_empty() {
                        s += &format!(" implements {}", t.implements.join(" & "));
                    }
                    let f: Vec<String> = t.fields.iter().map(|f| f.show()).collect();
                    s += &format!(" {{ {} }}\n", f.join(" "));
                }
                Kind::Union => s += &format!("union {} = {}\n", t.name, t.members.join(" | ")),
                Kind::Enum => s += &format!("enum {} {{ {} }}\n", t.name, t.values.join(" ")),
                Kind::Scalar => s += &format!("scalar {}\n", t.name),
                Kind::Input => {
                    let f: Vec<String> = t.input_fields.iter().map(|f| f.show()).collect();
                    s += &format!("input {} {{ {} }}\n", t.name, f.join(" "));
                }
            }
        }
        s
    }
}

// ---------------------------------------------------------------------------
// The oracle
// ---------------------------------------------------------------------------

pub const R_ROOTS: &str = "roots";
pub const R_POS: &str = "positions";
pub const R_IMPL: &str = "implementations";
pub const R_UNION: &str = "union_members";
pub const R_CYCLE: &str = "input_cycle";

fn is_output_kind(k: Kind) -> bool {
    matches!(k, Kind::Scalar | Kind::Object | Kind::Interface | Kind::Union | Kind::Enum)
}
fn is_input_kind(k: Kind) -> bool {
    matches!(k, Kind::Scalar | Kind::Enum | Kind::Input)
}

/// IsValidImplementationFieldType(fieldType, implementedFieldType) of the specification.
pub fn is_valid_impl_type(sys: &System, field: &Ty, implemented: &Ty) -> bool {
    match (field, implemented) {
        (Ty::NonNull(f), Ty::NonNull(i)) => is_valid_impl_type(sys, f, i),
        (Ty::NonNull(f), i) => is_valid_impl_type(sys, f, i),
        (Ty::List(f), Ty::List(i)) => is_valid_impl_type(sys, f, i),
        (Ty::Named(f), Ty::Named(i)) => {
            if f == i {
                return true;
            }
            let (Some(fk), Some(ik)) = (sys.kind_of(f), sys.kind_of(i)) else { return false };
            match (fk, ik) {
                (Kind::Object, Kind::Union) => sys.get(i).map(|u| u.members.contains(f)).unwrap_or(false),
                (Kind::Object | Kind::Interface, Kind::Interface) => {
                    sys.get(f).map(|t| t.implements.contains(i)).unwrap_or(false)
                }
                _ => false,
            }
        }
        _ => false,
    }
}

/// All violations of the LISTED rules, as (rule tag, message).
pub fn validate(sys: &System) -> Vec<(&'static str, String)> {
    let mut e: Vec<(&'static str, String)> = vec![];

    // roots exist and are objects
    match sys.kind_of(&sys.query) {
        None => e.push((R_ROOTS, format!("query root {} does not exist", sys.query))),
        Some(Kind::Object) => {}
        Some(k) => e.push((R_ROOTS, format!("query root {} is a {}", sys.query, k.tag()))),
    }
    for (what, root) in [("mutation", &sys.mutation), ("subscription", &sys.subscription)] {
        if let Some(name) = root {
            match sys.kind_of(name) {
                None => e.push((R_ROOTS, format!("{what} root {name} does not exist"))),
                Some(Kind::Object) => {}
                Some(k) => e.push((R_ROOTS, format!("{what} root {name} is a {}", k.tag()))),
            }
        }
    }

    for t in &sys.types {
        match t.kind {
            Kind::Object | Kind::Interface => {
                // every field has an output type, every argument an input type
                for f in &t.fields {
                    match sys.kind_of(f.ty.name()) {
                        Some(k) if is_output_kind(k) => {}
                        Some(k) => e.push((R_POS, format!("field {}.{} has {} type {}", t.name, f.name, k.tag(), f.ty.show()))),
                        None => e.push((R_POS, format!("field {}.{} has unknown type {}", t.name, f.name, f.ty.show()))),
                    }
                    for a in &f.args {
                        match sys.kind_of(a.ty.name()) {
                            Some(k) if is_input_kind(k) => {}
                            Some(k) => e.push((R_POS, format!("argument {}.{}.{} has {} type {}", t.name, f.name, a.name, k.tag(), a.ty.show()))),
                            None => e.push((R_POS, format!("argument {}.{}.{} has unknown type {}", t.name, f.name, a.name, a.ty.show()))),
                        }
                    }
                }
                // implementations
                for iname in &t.implements {
                    let iface = match sys.get(iname) {
                        Some(i) if i.kind == Kind::Interface => i,
                        _ => {
                            e.push((R_IMPL, format!("{} implements {iname} which is not an interface", t.name)));
                            continue;
                        }
                    };
                    for ifield in &iface.fields {
                        let Some(tf) = t.field(&ifield.name) else {
                            e.push((R_IMPL, format!("{} lacks field {} of interface {iname}", t.name, ifield.name)));
                            continue;
                        };
                        if !is_valid_impl_type(sys, &tf.ty, &ifield.ty) {
                            e.push((R_IMPL, format!(
                                "{}.{}: {} is not a covariant implementation of {iname}.{}: {}",
                                t.name, tf.name, tf.ty.show(), ifield.name, ifield.ty.show()
                            )));
                        }
                        for ia in &ifield.args {
                            match tf.args.iter().find(|a| a.name == ia.name) {
                                None => e.push((R_IMPL, format!(
                                    "{}.{} lacks argument {} declared by {iname}.{}", t.name, tf.name, ia.name, ifield.name
                                ))),
                                Some(ta) if ta.ty != ia.ty => e.push((R_IMPL, format!(
                                    "{}.{}({}: {}) differs from {iname}.{}({}: {})",
                                    t.name, tf.name, ta.name, ta.ty.show(), ifield.name, ia.name, ia.ty.show()
                                ))),
                                Some(_) => {}
                            }
                        }
                        for ta in &tf.args {
                            if !ifield.args.iter().any(|a| a.name == ta.name) && ta.is_required() {
                                e.push((R_IMPL, format!(
                                    "{}.{} adds required argument {} not declared by {iname}.{}",
                                    t.name, tf.name, ta.name, ifield.name
                                )));
                            }
                        }
                    }
                }
            }
            Kind::Input => {
                for f in &t.input_fields {
                    match sys.kind_of(f.ty.name()) {
                        Some(k) if is_input_kind(k) => {}
                        Some(k) => e.push((R_POS, format!("input field {}.{} has {} type {}", t.name, f.name, k.tag(), f.ty.show()))),
                        None => e.push((R_POS, format!("input field {}.{} has unknown type {}", t.name, f.name, f.ty.show()))),
                    }
                }
            }
            Kind::Union => {
                for m in &t.members {
                    match sys.kind_of(m) {
                        Some(Kind::Object) => {}
                        Some(k) => e.push((R_UNION, format!("member {m} of union {} is a {}", t.name, k.tag()))),
                        None => e.push((R_UNION, format!("member {m} of union {} does not exist", t.name))),
                    }
                }
            }
            Kind::Enum | Kind::Scalar => {}
        }
    }

    // required input-object cycle: edges through fields typed `Name!`
    let inputs: Vec<&TypeDef> = sys.types.iter().filter(|t| t.kind == Kind::Input).collect();
    let idx = |n: &str| inputs.iter().position(|t| t.name == n);
    let edges: Vec<Vec<usize>> = inputs
        .iter()
        .map(|t| {
            t.input_fields
                .iter()
                .filter_map(|f| match &f.ty {
                    Ty::NonNull(inner) => match inner.as_ref() {
                        Ty::Named(n) => idx(n),
                        _ => None,
                    },
                    _ => None,
                })
                .collect()
        })
        .collect();
    // a node is on a cycle iff it can reach itself
    for start in 0..inputs.len() {
        let mut seen = vec![false; inputs.len()];
        let mut stack: Vec<usize> = edges[start].clone();
        let mut on_cycle = false;
        while let Some(n) = stack.pop() {
            if n == start {
                on_cycle = true;
                break;
            }
            if !seen[n] {
                seen[n] = true;
                stack.extend(edges[n].iter().copied());
            }
        }
        if on_cycle {
            e.push((R_CYCLE, format!("input object {} requires itself through non-null fields", inputs[start].name)));
        }
    }
    e
}
