//! Single-rule violation operators (each breaks exactly one LISTED rule) and
//! crafted valid variants that must build.

use async_graphql::Value;
use vh_core::Rng;

use super::generate::Need;
use super::model::*;

#[derive(Clone, Debug)]
pub enum ImplVar {
    MissingField,
    /// interface field type / implementing field type (compact notation)
    FieldTypes(&'static str, &'static str),
    /// interface field typed with an interface/union, implementation with a member object (valid);
    /// reverse = the other way round (invalid)
    NamedSub { reverse: bool, wrap: &'static str },
    MissingArg { required: bool },
    ArgTypes(&'static str, &'static str),
    ExtraArg { ty: &'static str, default: bool },
}

#[derive(Clone, Debug)]
pub enum OpKind {
    Unchanged,
    QueryMissing,
    QueryNon(Kind),
    MutationMissing,
    MutationNon(Kind),
    SubscriptionMissing,
    SubscriptionNon(Kind),
    /// output field typed with an input object (Some(Input)) or an unknown type (None)
    OutFieldBad { on_iface: bool, bad: Option<Kind> },
    ArgBad { on_iface: bool, bad: Option<Kind> },
    InputFieldBad { bad: Option<Kind> },
    Impl { target_iface: bool, var: ImplVar },
    ImplementsNon { target_iface: bool, what: Option<Kind> },
    UnionMember { what: Option<Kind> },
    InputCycle(usize),
    ValidInputCycle(u8),
}

#[derive(Clone, Debug)]
pub struct Op {
    pub tag: String,
    /// rule expected to be violated; None = the result is valid and must build
    pub expect: Option<&'static str>,
    /// generator feature guarding this operator (a known finding may exclude it)
    pub feature: Option<&'static str>,
    pub need: Need,
    pub kind: OpKind,
}

fn op(tag: &str, expect: Option<&'static str>, feature: Option<&'static str>, need: Need, kind: OpKind) -> Op {
    Op { tag: tag.to_string(), expect, feature, need, kind }
}

fn need_kind(k: Option<Kind>) -> Need {
    let mut n = Need::default();
    match k {
        Some(Kind::Enum) => n.enums = 1,
        Some(Kind::Scalar) => n.scalars = 1,
        Some(Kind::Input) => n.inputs = 1,
        Some(Kind::Interface) => n.ifaces = 1,
        Some(Kind::Union) => n.unions = 1,
        Some(Kind::Object) => n.objects = 2,
        None => {}
    }
    n
}

fn ktag(k: Option<Kind>) -> &'static str {
    k.map(|k| k.tag()).unwrap_or("unknown")
}

pub fn all_ops() -> Vec<Op> {
    let mut v = vec![];
    let non_obj = [Kind::Interface, Kind::Union, Kind::Scalar, Kind::Input, Kind::Enum];
    v.push(op("valid", None, None, Need::default(), OpKind::Unchanged));

    // ---- roots ----
    v.push(op("query_missing", Some(R_ROOTS), None, Need::default(), OpKind::QueryMissing));
    for k in non_obj {
        v.push(op(&format!("query_is_{}", k.tag()), Some(R_ROOTS), None, need_kind(Some(k)), OpKind::QueryNon(k)));
        v.push(op(&format!("mutation_is_{}", k.tag()), Some(R_ROOTS), None, need_kind(Some(k)), OpKind::MutationNon(k)));
        v.push(op(&format!("subscription_is_{}", k.tag()), Some(R_ROOTS), None, need_kind(Some(k)), OpKind::SubscriptionNon(k)));
    }
    v.push(op("mutation_missing", Some(R_ROOTS), None, Need::default(), OpKind::MutationMissing));
    v.push(op("subscription_missing", Some(R_ROOTS), Some("subscription_root_missing"), Need::default(), OpKind::SubscriptionMissing));

    // ---- type positions ----
    for on_iface in [false, true] {
        let w = if on_iface { "iface" } else { "object" };
        let base = Need { obj_impl: on_iface, ..Need::default() };
        v.push(op(&format!("{w}_field_input_object"), Some(R_POS), None, Need { inputs: 1, ..base }, OpKind::OutFieldBad { on_iface, bad: Some(Kind::Input) }));
        v.push(op(&format!("{w}_field_unknown"), Some(R_POS), None, base, OpKind::OutFieldBad { on_iface, bad: None }));
        for k in [Some(Kind::Object), Some(Kind::Interface), Some(Kind::Union), None] {
            let mut n = need_kind(k);
            n.obj_impl = on_iface;
            n.ifaces = n.ifaces.max(on_iface as usize);
            v.push(op(&format!("{w}_arg_{}", ktag(k)), Some(R_POS), None, n, OpKind::ArgBad { on_iface, bad: k }));
        }
    }
    for k in [Some(Kind::Object), Some(Kind::Interface), Some(Kind::Union), None] {
        let mut n = need_kind(k);
        n.inputs = 1;
        v.push(op(&format!("input_field_{}", ktag(k)), Some(R_POS), None, n, OpKind::InputFieldBad { bad: k }));
    }

    // ---- implementations (object implementing interface / interface implementing interface) ----
    for target_iface in [false, true] {
        let w = if target_iface { "iface_impl" } else { "obj_impl" };
        let need = Need { obj_impl: !target_iface, iface_impl: target_iface, ..Need::default() };
        let mut add = |tag: &str, expect: Option<&'static str>, feature: Option<&'static str>, need: Need, var: ImplVar| {
            v.push(op(&format!("{w}_{tag}"), expect, feature, need, OpKind::Impl { target_iface, var }));
        };
        add("missing_field", Some(R_IMPL), None, need, ImplVar::MissingField);
        // identical types: control
        add("same_type", None, None, need, ImplVar::FieldTypes("[Int!]", "[Int!]"));
        // different named type
        for (k, (a, b)) in [("Int", "String"), ("String!", "Int!"), ("[Int]", "[String]"), ("ID", "String")].iter().enumerate() {
            add(&format!("field_different_named_{k}"), Some(R_IMPL), None, need, ImplVar::FieldTypes(a, b));
        }
        // nullable where the interface is non-null
        for (k, (a, b)) in [("Int!", "Int"), ("[Int]!", "[Int]"), ("[Int!]", "[Int]"), ("[Int!]!", "[Int]!")].iter().enumerate() {
            add(&format!("field_nullable_for_nonnull_{k}"), Some(R_IMPL), Some("nullable_for_nonnull"), need, ImplVar::FieldTypes(a, b));
        }
        // list depth differs
        for (k, (a, b)) in [("[Int]", "Int"), ("Int", "[Int]"), ("[Int]", "[[Int]]"), ("[[Int]]", "[Int]"), ("[Int!]!", "Int!")].iter().enumerate() {
            add(&format!("field_list_depth_{k}"), Some(R_IMPL), None, need, ImplVar::FieldTypes(a, b));
        }
        // valid covariance: non-null for nullable
        for (k, (a, b)) in [("String", "String!"), ("[Int]", "[Int!]!"), ("[Int]", "[Int]!"), ("[Int]", "[Int!]"), ("[[Int]]", "[[Int!]!]!")].iter().enumerate() {
            add(&format!("valid_covariant_nonnull_{k}"), None, Some("covariant_nonnull"), need, ImplVar::FieldTypes(a, b));
        }
        // valid covariance: member / implementing object for union / interface
        for (k, wrap) in ["T", "T!", "[T]", "[T!]!"].iter().enumerate() {
            add(&format!("valid_covariant_named_{k}"), None, Some("covariant_named_subtype"), need, ImplVar::NamedSub { reverse: false, wrap });
            add(&format!("field_supertype_for_subtype_{k}"), Some(R_IMPL), None, need, ImplVar::NamedSub { reverse: true, wrap });
        }
        // arguments
        add("missing_required_arg", Some(R_IMPL), None, need, ImplVar::MissingArg { required: true });
        add("missing_optional_arg", Some(R_IMPL), Some("missing_optional_arg"), need, ImplVar::MissingArg { required: false });
        add("arg_same_type", None, None, need, ImplVar::ArgTypes("[Int!]", "[Int!]"));
        for (k, (a, b)) in [("Int", "String"), ("Int!", "String!"), ("[Int]", "Int"), ("Int", "[Int]"), ("Int!", "Int"), ("[Int!]", "[Int]")].iter().enumerate() {
            add(&format!("arg_different_type_{k}"), Some(R_IMPL), None, need, ImplVar::ArgTypes(a, b));
        }
        for (k, (a, b)) in [("Int", "Int!"), ("[Int]", "[Int!]"), ("[Int]", "[Int]!")].iter().enumerate() {
            add(&format!("arg_nonnull_for_nullable_{k}"), Some(R_IMPL), Some("arg_type_invariance"), need, ImplVar::ArgTypes(a, b));
        }
        add("extra_required_arg_0", Some(R_IMPL), Some("extra_required_arg"), need, ImplVar::ExtraArg { ty: "Int!", default: false });
        add("extra_required_arg_1", Some(R_IMPL), Some("extra_required_arg"), need, ImplVar::ExtraArg { ty: "[Int]!", default: false });
        add("valid_extra_optional_arg_0", None, None, need, ImplVar::ExtraArg { ty: "Int", default: false });
        add("valid_extra_optional_arg_1", None, None, need, ImplVar::ExtraArg { ty: "Int!", default: true });
        add("valid_extra_optional_arg_2", None, None, need, ImplVar::ExtraArg { ty: "[Int!]", default: false });

        for k in [Some(Kind::Object), Some(Kind::Union), Some(Kind::Scalar), Some(Kind::Enum), Some(Kind::Input), None] {
            let mut n = need_kind(k);
            n.ifaces = n.ifaces.max(target_iface as usize);
            let feature = if target_iface && k.is_none() { Some("iface_implements_unknown") } else { None };
            let w2 = if target_iface { "iface" } else { "obj" };
            v.push(op(&format!("{w2}_implements_{}", ktag(k)), Some(R_IMPL), feature, n, OpKind::ImplementsNon { target_iface, what: k }));
        }
    }

    // ---- unions ----
    for k in [Some(Kind::Interface), Some(Kind::Scalar), Some(Kind::Enum), Some(Kind::Input), Some(Kind::Union), None] {
        let mut n = need_kind(k);
        n.unions = if k == Some(Kind::Union) { 2 } else { 1 };
        v.push(op(&format!("union_member_{}", ktag(k)), Some(R_UNION), None, n, OpKind::UnionMember { what: k }));
    }

    // ---- input cycles ----
    for n in 1..=3usize {
        v.push(op(&format!("input_cycle_{n}"), Some(R_CYCLE), None, Need { inputs: n, ..Need::default() }, OpKind::InputCycle(n)));
    }
    for k in 0..4u8 {
        let inputs = if k < 2 { 1 } else { 2 };
        v.push(op(&format!("valid_input_cycle_{k}"), None, None, Need { inputs, ..Need::default() }, OpKind::ValidInputCycle(k)));
    }
    v
}

const FNAME: &str = "zz";

fn pick_name(sys: &System, r: &mut Rng, kind: Option<Kind>, not: &str) -> Option<String> {
    match kind {
        None => Some("Nope".to_string()),
        Some(k) => {
            let c: Vec<String> = sys.names_of(k).into_iter().filter(|n| n != not).collect();
            if c.is_empty() { None } else { Some(r.pick(&c).clone()) }
        }
    }
}

fn bad_shape(r: &mut Rng, base: &str) -> Ty {
    { let w: &str = *r.pick(&["T", "T!", "[T]", "[T!]!"]); Ty::parse(w).with_base(base) }
}

/// Add the same field to an interface and to every type that declares to implement it.
fn add_contract_field(sys: &mut System, iface: &str, f: &FieldDef) {
    let mut names = sys.implementers(iface);
    names.push(iface.to_string());
    for n in names {
        if let Some(t) = sys.get_mut(&n) {
            if t.field(&f.name).is_none() {
                t.fields.push(f.clone());
            }
        }
    }
}

/// Replace (or remove) the crafted field in a type and in everything implementing it.
fn set_field(sys: &mut System, ty: &str, f: Option<&FieldDef>, cascade: bool) {
    let mut names = vec![ty.to_string()];
    if cascade && sys.kind_of(ty) == Some(Kind::Interface) {
        names.extend(sys.implementers(ty));
    }
    for n in names {
        if let Some(t) = sys.get_mut(&n) {
            t.fields.retain(|x| x.name != FNAME);
            if let Some(f) = f {
                t.fields.push(f.clone());
            }
        }
    }
}

/// Apply the operator; false = not applicable to this system.
pub fn apply(op: &OpKind, sys: &mut System, r: &mut Rng) -> bool {
    match op {
        OpKind::Unchanged => true,
        OpKind::QueryMissing => {
            sys.query = "Nope".into();
            true
        }
        OpKind::QueryNon(k) => match pick_name(sys, r, Some(*k), "") {
            Some(n) => {
                sys.query = n;
                true
            }
            None => false,
        },
        OpKind::MutationMissing => {
            sys.mutation = Some("Nope".into());
            true
        }
        OpKind::MutationNon(k) => match pick_name(sys, r, Some(*k), "") {
            Some(n) => {
                sys.mutation = Some(n);
                true
            }
            None => false,
        },
        OpKind::SubscriptionMissing => {
            sys.types.retain(|t| !t.as_subscription);
            sys.subscription = Some("Nope".into());
            true
        }
        OpKind::SubscriptionNon(k) => match pick_name(sys, r, Some(*k), "") {
            Some(n) => {
                sys.types.retain(|t| !t.as_subscription);
                sys.subscription = Some(n);
                true
            }
            None => false,
        },
        OpKind::OutFieldBad { on_iface, bad } => {
            let Some(b) = pick_name(sys, r, *bad, "") else { return false };
            let f = FieldDef { name: FNAME.into(), ty: bad_shape(r, &b), args: vec![] };
            place_field(sys, r, *on_iface, f)
        }
        OpKind::ArgBad { on_iface, bad } => {
            let Some(b) = pick_name(sys, r, *bad, "") else { return false };
            let f = FieldDef { name: FNAME.into(), ty: Ty::n("Int"), args: vec![Arg::new("p", bad_shape(r, &b))] };
            place_field(sys, r, *on_iface, f)
        }
        OpKind::InputFieldBad { bad } => {
            let Some(b) = pick_name(sys, r, *bad, "") else { return false };
            let Some(t) = pick_name(sys, r, Some(Kind::Input), "") else { return false };
            let ty = bad_shape(r, &b);
            sys.get_mut(&t).unwrap().input_fields.push(Arg::new(FNAME, ty));
            true
        }
        OpKind::Impl { target_iface, var } => apply_impl(sys, r, *target_iface, var),
        OpKind::ImplementsNon { target_iface, what } => {
            let k = if *target_iface { Kind::Interface } else { Kind::Object };
            let Some(t) = pick_name(sys, r, Some(k), "") else { return false };
            let Some(x) = pick_name(sys, r, *what, &t) else { return false };
            sys.get_mut(&t).unwrap().implements.push(x);
            true
        }
        OpKind::UnionMember { what } => {
            let Some(u) = pick_name(sys, r, Some(Kind::Union), "") else { return false };
            let Some(x) = pick_name(sys, r, *what, &u) else { return false };
            sys.get_mut(&u).unwrap().members.push(x);
            true
        }
        OpKind::InputCycle(n) => {
            let mut ins = sys.names_of(Kind::Input);
            if ins.len() < *n {
                return false;
            }
            r.shuffle(&mut ins);
            ins.truncate(*n);
            for i in 0..*n {
                let to = ins[(i + 1) % n].clone();
                sys.get_mut(&ins[i]).unwrap().input_fields.push(Arg::new(FNAME, Ty::n(&to).nn()));
            }
            true
        }
        OpKind::ValidInputCycle(k) => {
            let mut ins = sys.names_of(Kind::Input);
            ins.sort_by_key(|n| n[2..].parse::<usize>().unwrap_or(0));
            match k {
                0 | 1 => {
                    let Some(a) = (!ins.is_empty()).then(|| r.pick(&ins).clone()) else { return false };
                    let ty = if *k == 0 { Ty::n(&a) } else { Ty::n(&a).nn().list().nn() };
                    sys.get_mut(&a).unwrap().input_fields.push(Arg::new(FNAME, ty));
                    true
                }
                _ => {
                    if ins.len() < 2 {
                        return false;
                    }
                    let i = r.below(ins.len() - 1);
                    let j = i + 1 + r.below(ins.len() - 1 - i);
                    let (a, b) = (ins[i].clone(), ins[j].clone());
                    // required edge goes upwards (keeps the required graph acyclic), the way back is nullable / a list
                    sys.get_mut(&a).unwrap().input_fields.push(Arg::new(FNAME, Ty::n(&b).nn()));
                    let back = if *k == 2 { Ty::n(&a) } else { Ty::n(&a).nn().list().nn() };
                    sys.get_mut(&b).unwrap().input_fields.push(Arg::new(FNAME, back));
                    true
                }
            }
        }
    }
}

fn place_field(sys: &mut System, r: &mut Rng, on_iface: bool, f: FieldDef) -> bool {
    if on_iface {
        let Some(i) = pick_name(sys, r, Some(Kind::Interface), "") else { return false };
        add_contract_field(sys, &i, &f);
    } else {
        let Some(o) = pick_name(sys, r, Some(Kind::Object), "") else { return false };
        sys.get_mut(&o).unwrap().fields.push(f);
    }
    true
}

fn apply_impl(sys: &mut System, r: &mut Rng, target_iface: bool, var: &ImplVar) -> bool {
    let k = if target_iface { Kind::Interface } else { Kind::Object };
    let cands: Vec<String> = sys
        .types
        .iter()
        .filter(|t| t.kind == k && !t.as_subscription && !t.implements.is_empty())
        .map(|t| t.name.clone())
        .collect();
    if cands.is_empty() {
        return false;
    }
    let t = r.pick(&cands).clone();
    let i = r.pick(&sys.get(&t).unwrap().implements).clone();
    let int = Ty::n("Int");
    let (contract, mine): (FieldDef, Option<FieldDef>) = match var {
        ImplVar::MissingField => (FieldDef { name: FNAME.into(), ty: int.clone(), args: vec![] }, None),
        ImplVar::FieldTypes(a, b) => (
            FieldDef { name: FNAME.into(), ty: Ty::parse(a), args: vec![] },
            Some(FieldDef { name: FNAME.into(), ty: Ty::parse(b), args: vec![] }),
        ),
        ImplVar::NamedSub { reverse, wrap } => {
            // (abstract type, member object) pairs
            let mut pairs: Vec<(String, String)> = vec![];
            for a in sys.types.iter() {
                match a.kind {
                    Kind::Interface => {
                        for o in sys.object_implementers(&a.name) {
                            pairs.push((a.name.clone(), o));
                        }
                    }
                    Kind::Union => {
                        for m in &a.members {
                            pairs.push((a.name.clone(), m.clone()));
                        }
                    }
                    _ => {}
                }
            }
            if pairs.is_empty() {
                return false;
            }
            let (abs, member) = r.pick(&pairs).clone();
            let w = Ty::parse(wrap);
            let (ci, ti) = if *reverse { (member, abs) } else { (abs, member) };
            (
                FieldDef { name: FNAME.into(), ty: w.with_base(&ci), args: vec![] },
                Some(FieldDef { name: FNAME.into(), ty: w.with_base(&ti), args: vec![] }),
            )
        }
        ImplVar::MissingArg { required } => {
            let aty = if *required { int.clone().nn() } else { int.clone() };
            (
                FieldDef { name: FNAME.into(), ty: int.clone(), args: vec![Arg::new("p", aty)] },
                Some(FieldDef { name: FNAME.into(), ty: int.clone(), args: vec![] }),
            )
        }
        ImplVar::ArgTypes(a, b) => (
            FieldDef { name: FNAME.into(), ty: int.clone(), args: vec![Arg::new("p", Ty::parse(a))] },
            Some(FieldDef { name: FNAME.into(), ty: int.clone(), args: vec![Arg::new("p", Ty::parse(b))] }),
        ),
        ImplVar::ExtraArg { ty, default } => {
            let mut a = Arg::new("x", Ty::parse(ty));
            if *default {
                a.default = Some(Value::from(1));
            }
            (
                FieldDef { name: FNAME.into(), ty: int.clone(), args: vec![] },
                Some(FieldDef { name: FNAME.into(), ty: int.clone(), args: vec![a] }),
            )
        }
    };
    add_contract_field(sys, &i, &contract);
    // a missing field is removed from the implementing type only; everything else is
    // applied to the type and (for an interface) to the types implementing it
    set_field(sys, &t, mine.as_ref(), mine.is_some());
    true
}
