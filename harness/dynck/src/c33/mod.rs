//! C33 — dynamic schemas build exactly when the type system is valid.
//!
//! Oracle: own validator (model.rs) implementing exactly the listed rules.
//! `SchemaBuilder::finish()` must be Ok iff the validator accepts; a panic in
//! finish() is a violation; every schema that builds is introspected, exported
//! (SDL) and queried — a panic there is a violation (errors are not).

mod build;
mod generate;
mod model;
mod ops;

use async_graphql::dynamic::Schema;
use futures_util::StreamExt;
use vh_core::serde_json::{Value as J, json};
use vh_core::vsched::block_on;
use vh_core::{Rng, Run, catch, rng};

use build::{INTROSPECTION_QUERY, QGen};
use generate::{Feat, gen_valid};
use model::*;
use ops::{Op, all_ops, apply};

enum Built {
    Ok(Schema),
    Rejected(String),
    Panicked(String),
}

fn try_build(sys: &System) -> Built {
    match catch(|| build::build(sys).finish()) {
        Err(p) => Built::Panicked(p),
        Ok(Ok(s)) => Built::Ok(s),
        Ok(Err(e)) => Built::Rejected(e.0),
    }
}

/// Introspect, export and query a built schema. Returns the first panic.
fn exercise(run: &Run, sys: &System, schema: &Schema, r: &mut Rng) -> Result<(), (String, String)> {
    run.count("schemas_exercised", 1);
    // introspection
    match catch(|| block_on(schema.execute(INTROSPECTION_QUERY))) {
        Err(p) => return Err(("introspection".into(), p)),
        Ok(resp) => {
            run.count("queries_executed", 1);
            if resp.errors.is_empty() {
                run.count("introspection_ok", 1);
            } else {
                run.count("introspection_with_errors", 1);
                run.sample_upto(8, json!({"introspection_error": resp.errors[0].message, "system": sys.describe()}));
            }
        }
    }
    // SDL export
    match catch(|| schema.sdl()) {
        Err(p) => return Err(("sdl".into(), p)),
        Ok(text) => {
            run.count("sdl_exports", 1);
            if async_graphql_parser::parse_schema(&text).is_ok() {
                run.count("sdl_reparses", 1);
            } else {
                run.count("sdl_does_not_reparse", 1);
            }
        }
    }
    // generated queries
    let mut queries: Vec<String> = vec![];
    if sys.kind_of(&sys.query) == Some(Kind::Object) {
        queries.push(QGen::new(sys, r, 6).operation("query", &sys.query));
        for _ in 0..2 {
            queries.push(QGen::new(sys, r, 4).operation("query", &sys.query));
        }
    } else {
        queries.push("{ __typename }".into());
    }
    if let Some(m) = &sys.mutation {
        if sys.kind_of(m) == Some(Kind::Object) {
            queries.push(QGen::new(sys, r, 6).operation("mutation", m));
        }
    }
    for q in &queries {
        match catch(|| block_on(schema.execute(q.as_str()))) {
            Err(p) => return Err((format!("query {q}"), p)),
            Ok(resp) => {
                run.count("queries_executed", 1);
                if resp.errors.is_empty() {
                    run.count("query_responses_without_errors", 1);
                } else {
                    run.count("query_responses_with_errors", 1);
                    run.seen("query_error_kinds", &vh_core::run::truncate(&strip_names(&resp.errors[0].message), 90));
                }
            }
        }
    }
    if let Some(s) = &sys.subscription {
        if let Some(t) = sys.get(s).filter(|t| t.as_subscription) {
            let q = format!("subscription {{ {} }}", t.fields[0].name);
            match catch(|| {
                block_on(async {
                    let mut st = schema.execute_stream(q.as_str());
                    let mut n = 0;
                    while let Some(_r) = st.next().await {
                        n += 1;
                        if n > 4 {
                            break;
                        }
                    }
                    n
                })
            }) {
                Err(p) => return Err((format!("subscription {q}"), p)),
                Ok(n) => {
                    run.count("queries_executed", 1);
                    run.count("subscription_items", n);
                }
            }
        }
    }
    Ok(())
}

/// Replace digits so error messages group into kinds.
fn strip_names(s: &str) -> String {
    s.chars().map(|c| if c.is_ascii_digit() { '#' } else { c }).collect()
}

fn feat_of(run: &Run) -> Feat {
    Feat {
        cov_nonnull: run.feature("covariant_nonnull"),
        cov_named: run.feature("covariant_named_subtype"),
    }
}

/// One generated case, reproducible from (seed, shard, iter, op index).
fn run_case(run: &Run, ops: &[Op], shard: u64, iter: u64, op_idx: usize) {
    let op = &ops[op_idx];
    if let Some(f) = op.feature {
        if !run.feature(f) {
            run.count("cases_skipped_feature_excluded", 1);
            return;
        }
    }
    let mut r = Rng::new(rng::mix(&[run.seed, 33, shard, iter, op_idx as u64]));
    let feat = feat_of(run);
    // draw valid systems until the operator applies
    let mut sys = None;
    for _ in 0..20 {
        let base = gen_valid(&mut r, feat, op.need);
        let base_errs = validate(&base);
        if !base_errs.is_empty() {
            run.inconclusive(&format!("generator produced an invalid base system: {:?}\n{}", base_errs, base.describe()));
            return;
        }
        let mut s = base;
        if apply(&op.kind, &mut s, &mut r) {
            sys = Some(s);
            break;
        }
        run.count("operator_not_applicable_redraw", 1);
    }
    let Some(sys) = sys else {
        run.count("operator_never_applicable", 1);
        return;
    };
    let errs = validate(&sys);
    let rules: std::collections::BTreeSet<&str> = errs.iter().map(|e| e.0).collect();
    // harness self-check: the operator must break exactly the rule it names
    match op.expect {
        None if !errs.is_empty() => {
            run.inconclusive(&format!("operator {} (valid variant) produced an invalid system: {:?}\n{}", op.tag, errs, sys.describe()));
            return;
        }
        Some(rule) if rules.len() != 1 || !rules.contains(rule) => {
            run.inconclusive(&format!("operator {} broke rules {:?}, expected exactly [{rule}]\n{}", op.tag, rules, sys.describe()));
            return;
        }
        _ => {}
    }
    judge(run, &sys, &op.tag, &errs, None, json!({"shard": shard, "iter": iter, "op": op.tag, "op_index": op_idx}), &mut r);
}

/// Build, compare with the oracle, exercise. `witness` = Some(id) for pinned witnesses.
fn judge(run: &Run, sys: &System, tag: &str, errs: &[(&'static str, String)], witness: Option<&str>, origin: J, r: &mut Rng) {
    let text = sys.describe();
    let h = rng::hash_str(&text);
    run.eval();
    run.nontrivial(h);
    let expect_valid = errs.is_empty();
    run.count(&format!("applied[{tag}]"), 1);
    let replay = json!({"origin": origin, "operator": tag, "system": text, "oracle_errors": errs.iter().map(|e| format!("{}: {}", e.0, e.1)).collect::<Vec<_>>()});
    let sig = |kind: &str, obs: &str| match witness {
        Some(w) => format!("{w}|{obs}"),
        None => format!("C33-{kind}[{tag}]:{h:016x}"),
    };
    let built = try_build(sys);
    match &built {
        Built::Panicked(p) => {
            run.count(&format!("panicked[{tag}]"), 1);
            run.violation(
                &sig("finish-panic", &format!("finish() panicked: {p}")),
                &format!("SchemaBuilder::finish() panicked ({p}) for operator {tag}; oracle says {}\n{text}", if expect_valid { "valid".to_string() } else { format!("invalid: {:?}", errs) }),
                replay.clone(),
            );
        }
        Built::Rejected(msg) => {
            run.count(&format!("rejected[{tag}]"), 1);
            if expect_valid {
                run.count("valid_rejected", 1);
                run.violation(
                    &sig("valid-rejected", &format!("rejected: {msg}")),
                    &format!("valid type system rejected by finish(): {msg:?} (operator {tag})\n{text}"),
                    replay.clone(),
                );
            } else {
                run.count("invalid_rejected", 1);
                run.sample_upto(6, json!({"operator": tag, "system": text, "oracle": errs[0].1, "finish": format!("Err({msg})")}));
            }
        }
        Built::Ok(_) => {
            run.count(&format!("built[{tag}]"), 1);
            if expect_valid {
                run.count("valid_built", 1);
                run.sample_upto(3, json!({"operator": tag, "system": text, "finish": "Ok"}));
            } else {
                run.count("invalid_built", 1);
                run.violation(
                    &sig("invalid-built", "built"),
                    &format!("invalid type system accepted by finish() (operator {tag}); oracle: {}: {}\n{text}", errs[0].0, errs[0].1),
                    replay.clone(),
                );
            }
        }
    }
    if let Built::Ok(schema) = &built {
        if let Err((what, p)) = exercise(run, sys, schema, r) {
            run.count("exercise_panics", 1);
            let loc = p.rsplit(" @ ").next().unwrap_or("").to_string();
            run.violation(
                &match witness {
                    Some(w) => format!("{w}|built, then panicked in {} at {loc}", what.split(' ').next().unwrap_or("")),
                    None => format!("C33-exercise-panic[{tag}]:{h:016x}"),
                },
                &format!("schema built by finish() panicked during {what}: {p}\n{text}"),
                replay,
            );
        }
    }
}

// ---------------------------------------------------------------------------
// pinned witnesses (one per distinct defect seen on the unchanged tree)
// ---------------------------------------------------------------------------

fn base_with_iface(iface_fields: Vec<FieldDef>, obj_fields: Vec<FieldDef>) -> System {
    let mut i = TypeDef::new("I", Kind::Interface);
    i.fields = iface_fields;
    let mut o = TypeDef::new("O", Kind::Object);
    o.implements = vec!["I".into()];
    o.fields = obj_fields;
    let mut q = TypeDef::new("Query", Kind::Object);
    q.fields = vec![
        FieldDef { name: "i".into(), ty: Ty::n("I"), args: vec![] },
        FieldDef { name: "o".into(), ty: Ty::n("O"), args: vec![] },
    ];
    System { query: "Query".into(), mutation: None, subscription: None, types: vec![q, i, o] }
}

fn fd(name: &str, ty: &str, args: Vec<Arg>) -> FieldDef {
    FieldDef { name: name.into(), ty: Ty::parse(ty), args }
}

fn witnesses() -> Vec<(&'static str, System)> {
    let mut v = vec![];
    // valid: non-null implementation of a nullable interface field
    v.push(("C33-W-covariant-nonnull", base_with_iface(vec![fd("x", "String", vec![])], vec![fd("x", "String!", vec![])])));
    // invalid: nullable implementation of a non-null interface field
    v.push(("C33-W-nullable-for-nonnull", base_with_iface(vec![fd("x", "String!", vec![])], vec![fd("x", "String", vec![])])));
    // valid: object member where the interface declares a union / an interface
    {
        let mut s = base_with_iface(vec![fd("x", "U", vec![])], vec![fd("x", "O", vec![])]);
        let mut u = TypeDef::new("U", Kind::Union);
        u.members = vec!["O".into()];
        s.types.push(u);
        v.push(("C33-W-covariant-union-member", s));
    }
    v.push(("C33-W-covariant-implementing-object", base_with_iface(vec![fd("x", "I", vec![])], vec![fd("x", "O", vec![])])));
    // invalid: implementation lacks an optional argument of the interface field
    v.push((
        "C33-W-missing-optional-arg",
        base_with_iface(vec![fd("x", "Int", vec![Arg::new("p", Ty::parse("Int"))])], vec![fd("x", "Int", vec![])]),
    ));
    // invalid: argument type differs (non-null where the interface is nullable)
    v.push((
        "C33-W-arg-nonnull-for-nullable",
        base_with_iface(
            vec![fd("x", "Int", vec![Arg::new("p", Ty::parse("Int"))])],
            vec![fd("x", "Int", vec![Arg::new("p", Ty::parse("Int!"))])],
        ),
    ));
    // invalid: extra required argument
    v.push((
        "C33-W-extra-required-arg",
        base_with_iface(vec![fd("x", "Int", vec![])], vec![fd("x", "Int", vec![Arg::new("extra", Ty::parse("Int!"))])]),
    ));
    // invalid: subscription root names a type that does not exist
    {
        let mut s = base_with_iface(vec![fd("x", "Int", vec![])], vec![fd("x", "Int", vec![])]);
        s.subscription = Some("Nope".into());
        v.push(("C33-W-subscription-root-missing", s));
    }
    // invalid: interface implements a name that does not exist
    {
        let mut s = base_with_iface(vec![fd("x", "Int", vec![])], vec![fd("x", "Int", vec![])]);
        s.get_mut("I").unwrap().implements.push("Nope".into());
        v.push(("C33-W-iface-implements-unknown", s));
    }
    v
}

pub fn main() {
    let mut run = Run::from_args(
        "exploration",
        "random valid GraphQL type systems of at most 10 types (objects, interfaces incl. interface-implements-interface, unions, \
         enums, scalars, input objects; named/list/non-null field types; arguments with optional defaults; optional mutation and \
         subscription roots) registered in shuffled order through the real dynamic-schema API, plus one single-rule violation \
         operator (or a crafted valid variant) applied alone to a fresh valid system; the harness validator must attribute exactly \
         the operator's rule; distinct by hash of the printed type system; every built schema is introspected, exported as SDL and \
         queried with generated queries (depth 3, inline fragments on members, aliases, generated argument literals)",
    );
    run.assume("the harness validator (c33/model.rs) implements the listed type validation rules of the GraphQL specification (October 2021, 3.6-3.10) exactly; it was written from the specification, not from check.rs");
    run.assume("type systems violating only other rules (empty enum/union, duplicate names, __ names, object without fields, missing transitive implements) are never generated");
    run.assume("the subscription root is registered through dynamic::Subscription (the API's representation of the subscription object type)");
    run.assume("an unknown name in `implements` counts as 'implements a name that is not an interface'");
    run.assume("errors inside responses of exercised schemas are not violations; only panics are");
    run.set_floors(run.scale(20_000, 300_000), run.scale(10_000, 150_000));
    run.require_counter("valid_built");
    run.require_counter("invalid_rejected");
    run.require_counter("schemas_exercised");
    run.require_counter("queries_executed");
    run.set_max_samples(12);

    let ops = all_ops();

    if let Some(path) = run.replay.clone() {
        let text = std::fs::read_to_string(&path).unwrap_or_default();
        let v: J = vh_core::serde_json::from_str(&text).unwrap_or(J::Null);
        let o = &v["case"]["origin"];
        if let (Some(shard), Some(iter), Some(op)) = (o["shard"].as_u64(), o["iter"].as_u64(), o["op_index"].as_u64()) {
            println!("replaying shard={shard} iter={iter} op={}", ops[op as usize].tag);
            run_case(&run, &ops, shard, iter, op as usize);
        } else {
            println!("replay file has no generated origin (pinned witnesses run on every invocation)");
        }
        run.finish();
    }

    // pinned witnesses, always
    for (id, sys) in witnesses() {
        let errs = validate(&sys);
        let mut r = Rng::new(rng::mix(&[run.seed, 33, 999]));
        judge(&run, &sys, id, &errs, Some(id), json!({"witness": id}), &mut r);
    }

    // generated workload: each round = every operator once + extra plain valid systems
    let shards = run.scale(8, 16);
    let rounds = run.scale(60, 400);
    let extra_valid = 40u64; // plain valid systems per round in addition to the operators
    std::thread::scope(|s| {
        for shard in 0..shards {
            let run = &run;
            let ops = &ops;
            s.spawn(move || {
                for round in 0..rounds {
                    for (k, _) in ops.iter().enumerate() {
                        run_case(run, ops, shard, round, k);
                    }
                    for e in 0..extra_valid {
                        run_case(run, ops, shard, 1_000_000 + round * extra_valid + e, 0);
                    }
                    if run.elapsed_s() > run.scale(50, 400) as f64 {
                        run.note(&format!("shard {shard} stopped at round {round} (time budget)"));
                        break;
                    }
                }
            });
        }
    });
    run.extra("operators", json!(ops.iter().map(|o| json!({"tag": o.tag, "expect": o.expect.unwrap_or("valid, must build"), "feature": o.feature})).collect::<Vec<_>>()));
    run.finish();
}
