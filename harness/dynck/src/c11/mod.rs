//! C11 — request checking work is polynomial in the document size.
//!
//! Monitor: the work counter hook `async_graphql::verif_hooks` (thread-local),
//! read around `Schema::execute` on the same thread. Oracle: counted work
//! <= K*S^2 + K0 with S counted on the harness's own document AST.

mod doc;
mod families;
mod schemas;

use std::collections::BTreeMap;
use std::sync::atomic::{AtomicU64, Ordering};
use std::sync::{Arc, Mutex};
use std::time::{Duration, Instant};

use async_graphql::{Request, verif_hooks};
use vh_core::serde_json::{Value as J, json};
use vh_core::vsched::block_on;
use vh_core::{Rng, Run, rng};

use doc::Doc;
use families::{Case, families, fanout_doc, random_doc};
use schemas::{AnySchema, Cfg, build};

const K: f64 = 64.0;
const K0: f64 = 10_000.0;

fn bound(s: u64) -> f64 {
    K * (s as f64) * (s as f64) + K0
}

struct Meas {
    work: u64,
    wall_ms: f64,
    errors: usize,
    first_error: String,
}

fn measure(schema: &AnySchema, text: &str, op_name: &Option<String>) -> Meas {
    let mut req = Request::new(text);
    if let Some(n) = op_name {
        req = req.operation_name(n.clone());
    }
    verif_hooks::reset();
    let t = Instant::now();
    let resp = block_on(schema.execute(req));
    let work = verif_hooks::read();
    Meas {
        work,
        wall_ms: t.elapsed().as_secs_f64() * 1000.0,
        errors: resp.errors.len(),
        first_error: resp.errors.first().map(|e| e.message.clone()).unwrap_or_default(),
    }
}

#[derive(Default, Clone)]
struct Stats {
    cases: u64,
    evaluations: u64,
    max_s: u64,
    max_bytes: usize,
    max_work: u64,
    max_ratio_s2: f64,       // max work / S^2 over cases with S >= 16
    max_ratio_s: f64,        // max work / S
    max_frac_of_bound: f64,  // max work / (K S^2 + K0)
    max_wall_ms: f64,
    worst: String,
    stopped_at: Option<String>,
}

impl Stats {
    fn to_json(&self) -> J {
        json!({
            "cases": self.cases, "evaluations": self.evaluations, "max_S": self.max_s, "max_bytes": self.max_bytes,
            "max_work": self.max_work,
            "max_work_over_S2_for_S_ge_16": (self.max_ratio_s2 * 1000.0).round() / 1000.0,
            "max_work_over_S": (self.max_ratio_s * 100.0).round() / 100.0,
            "max_work_over_bound": (self.max_frac_of_bound * 10000.0).round() / 10000.0,
            "max_wall_ms": (self.max_wall_ms * 10.0).round() / 10.0,
            "worst_case": self.worst, "stopped_at_first_violating_size": self.stopped_at,
        })
    }
}

struct Shared {
    run: Run,
    stats: Mutex<BTreeMap<String, Stats>>,
    /// per worker: milliseconds since start of its last progress, and what it is doing
    progress: Mutex<BTreeMap<String, (Instant, String)>>,
    t0: Instant,
}

impl Shared {
    fn tick(&self, worker: &str, what: String) {
        self.progress.lock().unwrap().insert(worker.to_string(), (Instant::now(), what));
    }
    fn done(&self, worker: &str) {
        self.progress.lock().unwrap().remove(worker);
    }
}

/// Measure one document under the given configurations. Returns true if some
/// configuration exceeded the bound.
fn check_doc(sh: &Shared, worker: &str, family: &str, label: &str, doc: &Doc, op_name: &Option<String>, schemas: &[(Cfg, AnySchema)], pick: &[usize]) -> bool {
    let run = &sh.run;
    let text = doc.print();
    let s = doc.size();
    let b = bound(s);
    let mut violated = false;
    let mut over: Vec<String> = vec![];
    let mut local = Stats::default();
    local.cases = 1;
    local.max_s = s;
    local.max_bytes = text.len();
    for &ci in pick {
        let (cfg, schema) = &schemas[ci];
        sh.tick(worker, format!("{family} {label} {} ({} bytes)", cfg.tag(), text.len()));
        let m = measure(schema, &text, op_name);
        run.eval();
        local.evaluations += 1;
        if s >= 8 {
            run.nontrivial(rng::hash_str(&format!("{}|{}", cfg.tag(), text)));
        }
        if m.work > 0 {
            run.count("work_counter_ticks", m.work);
        }
        run.count(if m.errors == 0 { "requests_executed_without_errors" } else { "requests_rejected_or_with_errors" }, 1);
        if m.errors > 0 {
            run.seen("rejection_kinds", &vh_core::run::truncate(&m.first_error.chars().map(|c| if c.is_ascii_digit() { '#' } else { c }).collect::<String>(), 80));
        }
        let w = m.work as f64;
        if m.work > local.max_work {
            local.max_work = m.work;
        }
        if s >= 16 && w / (s as f64 * s as f64) > local.max_ratio_s2 {
            local.max_ratio_s2 = w / (s as f64 * s as f64);
        }
        if w / s.max(1) as f64 > local.max_ratio_s {
            local.max_ratio_s = w / s.max(1) as f64;
        }
        if w / b > local.max_frac_of_bound {
            local.max_frac_of_bound = w / b;
            local.worst = format!("{label} {} S={s} work={} bound={}", cfg.tag(), m.work, b as u64);
        }
        if m.wall_ms > local.max_wall_ms {
            local.max_wall_ms = m.wall_ms;
        }
        run.sample(json!({"family": family, "case": label, "config": cfg.tag(), "S": s, "bytes": text.len(), "work": m.work, "bound": b as u64, "wall_ms": (m.wall_ms * 100.0).round() / 100.0, "errors": m.errors, "document_head": vh_core::run::truncate(&text, 160)}));
        if w > b {
            violated = true;
            run.count("bound_exceeded", 1);
            over.push(format!("{}: work={} ({:.1} ms, {} response errors)", cfg.tag(), m.work, m.wall_ms, m.errors));
        }
    }
    if violated {
        run.violation(
            &format!("C11-{family}:{:016x}", rng::hash_str(&text)),
            &format!(
                "checking work exceeds K*S^2+K0 = {} (S={s}, {} bytes, inlined selections {:.0}) for family {family} {label} in {} of {} configurations: {}",
                b as u64, text.len(), doc.inlined_selections(), over.len(), pick.len(), over.join("; ")
            ),
            json!({"family": family, "case": label, "S": s, "bound": b as u64, "over": over, "operation_name": op_name, "document": vh_core::run::truncate(&text, 20_000)}),
        );
    }
    let mut g = sh.stats.lock().unwrap();
    let st = g.entry(family.to_string()).or_default();
    st.cases += 1;
    st.evaluations += local.evaluations;
    st.max_s = st.max_s.max(local.max_s);
    st.max_bytes = st.max_bytes.max(local.max_bytes);
    st.max_work = st.max_work.max(local.max_work);
    st.max_ratio_s2 = st.max_ratio_s2.max(local.max_ratio_s2);
    st.max_ratio_s = st.max_ratio_s.max(local.max_ratio_s);
    st.max_wall_ms = st.max_wall_ms.max(local.max_wall_ms);
    if local.max_frac_of_bound > st.max_frac_of_bound {
        st.max_frac_of_bound = local.max_frac_of_bound;
        st.worst = local.worst;
    }
    if violated && st.stopped_at.is_none() {
        st.stopped_at = Some(label.to_string());
    }
    violated
}

fn all_schemas() -> Vec<(Cfg, AnySchema)> {
    Cfg::all().into_iter().map(|c| (c, build(c))).collect()
}

/// The pinned witness: chain k=2, length 14, single operation. Also measures
/// which passes re-walk (attribution table, evidence only).
fn witness(sh: &Shared) {
    let run = &sh.run;
    let schemas = all_schemas();
    let mut table = vec![];
    let mut over: Vec<String> = vec![];
    let mut attribution = vec![];
    for len in [10usize, 11, 12, 13, 14] {
        let (doc, op_name) = fanout_doc(2, len, false, false);
        let text = doc.print();
        let s = doc.size();
        let ninl = doc.inlined_selections();
        let mut by_cfg: BTreeMap<String, u64> = BTreeMap::new();
        for (cfg, schema) in &schemas {
            sh.tick("witness", format!("witness len={len} {}", cfg.tag()));
            let m = measure(schema, &text, &op_name);
            run.eval();
            run.nontrivial(rng::hash_str(&format!("{}|{}", cfg.tag(), text)));
            run.count("work_counter_ticks", m.work);
            by_cfg.insert(cfg.tag(), m.work);
            if len == 14 {
                table.push(json!({"config": cfg.tag(), "work": m.work, "bound": bound(s) as u64, "wall_ms": (m.wall_ms * 10.0).round() / 10.0, "response_errors": m.errors, "first_error": m.first_error}));
                if m.work as f64 > bound(s) {
                    over.push(format!("{}: work={}", cfg.tag(), m.work));
                }
            }
        }
        let g = |t: &str| *by_cfg.get(t).unwrap_or(&0) as f64;
        let fast = g("static/Fast/no-limits");
        let fast_dir = g("static/Fast/directives-limit-only");
        let strict = g("static/Strict/no-limits");
        attribution.push(json!({
            "chain_len": len, "S": s, "bytes": text.len(), "inlined_selections": ninl,
            "Fast_no_limits(check_recursive_depth + inline visitor pass)": fast,
            "…over_inlined_selections": (fast / ninl * 1000.0).round() / 1000.0,
            "check_max_directives_walk(Fast directives-limit-only minus Fast no-limits)": fast_dir - fast,
            "…over_inlined_selections ": ((fast_dir - fast) / ninl * 1000.0).round() / 1000.0,
            "Strict_rules_pass_incl_FindConflicts(Strict minus Fast)": strict - fast,
            "dynamic_equals_static": by_cfg.iter().filter(|(k, _)| k.starts_with("static/")).all(|(k, v)| by_cfg.get(&k.replace("static/", "dynamic/")) == Some(v)),
        }));
    }
    run.extra("witness_k2_len14_by_config", json!(table));
    run.extra("attribution_chain_k2", json!(attribution));
    let (doc, _) = fanout_doc(2, 14, false, false);
    if !over.is_empty() {
        run.violation(
            "C11-fragment-fanout-k2-len14|work>bound",
            &format!(
                "chain of 14 fragments on Query, each spreading the next twice ({} bytes, S={}): checking work exceeds K*S^2+K0={} in {} of {} configurations: {}",
                doc.print().len(), doc.size(), bound(doc.size()) as u64, over.len(), schemas.len(), over.join("; ")
            ),
            json!({"document": doc.print(), "by_config": table}),
        );
    } else {
        run.count("witness_within_bound", 1);
    }
    sh.done("witness");
}

fn family_worker(sh: Arc<Shared>, name: String, cases: Vec<Case>) {
    let schemas = all_schemas();
    let all: Vec<usize> = (0..schemas.len()).collect();
    for c in &cases {
        let v = check_doc(&sh, &name, &name, &c.label, &c.doc, &c.op_name, &schemas, &all);
        if v {
            break; // sizes are increasing: stop the family at the first violating size
        }
    }
    sh.done(&name);
}

fn random_worker(sh: Arc<Shared>, shard: u64, n: u64, budget_s: f64) {
    let worker = format!("random-{shard}");
    let schemas = all_schemas();
    let all: Vec<usize> = (0..schemas.len()).collect();
    let multi = sh.run.feature("fragment_fanout");
    let mut r = Rng::new(rng::mix(&[sh.run.seed, 11, shard]));
    for i in 0..n {
        // log-uniform target size: 5 .. ~9000 nodes (0.1 .. 64 KB)
        let target = (5.0 * (1800.0f64).powf(r.f64_unit())) as usize;
        let (mut doc, mut op_name) = random_doc(&mut r, target, multi);
        let mut tries = 0;
        while doc.print().len() > 64 * 1024 && tries < 5 {
            let t = (target / 2).max(5);
            (doc, op_name) = random_doc(&mut r, t, multi);
            tries += 1;
        }
        let bytes = doc.print().len();
        sh.run.seen("random_document_size_classes", match bytes {
            0..=255 => "<256B", 256..=1023 => "256B-1KB", 1024..=4095 => "1-4KB", 4096..=16383 => "4-16KB", _ => "16-64KB",
        });
        check_doc(&sh, &worker, "random-documents", &format!("shard={shard} i={i}"), &doc, &op_name, &schemas, &all);
        if sh.t0.elapsed().as_secs_f64() > budget_s {
            sh.run.note(&format!("random shard {shard} stopped after {} documents (time budget)", i + 1));
            break;
        }
    }
    sh.done(&worker);
}

/// Watchdog: every live worker must finish one execute within the limit;
/// otherwise the run is INCONCLUSIVE (never a violation) and ends at once.
fn wait_all(sh: &Arc<Shared>, live: &Arc<AtomicU64>, watchdog: Duration) {
    loop {
        std::thread::sleep(Duration::from_millis(20));
        if live.load(Ordering::SeqCst) == 0 {
            return;
        }
        let stuck: Option<(String, String, f64)> = sh
            .progress
            .lock()
            .unwrap()
            .iter()
            .find(|(_, (t, _))| t.elapsed() > watchdog)
            .map(|(k, (t, w))| (k.clone(), w.clone(), t.elapsed().as_secs_f64()));
        if let Some((worker, what, secs)) = stuck {
            sh.run.inconclusive(&format!("watchdog: worker {worker} made no progress for {secs:.0} s in: {what}"));
            std::process::exit(sh.run.finish_code());
        }
    }
}

pub fn main() {
    let mut run = Run::from_args(
        "exploration",
        "documents from adversarial families in increasing size (fragment fan-out chains k=2,3 direct / in an unselected operation / \
         wrapped in inline fragments, diamonds, two-level wide fan-out, linear chains, flat multi-spread, wide overlapping response \
         keys, deep inline-fragment and field nesting up to and past the recursion limit, many operations, many unused/used fragments, \
         many variables+directives) and random valid documents of 0.1-64 KB, each executed against a derive-built and a dynamic schema \
         of the same shape in Strict and Fast mode with no / generous / tight / directives-only limits (16 configurations); a case is \
         non-trivial when the document has at least 8 syntactic nodes; distinct by hash of (configuration, document text)",
    );
    run.assume("the work counter hook ticks once per selection in validation::visitor::visit_selection, check_recursive_depth, check_max_directives and FindConflicts::find (hook commit in /repo, feature verif-hooks)");
    run.assume("S = selections + fragment definitions + arguments + directives + variable definitions, counted on the harness's own AST");
    run.assume("parsing work itself is not counted by the hook (the parser is exercised by C12); execution is trivial (constant resolvers, one-element lists)");
    run.assume("a family stops at the first size that exceeds the bound; a wall-clock watchdog only yields INCONCLUSIVE");
    run.set_floors(run.scale(3_000, 30_000), run.scale(2_000, 20_000));
    run.require_counter("work_counter_ticks");
    run.require_counter("requests_executed_without_errors");
    run.set_max_samples(10);
    let thorough = run.is_thorough();
    let watchdog = Duration::from_secs(run.scale(30, 60));
    let fanout_on = run.feature("fragment_fanout");
    let replay = run.replay.clone();

    let sh = Arc::new(Shared { run, stats: Mutex::new(BTreeMap::new()), progress: Mutex::new(BTreeMap::new()), t0: Instant::now() });

    if let Some(path) = replay {
        let text = std::fs::read_to_string(&path).unwrap_or_default();
        let v: J = vh_core::serde_json::from_str(&text).unwrap_or(J::Null);
        let c = &v["case"];
        if let Some(d) = c["document"].as_str() {
            let op_name = c["operation_name"].as_str().map(|s| s.to_string());
            for (cfg, schema) in all_schemas() {
                if c["config"].as_str().map(|t| t == cfg.tag()).unwrap_or(true) {
                    let m = measure(&schema, d, &op_name);
                    println!("replay {}: work={} wall_ms={:.1} errors={} {}", cfg.tag(), m.work, m.wall_ms, m.errors, m.first_error);
                }
            }
        }
        std::process::exit(sh.run.finish_code());
    }

    let live = Arc::new(AtomicU64::new(0));
    let mut handles = vec![];
    let spawn = |name: String, f: Box<dyn FnOnce() + Send>| {
        let live = live.clone();
        live.fetch_add(1, Ordering::SeqCst);
        std::thread::Builder::new()
            .name(name)
            .stack_size(512 << 20)
            .spawn(move || {
                f();
                live.fetch_sub(1, Ordering::SeqCst);
            })
            .expect("spawn")
    };

    // pinned witness (always)
    {
        let sh2 = sh.clone();
        sh.tick("witness", "starting".into());
        handles.push(spawn("witness".into(), Box::new(move || witness(&sh2))));
    }
    wait_all(&sh, &live, watchdog);
    // families
    for fam in families(thorough) {
        if fam.guarded && !fanout_on {
            sh.run.count("families_skipped_feature_excluded", 1);
            continue;
        }
        sh.run.seen("families_run", &fam.name);
        let sh2 = sh.clone();
        let name = fam.name.clone();
        sh.tick(&name, "starting".into());
        handles.push(spawn(name.clone(), Box::new(move || family_worker(sh2, name, fam.cases))));
    }
    // random documents
    let shards = sh.run.scale(6, 12);
    let per_shard = sh.run.scale(160, 1500);
    let budget_s = sh.run.scale(40, 330) as f64;
    for shard in 0..shards {
        let sh2 = sh.clone();
        let w = format!("random-{shard}");
        sh.tick(&w, "starting".into());
        handles.push(spawn(w, Box::new(move || random_worker(sh2, shard, per_shard, budget_s))));
    }

    wait_all(&sh, &live, watchdog);
    if live.load(Ordering::SeqCst) == 0 {
        for h in handles {
            let _ = h.join();
        }
    }

    // per-family calibration
    let stats = sh.stats.lock().unwrap().clone();
    let mut fam_json = serde_json::Map::new();
    let mut clean_max = 0.0f64;
    let mut clean_worst = String::new();
    for (k, v) in &stats {
        fam_json.insert(k.clone(), v.to_json());
        let guarded = k.starts_with("fanout-") || k == "diamond" || k == "two-level-wide-fanout";
        if !guarded && v.max_frac_of_bound > clean_max {
            clean_max = v.max_frac_of_bound;
            clean_worst = format!("{k}: {}", v.worst);
        }
        println!(
            "family {k}: cases={} max_S={} max_work={} max work/S^2(S>=16)={:.3} max work/S={:.1} max work/bound={:.4}{}",
            v.cases, v.max_s, v.max_work, v.max_ratio_s2, v.max_ratio_s, v.max_frac_of_bound,
            v.stopped_at.as_ref().map(|s| format!(" STOPPED at {s}")).unwrap_or_default()
        );
    }
    sh.run.extra("families", J::Object(fam_json));
    sh.run.extra("bound", json!({"K": K, "K0": K0, "max_work_over_bound_on_clean_families": clean_max, "closest_clean_case": clean_worst}));
    if clean_max > 0.25 && clean_max <= 1.0 {
        sh.run.note(&format!("calibration: a non-adversarial family comes within 4x of the bound: {clean_worst} (work/bound = {clean_max:.3})"));
    }
    std::process::exit(sh.run.finish_code());
}
