//! The two schemas of C11 with the same shape: derive-built and dynamic.
//!
//!   type Query { a: A  b: B  list: [A]  node: Node  any: AB  n(x: Int): Int }
//!   type A implements Node { id: Int name: String b: B me: A node: Node any: AB n(x: Int): Int }
//!   type B implements Node { id: Int title: String a: A tags: [String] n(x: Int): Int }
//!   interface Node { id: Int }      union AB = A | B
//! Every resolver returns a constant; lists have one element.

use async_graphql::dynamic as d;
use async_graphql::{EmptyMutation, EmptySubscription, Interface, Object, Request, Response, Union, ValidationMode, Value};

pub struct Query;
pub struct A;
pub struct B;

#[derive(Interface)]
#[graphql(field(name = "id", ty = "Option<i32>"))]
pub enum Node {
    A(A),
    B(B),
}

#[derive(Union)]
pub enum AB {
    A(A),
    B(B),
}

#[Object]
impl Query {
    async fn a(&self) -> Option<A> { Some(A) }
    async fn b(&self) -> Option<B> { Some(B) }
    async fn list(&self) -> Option<Vec<Option<A>>> { Some(vec![Some(A)]) }
    async fn node(&self) -> Option<Node> { Some(Node::A(A)) }
    async fn any(&self) -> Option<AB> { Some(AB::B(B)) }
    async fn n(&self, x: Option<i32>) -> Option<i32> { Some(x.unwrap_or(1)) }
}

#[Object]
impl A {
    async fn id(&self) -> Option<i32> { Some(1) }
    async fn name(&self) -> Option<String> { Some("a".into()) }
    async fn b(&self) -> Option<B> { Some(B) }
    async fn me(&self) -> Option<A> { Some(A) }
    async fn node(&self) -> Option<Node> { Some(Node::B(B)) }
    async fn any(&self) -> Option<AB> { Some(AB::A(A)) }
    async fn n(&self, x: Option<i32>) -> Option<i32> { Some(x.unwrap_or(1)) }
}

#[Object]
impl B {
    async fn id(&self) -> Option<i32> { Some(2) }
    async fn title(&self) -> Option<String> { Some("b".into()) }
    async fn a(&self) -> Option<A> { Some(A) }
    async fn tags(&self) -> Option<Vec<Option<String>>> { Some(vec![Some("t".into())]) }
    async fn n(&self, x: Option<i32>) -> Option<i32> { Some(x.unwrap_or(1)) }
}

#[derive(Clone, Copy, Debug, PartialEq, Eq)]
pub enum Limits {
    /// nothing configured (recursive depth default 32)
    None,
    /// every limit configured, generous enough not to reject
    Generous,
    /// every limit configured tightly (a large document is rejected — after it was checked)
    Tight,
    /// only limit_directives configured (adds the check_max_directives walk)
    DirectivesOnly,
}

#[derive(Clone, Copy, Debug, PartialEq, Eq)]
pub struct Cfg {
    pub dynamic: bool,
    pub fast: bool,
    pub limits: Limits,
}

impl Cfg {
    pub fn tag(&self) -> String {
        format!(
            "{}/{}/{}",
            if self.dynamic { "dynamic" } else { "static" },
            if self.fast { "Fast" } else { "Strict" },
            match self.limits {
                Limits::None => "no-limits",
                Limits::Generous => "generous-limits",
                Limits::Tight => "tight-limits",
                Limits::DirectivesOnly => "directives-limit-only",
            }
        )
    }
    pub fn all() -> Vec<Cfg> {
        let mut v = vec![];
        for dynamic in [false, true] {
            for fast in [false, true] {
                for limits in [Limits::None, Limits::Generous, Limits::Tight, Limits::DirectivesOnly] {
                    v.push(Cfg { dynamic, fast, limits });
                }
            }
        }
        v
    }
}

pub const GENEROUS_DEPTH: usize = 100_000;
pub const GENEROUS_COMPLEXITY: usize = usize::MAX / 4;
pub const GENEROUS_RECURSION: usize = 300;
pub const GENEROUS_DIRECTIVES: usize = 64;

pub enum AnySchema {
    Static(async_graphql::Schema<Query, EmptyMutation, EmptySubscription>),
    Dynamic(d::Schema),
}

impl AnySchema {
    pub async fn execute(&self, req: Request) -> Response {
        match self {
            AnySchema::Static(s) => s.execute(req).await,
            AnySchema::Dynamic(s) => s.execute(req).await,
        }
    }
}

fn c_int(v: i32) -> impl for<'a> Fn(d::ResolverContext<'a>) -> d::FieldFuture<'a> + Send + Sync + 'static {
    move |_| d::FieldFuture::Value(Some(d::FieldValue::value(v)))
}
fn c_str(v: &'static str) -> impl for<'a> Fn(d::ResolverContext<'a>) -> d::FieldFuture<'a> + Send + Sync + 'static {
    move |_| d::FieldFuture::Value(Some(d::FieldValue::value(v)))
}
fn c_obj() -> impl for<'a> Fn(d::ResolverContext<'a>) -> d::FieldFuture<'a> + Send + Sync + 'static {
    move |_| d::FieldFuture::Value(Some(d::FieldValue::owned_any(0u8)))
}
fn c_typed(t: &'static str) -> impl for<'a> Fn(d::ResolverContext<'a>) -> d::FieldFuture<'a> + Send + Sync + 'static {
    move |_| d::FieldFuture::Value(Some(d::FieldValue::owned_any(0u8).with_type(t)))
}
fn n_field() -> d::Field {
    d::Field::new("n", d::TypeRef::named("Int"), |ctx| {
        let v = ctx.args.get("x").and_then(|v| v.i64().ok()).unwrap_or(1);
        d::FieldFuture::Value(Some(d::FieldValue::value(Value::from(v))))
    })
    .argument(d::InputValue::new("x", d::TypeRef::named("Int")))
}

pub fn build(cfg: Cfg) -> AnySchema {
    let mode = if cfg.fast { ValidationMode::Fast } else { ValidationMode::Strict };
    if !cfg.dynamic {
        let mut b = async_graphql::Schema::build(Query, EmptyMutation, EmptySubscription).validation_mode(mode);
        b = match cfg.limits {
            Limits::None => b,
            Limits::Generous => b
                .limit_depth(GENEROUS_DEPTH)
                .limit_complexity(GENEROUS_COMPLEXITY)
                .limit_recursive_depth(GENEROUS_RECURSION)
                .limit_directives(GENEROUS_DIRECTIVES),
            Limits::Tight => b.limit_depth(6).limit_complexity(40).limit_recursive_depth(32).limit_directives(4),
            Limits::DirectivesOnly => b.limit_directives(GENEROUS_DIRECTIVES),
        };
        AnySchema::Static(b.finish())
    } else {
        let t = |n: &str| d::TypeRef::named(n);
        let query = d::Object::new("Query")
            .field(d::Field::new("a", t("A"), c_obj()))
            .field(d::Field::new("b", t("B"), c_obj()))
            .field(d::Field::new("list", d::TypeRef::named_list("A"), |_| {
                d::FieldFuture::Value(Some(d::FieldValue::list(vec![d::FieldValue::owned_any(0u8)])))
            }))
            .field(d::Field::new("node", t("Node"), c_typed("A")))
            .field(d::Field::new("any", t("AB"), c_typed("B")))
            .field(n_field());
        let a = d::Object::new("A")
            .implement("Node")
            .field(d::Field::new("id", t("Int"), c_int(1)))
            .field(d::Field::new("name", t("String"), c_str("a")))
            .field(d::Field::new("b", t("B"), c_obj()))
            .field(d::Field::new("me", t("A"), c_obj()))
            .field(d::Field::new("node", t("Node"), c_typed("B")))
            .field(d::Field::new("any", t("AB"), c_typed("A")))
            .field(n_field());
        let b_ = d::Object::new("B")
            .implement("Node")
            .field(d::Field::new("id", t("Int"), c_int(2)))
            .field(d::Field::new("title", t("String"), c_str("b")))
            .field(d::Field::new("a", t("A"), c_obj()))
            .field(d::Field::new("tags", d::TypeRef::named_list("String"), |_| {
                d::FieldFuture::Value(Some(d::FieldValue::list(vec![d::FieldValue::value("t")])))
            }))
            .field(n_field());
        let node = d::Interface::new("Node").field(d::InterfaceField::new("id", t("Int")));
        let ab = d::Union::new("AB").possible_type("A").possible_type("B");
        let mut b = d::Schema::build("Query", None, None)
            .register(query)
            .register(a)
            .register(b_)
            .register(node)
            .register(ab)
            .validation_mode(mode);
        b = match cfg.limits {
            Limits::None => b,
            Limits::Generous => b
                .limit_depth(GENEROUS_DEPTH)
                .limit_complexity(GENEROUS_COMPLEXITY)
                .limit_recursive_depth(GENEROUS_RECURSION)
                .limit_directives(GENEROUS_DIRECTIVES),
            Limits::Tight => b.limit_depth(6).limit_complexity(40).limit_recursive_depth(32).limit_directives(4),
            Limits::DirectivesOnly => b.limit_directives(GENEROUS_DIRECTIVES),
        };
        AnySchema::Dynamic(b.finish().expect("C11 dynamic schema must build"))
    }
}

/// Type model of the fixed schema for the random document generator:
/// (type, [(field, has optional Int argument x, result composite type or "")]).
pub const SHAPE: &[(&str, &[(&str, bool, &str)])] = &[
    ("Query", &[("a", false, "A"), ("b", false, "B"), ("list", false, "A"), ("node", false, "Node"), ("any", false, "AB"), ("n", true, "")]),
    ("A", &[("id", false, ""), ("name", false, ""), ("b", false, "B"), ("me", false, "A"), ("node", false, "Node"), ("any", false, "AB"), ("n", true, "")]),
    ("B", &[("id", false, ""), ("title", false, ""), ("a", false, "A"), ("tags", false, ""), ("n", true, "")]),
    ("Node", &[("id", false, "")]),
    ("AB", &[]),
];

/// Concrete object types a fragment may be conditioned on inside the given type.
pub fn possible(ty: &str) -> &'static [&'static str] {
    match ty {
        "Node" | "AB" => &["A", "B"],
        "A" => &["A"],
        "B" => &["B"],
        _ => &["Query"],
    }
}
