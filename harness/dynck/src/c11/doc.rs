//! Own document AST for C11: printing, syntactic node count S, and the number
//! of selections an inlining walker visits (computed with memoisation).

use std::collections::HashMap;

#[derive(Clone, Debug, Default)]
pub struct Dir {
    pub name: String,
    pub args: Vec<(String, String)>,
}

#[derive(Clone, Debug)]
pub enum Sel {
    Field { alias: Option<String>, name: String, args: Vec<(String, String)>, dirs: Vec<Dir>, sub: Vec<Sel> },
    Spread { name: String, dirs: Vec<Dir> },
    Inline { on: Option<String>, dirs: Vec<Dir>, sub: Vec<Sel> },
}

impl Sel {
    pub fn leaf(name: &str) -> Sel {
        Sel::Field { alias: None, name: name.into(), args: vec![], dirs: vec![], sub: vec![] }
    }
    pub fn aliased(alias: &str, name: &str) -> Sel {
        Sel::Field { alias: Some(alias.into()), name: name.into(), args: vec![], dirs: vec![], sub: vec![] }
    }
    pub fn field(name: &str, sub: Vec<Sel>) -> Sel {
        Sel::Field { alias: None, name: name.into(), args: vec![], dirs: vec![], sub }
    }
    pub fn spread(name: &str) -> Sel {
        Sel::Spread { name: name.into(), dirs: vec![] }
    }
    pub fn inline(on: Option<&str>, sub: Vec<Sel>) -> Sel {
        Sel::Inline { on: on.map(|s| s.to_string()), dirs: vec![], sub }
    }
}

#[derive(Clone, Debug)]
pub struct Frag {
    pub name: String,
    pub on: String,
    pub sub: Vec<Sel>,
}

#[derive(Clone, Debug)]
pub struct Op {
    pub name: Option<String>,
    /// (name, type, default)
    pub vars: Vec<(String, String, Option<String>)>,
    pub sub: Vec<Sel>,
}

#[derive(Clone, Debug, Default)]
pub struct Doc {
    pub ops: Vec<Op>,
    pub frags: Vec<Frag>,
}

fn print_dirs(d: &[Dir], out: &mut String) {
    for x in d {
        out.push_str(" @");
        out.push_str(&x.name);
        print_args(&x.args, out);
    }
}

fn print_args(a: &[(String, String)], out: &mut String) {
    if !a.is_empty() {
        out.push('(');
        for (i, (k, v)) in a.iter().enumerate() {
            if i > 0 {
                out.push_str(", ");
            }
            out.push_str(k);
            out.push_str(": ");
            out.push_str(v);
        }
        out.push(')');
    }
}

fn print_sels(s: &[Sel], out: &mut String) {
    out.push('{');
    for x in s {
        out.push(' ');
        match x {
            Sel::Field { alias, name, args, dirs, sub } => {
                if let Some(a) = alias {
                    out.push_str(a);
                    out.push_str(": ");
                }
                out.push_str(name);
                print_args(args, out);
                print_dirs(dirs, out);
                if !sub.is_empty() {
                    out.push(' ');
                    print_sels(sub, out);
                }
            }
            Sel::Spread { name, dirs } => {
                out.push_str("...");
                out.push_str(name);
                print_dirs(dirs, out);
            }
            Sel::Inline { on, dirs, sub } => {
                out.push_str("...");
                if let Some(t) = on {
                    out.push_str(" on ");
                    out.push_str(t);
                }
                print_dirs(dirs, out);
                out.push(' ');
                print_sels(sub, out);
            }
        }
    }
    out.push_str(" }");
}

fn count_dirs(d: &[Dir]) -> u64 {
    d.iter().map(|x| 1 + x.args.len() as u64).sum()
}

fn count_sels(s: &[Sel]) -> u64 {
    s.iter()
        .map(|x| match x {
            Sel::Field { args, dirs, sub, .. } => 1 + args.len() as u64 + count_dirs(dirs) + count_sels(sub),
            Sel::Spread { dirs, .. } => 1 + count_dirs(dirs),
            Sel::Inline { dirs, sub, .. } => 1 + count_dirs(dirs) + count_sels(sub),
        })
        .sum()
}

impl Doc {
    pub fn print(&self) -> String {
        let mut out = String::new();
        for op in &self.ops {
            out.push_str("query");
            if let Some(n) = &op.name {
                out.push(' ');
                out.push_str(n);
            }
            if !op.vars.is_empty() {
                out.push('(');
                for (i, (n, t, d)) in op.vars.iter().enumerate() {
                    if i > 0 {
                        out.push_str(", ");
                    }
                    out.push_str(&format!("${n}: {t}"));
                    if let Some(d) = d {
                        out.push_str(&format!(" = {d}"));
                    }
                }
                out.push(')');
            }
            out.push(' ');
            print_sels(&op.sub, &mut out);
            out.push('\n');
        }
        for f in &self.frags {
            out.push_str(&format!("fragment {} on {} ", f.name, f.on));
            print_sels(&f.sub, &mut out);
            out.push('\n');
        }
        out
    }

    /// S = selections + fragment definitions + arguments + directives + variable definitions.
    pub fn size(&self) -> u64 {
        let mut s = 0;
        for op in &self.ops {
            s += op.vars.len() as u64 + count_sels(&op.sub);
        }
        for f in &self.frags {
            s += 1 + count_sels(&f.sub);
        }
        s
    }

    /// Number of selections a walker visits when it starts at every operation and
    /// follows every fragment spread (what check_recursive_depth, check_max_directives
    /// and an Inline-mode visitor pass do). Saturating; fragment cycles are not generated.
    pub fn inlined_selections(&self) -> f64 {
        let frags: HashMap<&str, &Frag> = self.frags.iter().map(|f| (f.name.as_str(), f)).collect();
        let mut memo: HashMap<String, f64> = HashMap::new();
        fn walk(s: &[Sel], frags: &HashMap<&str, &Frag>, memo: &mut HashMap<String, f64>) -> f64 {
            let mut n = 0.0;
            for x in s {
                n += 1.0;
                match x {
                    Sel::Field { sub, .. } | Sel::Inline { sub, .. } => n += walk(sub, frags, memo),
                    Sel::Spread { name, .. } => {
                        if let Some(v) = memo.get(name) {
                            n += *v;
                        } else if let Some(f) = frags.get(name.as_str()) {
                            let v = walk(&f.sub, frags, memo);
                            memo.insert(name.clone(), v);
                            n += v;
                        }
                    }
                }
            }
            n
        }
        self.ops.iter().map(|o| walk(&o.sub, &frags, &mut memo)).sum()
    }
}
