//! Workload G5: adversarial document families (in increasing size order) and
//! random valid documents for the fixed C11 schema.

use vh_core::Rng;

use super::doc::*;
use super::schemas::{SHAPE, possible};

pub struct Case {
    pub label: String,
    pub doc: Doc,
    pub op_name: Option<String>,
}

pub struct Family {
    pub name: String,
    /// needs generator feature `fragment_fanout` (nested multiple spreads)
    pub guarded: bool,
    pub cases: Vec<Case>,
}

fn op(name: Option<&str>, sub: Vec<Sel>) -> Op {
    Op { name: name.map(|s| s.to_string()), vars: vec![], sub }
}

fn typename() -> Sel {
    Sel::leaf("__typename")
}

/// Heavy selection placed either in the only operation, or in an operation that is
/// checked but not the one selected for execution.
fn wrap(heavy: Vec<Sel>, frags: Vec<Frag>, unselected: bool) -> (Doc, Option<String>) {
    if unselected {
        (
            Doc { ops: vec![op(Some("Run"), vec![typename()]), op(Some("Heavy"), heavy)], frags },
            Some("Run".to_string()),
        )
    } else {
        (Doc { ops: vec![op(None, heavy)], frags }, None)
    }
}

/// Chain of length L: fragments F1..FL on Query each spread the next one k times;
/// F(L+1) = { __typename } ends the chain (k^L leaves when inlined).
pub fn fanout_doc(k: usize, len: usize, inline_wrapped: bool, unselected: bool) -> (Doc, Option<String>) {
    let mut frags = vec![];
    for i in 1..=len + 1 {
        let sub = if i == len + 1 {
            vec![typename()]
        } else {
            (0..k)
                .map(|_| {
                    let s = Sel::spread(&format!("F{}", i + 1));
                    if inline_wrapped { Sel::inline(Some("Query"), vec![s]) } else { s }
                })
                .collect()
        };
        frags.push(Frag { name: format!("F{i}"), on: "Query".into(), sub });
    }
    wrap(vec![Sel::spread("F1")], frags, unselected)
}

/// Fi { ...Gi ...Hi }  Gi { ...F(i+1) }  Hi { ...F(i+1) }  F(last) { __typename }
pub fn diamond_doc(levels: usize, unselected: bool) -> (Doc, Option<String>) {
    let mut frags = vec![];
    for i in 1..=levels {
        if i == levels {
            frags.push(Frag { name: format!("F{i}"), on: "Query".into(), sub: vec![typename()] });
        } else {
            frags.push(Frag { name: format!("F{i}"), on: "Query".into(), sub: vec![Sel::spread(&format!("G{i}")), Sel::spread(&format!("H{i}"))] });
            frags.push(Frag { name: format!("G{i}"), on: "Query".into(), sub: vec![Sel::spread(&format!("F{}", i + 1))] });
            frags.push(Frag { name: format!("H{i}"), on: "Query".into(), sub: vec![Sel::spread(&format!("F{}", i + 1))] });
        }
    }
    wrap(vec![Sel::spread("F1")], frags, unselected)
}

pub fn families(thorough: bool) -> Vec<Family> {
    let mut out = vec![];
    let max_len = if thorough { 24 } else { 14 };

    // ---- exponential candidates (guarded by `fragment_fanout`) ----
    for k in [2usize, 3] {
        for (variant, inline_wrapped, unselected) in [("direct", false, false), ("unselected-op", false, true), ("inline-wrapped", true, true)] {
            let mut cases = vec![];
            for len in 1..=max_len {
                // a directly executed chain also executes k^len leaves: keep that bounded
                if !unselected && (k as f64).powi(len as i32) > 70_000.0 {
                    break;
                }
                let (doc, op_name) = fanout_doc(k, len, inline_wrapped, unselected);
                cases.push(Case { label: format!("len={len}"), doc, op_name });
            }
            out.push(Family { name: format!("fanout-k{k}-{variant}"), guarded: true, cases });
        }
    }
    {
        let mut cases = vec![];
        for levels in 1..=max_len {
            let (doc, op_name) = diamond_doc(levels, true);
            cases.push(Case { label: format!("levels={levels}"), doc, op_name });
        }
        out.push(Family { name: "diamond".into(), guarded: true, cases });
    }
    {
        // two-level wide fan-out: op spreads F n times, F spreads G n times, G has n leaves (cubic inlining)
        let mut cases = vec![];
        let sizes: Vec<usize> = if thorough { vec![4, 8, 16, 28, 40, 60, 90, 130, 180, 240] } else { vec![4, 8, 12, 16, 20, 24, 28] };
        for n in sizes {
            let g = Frag { name: "G".into(), on: "Query".into(), sub: (0..n).map(|_| typename()).collect() };
            let f = Frag { name: "F".into(), on: "Query".into(), sub: (0..n).map(|_| Sel::spread("G")).collect() };
            let (doc, op_name) = wrap((0..n).map(|_| Sel::spread("F")).collect(), vec![f, g], true);
            cases.push(Case { label: format!("n={n}"), doc, op_name });
        }
        out.push(Family { name: "two-level-wide-fanout".into(), guarded: true, cases });
    }

    // ---- clean families ----
    {
        // control: linear chain (k = 1)
        let mut cases = vec![];
        for len in [1usize, 2, 4, 8, 12, 16, 20, 24, 28, 31, 40, 80, 160, 290] {
            let (doc, op_name) = fanout_doc(1, len, false, false);
            cases.push(Case { label: format!("len={len}"), doc, op_name });
        }
        out.push(Family { name: "linear-chain-k1".into(), guarded: false, cases });
    }
    {
        // one leaf fragment of n fields spread n times in one selection set (quadratic inlining, no nesting)
        let mut cases = vec![];
        let top = if thorough { 400 } else { 120 };
        let mut n = 2;
        while n <= top {
            let f = Frag { name: "L".into(), on: "Query".into(), sub: (0..n).map(|i| Sel::aliased(&format!("t{i}"), "__typename")).collect() };
            let doc = Doc { ops: vec![op(None, (0..n).map(|_| Sel::spread("L")).collect())], frags: vec![f] };
            cases.push(Case { label: format!("n={n}"), doc, op_name: None });
            n = n * 3 / 2 + 1;
        }
        out.push(Family { name: "flat-multi-spread".into(), guarded: false, cases });
    }
    {
        // n response keys, each written n times with identical arguments (mergeable)
        let mut cases = vec![];
        let top = if thorough { 120 } else { 48 };
        let mut n = 2;
        while n <= top {
            let mut sub = vec![];
            for j in 0..n {
                for i in 0..n {
                    let _ = j;
                    sub.push(Sel::Field { alias: Some(format!("r{i}")), name: "n".into(), args: vec![("x".into(), format!("{i}"))], dirs: vec![], sub: vec![] });
                }
            }
            cases.push(Case { label: format!("n={n}"), doc: Doc { ops: vec![op(None, sub)], frags: vec![] }, op_name: None });
            n = n * 3 / 2 + 1;
        }
        out.push(Family { name: "wide-overlapping".into(), guarded: false, cases });
    }
    {
        // deep inline-fragment nesting, alone and with 4 leaves per level
        for (name, width) in [("deep-inline-nesting", 0usize), ("deep-inline-nesting-wide", 4)] {
            let mut cases = vec![];
            for d in [1usize, 2, 4, 8, 16, 24, 30, 31, 32, 33, 64, 128, 256, 290] {
                let mut cur = vec![typename()];
                for lvl in 0..d {
                    let mut items: Vec<Sel> = (0..width).map(|w| Sel::aliased(&format!("t{lvl}_{w}"), "__typename")).collect();
                    items.push(Sel::inline(if lvl % 2 == 0 { Some("Query") } else { None }, cur));
                    cur = items;
                }
                cases.push(Case { label: format!("depth={d}"), doc: Doc { ops: vec![op(None, cur)], frags: vec![] }, op_name: None });
            }
            out.push(Family { name: name.into(), guarded: false, cases });
        }
    }
    {
        // deep field nesting a { me { me { ... } } }
        let mut cases = vec![];
        for d in [1usize, 4, 16, 30, 31, 32, 64, 128, 290] {
            let mut cur = vec![Sel::leaf("id"), typename()];
            for _ in 0..d {
                cur = vec![Sel::field("me", cur), Sel::leaf("name")];
            }
            cases.push(Case { label: format!("depth={d}"), doc: Doc { ops: vec![op(None, vec![Sel::field("a", cur)])], frags: vec![] }, op_name: None });
        }
        out.push(Family { name: "deep-field-nesting".into(), guarded: false, cases });
    }
    {
        // deep nesting where every level also spreads one big fragment (FindConflicts follows it at each level)
        let mut cases = vec![];
        let top = if thorough { 28 } else { 24 };
        for d in (4..=top).step_by(4) {
            let big = Frag { name: "Big".into(), on: "A".into(), sub: (0..d * 8).map(|i| Sel::aliased(&format!("b{i}"), "id")).collect() };
            let mut cur = vec![Sel::spread("Big")];
            for _ in 0..d {
                cur = vec![Sel::field("me", cur), Sel::spread("Big")];
            }
            cases.push(Case { label: format!("depth={d}"), doc: Doc { ops: vec![op(None, vec![Sel::field("a", cur)])], frags: vec![big] }, op_name: None });
        }
        out.push(Family { name: "nested-with-shared-fragment".into(), guarded: false, cases });
    }
    {
        let mut cases = vec![];
        let top = if thorough { 8000 } else { 2000 };
        let mut n = 1;
        while n <= top {
            let ops = (0..n).map(|i| op(Some(&format!("Q{i}")), vec![typename(), Sel::leaf("n")])).collect();
            cases.push(Case { label: format!("n={n}"), doc: Doc { ops, frags: vec![] }, op_name: Some("Q0".into()) });
            n = n * 3 + 1;
        }
        out.push(Family { name: "many-operations".into(), guarded: false, cases });
    }
    {
        let mut cases = vec![];
        let top = if thorough { 8000 } else { 2000 };
        let mut n = 1;
        while n <= top {
            let frags = (0..n).map(|i| Frag { name: format!("U{i}"), on: "Query".into(), sub: vec![typename(), Sel::leaf("n")] }).collect();
            cases.push(Case { label: format!("n={n}"), doc: Doc { ops: vec![op(None, vec![typename()])], frags }, op_name: None });
            n = n * 3 + 1;
        }
        out.push(Family { name: "many-unused-fragments".into(), guarded: false, cases });
    }
    {
        let mut cases = vec![];
        let top = if thorough { 4000 } else { 1000 };
        let mut n = 1;
        while n <= top {
            let frags = (0..n).map(|i| Frag { name: format!("P{i}"), on: "Query".into(), sub: vec![Sel::aliased(&format!("p{i}"), "n")] }).collect();
            let sub = (0..n).map(|i| Sel::spread(&format!("P{i}"))).collect();
            cases.push(Case { label: format!("n={n}"), doc: Doc { ops: vec![op(None, sub)], frags }, op_name: None });
            n = n * 3 + 1;
        }
        out.push(Family { name: "many-fragments-each-spread-once".into(), guarded: false, cases });
    }
    {
        // many variables, arguments and directives
        let mut cases = vec![];
        let top = if thorough { 2000 } else { 500 };
        let mut n = 1;
        while n <= top {
            let vars = (0..n).map(|i| (format!("v{i}"), "Int".to_string(), Some(format!("{i}")))).chain(std::iter::once(("flag".to_string(), "Boolean".to_string(), Some("true".to_string())))).collect();
            let sub = (0..n)
                .map(|i| Sel::Field {
                    alias: Some(format!("x{i}")),
                    name: "n".into(),
                    args: vec![("x".into(), format!("$v{i}"))],
                    dirs: vec![Dir { name: "include".into(), args: vec![("if".into(), "$flag".into())] }, Dir { name: "skip".into(), args: vec![("if".into(), "false".into())] }],
                    sub: vec![],
                })
                .collect();
            cases.push(Case { label: format!("n={n}"), doc: Doc { ops: vec![Op { name: Some("V".into()), vars, sub }], frags: vec![] }, op_name: None });
            n = n * 3 + 1;
        }
        out.push(Family { name: "many-variables-directives".into(), guarded: false, cases });
    }
    out
}

// ---------------------------------------------------------------------------
// random valid documents
// ---------------------------------------------------------------------------

struct Gen<'a> {
    r: &'a mut Rng,
    frags: Vec<Frag>,
    /// (fragment index, type, uses, contains spreads)
    reusable: Vec<(usize, String, u32, bool)>,
    counter: u32,
    multi_spread: bool,
}

fn fields_of(ty: &str) -> &'static [(&'static str, bool, &'static str)] {
    SHAPE.iter().find(|(t, _)| *t == ty).map(|(_, f)| *f).unwrap_or(&[])
}

impl Gen<'_> {
    fn next(&mut self) -> u32 {
        self.counter += 1;
        self.counter
    }

    fn dirs(&mut self) -> Vec<Dir> {
        match self.r.below(8) {
            0 => vec![Dir { name: "include".into(), args: vec![("if".into(), "true".into())] }],
            1 => vec![Dir { name: "skip".into(), args: vec![("if".into(), "false".into())] }],
            _ => vec![],
        }
    }

    /// Returns (selections, contains a spread).
    fn set(&mut self, ty: &str, level: u32, frag_depth: u32, budget: &mut i64) -> (Vec<Sel>, bool) {
        let mut out = vec![];
        let mut has_spread = false;
        let want = 1 + self.r.below(7) + if *budget > 400 { self.r.below(24) } else { 0 };
        let fields = fields_of(ty);
        for _ in 0..want {
            if *budget <= 0 {
                break;
            }
            *budget -= 1;
            let choice = self.r.below(100);
            let leafs: Vec<&(&str, bool, &str)> = fields.iter().filter(|f| f.2.is_empty()).collect();
            let comps: Vec<&(&str, bool, &str)> = fields.iter().filter(|f| !f.2.is_empty()).collect();
            if choice < 38 && !leafs.is_empty() {
                let f = **self.r.pick(&leafs);
                if f.1 && self.r.bool() {
                    let k = self.next();
                    *budget -= 1;
                    out.push(Sel::Field { alias: Some(format!("l{k}")), name: f.0.into(), args: vec![("x".into(), format!("{}", self.r.below(100)))], dirs: self.dirs(), sub: vec![] });
                } else {
                    out.push(Sel::Field { alias: None, name: f.0.into(), args: vec![], dirs: vec![], sub: vec![] });
                }
            } else if choice < 46 {
                out.push(Sel::leaf("__typename"));
            } else if choice < 72 && !comps.is_empty() && level < 18 {
                let f = **self.r.pick(&comps);
                let k = self.next();
                let mut share = (*budget / 2).max(1) * (1 + self.r.below(4) as i64) / 4;
                *budget -= share;
                let (sub, sp) = self.set(f.2, level + 1, frag_depth, &mut share);
                *budget += share.max(0);
                has_spread |= sp;
                out.push(Sel::Field { alias: Some(format!("c{k}")), name: f.0.into(), args: vec![], dirs: self.dirs(), sub });
            } else if choice < 86 && level < 18 {
                let on = if self.r.chance(1, 4) && !matches!(ty, "Node" | "AB") { None } else { Some(*self.r.pick(possible(ty))) };
                let inner_ty = on.unwrap_or(ty).to_string();
                let mut share = (*budget / 3).max(1);
                *budget -= share;
                let (sub, sp) = self.set(&inner_ty, level + 1, frag_depth, &mut share);
                *budget += share.max(0);
                has_spread |= sp;
                out.push(Sel::Inline { on: on.map(|s| s.to_string()), dirs: self.dirs(), sub });
            } else if level < 18 && frag_depth < 3 {
                let fty = self.r.pick(possible(ty)).to_string();
                // reuse an existing fragment?
                let cands: Vec<usize> = self
                    .reusable
                    .iter()
                    .enumerate()
                    .filter(|(_, (_, t, uses, sp))| *t == fty && *uses < 3 && (self.multi_spread || !*sp))
                    .map(|(i, _)| i)
                    .collect();
                if !cands.is_empty() && self.r.chance(1, 2) && (self.multi_spread || frag_depth == 0) {
                    let i = *self.r.pick(&cands);
                    self.reusable[i].2 += 1;
                    let name = self.frags[self.reusable[i].0].name.clone();
                    has_spread = true;
                    out.push(Sel::Spread { name, dirs: vec![] });
                } else {
                    let k = self.next();
                    let name = format!("Fr{k}");
                    let mut share = (*budget / 3).max(1);
                    *budget -= share + 1;
                    let (sub, sp) = self.set(&fty, level + 1, frag_depth + 1, &mut share);
                    *budget += share.max(0);
                    self.frags.push(Frag { name: name.clone(), on: fty.clone(), sub });
                    self.reusable.push((self.frags.len() - 1, fty, 1, sp));
                    has_spread = true;
                    out.push(Sel::Spread { name, dirs: self.dirs() });
                }
            } else {
                out.push(Sel::leaf("__typename"));
            }
        }
        if out.is_empty() {
            out.push(Sel::leaf("__typename"));
        }
        (out, has_spread)
    }
}

/// A random valid document of roughly `target` syntactic nodes. With
/// `multi_spread` off, a fragment that itself contains spreads is spread once.
pub fn random_doc(r: &mut Rng, target: usize, multi_spread: bool) -> (Doc, Option<String>) {
    let mut g = Gen { r, frags: vec![], reusable: vec![], counter: 0, multi_spread };
    let mut budget = target as i64;
    let mut root = vec![];
    let mut guard = 0;
    while budget > 0 && guard < 10_000 {
        guard += 1;
        let (mut s, _) = g.set("Query", 1, 0, &mut budget);
        root.append(&mut s);
    }
    let mut vars = vec![];
    if g.r.chance(1, 2) {
        vars.push(("v".to_string(), "Int".to_string(), Some("3".to_string())));
        root.push(Sel::Field { alias: Some("lv".into()), name: "n".into(), args: vec![("x".into(), "$v".into())], dirs: vec![], sub: vec![] });
    }
    if g.r.chance(1, 2) {
        vars.push(("flag".to_string(), "Boolean".to_string(), Some("true".to_string())));
        root.push(Sel::Field { alias: Some("lf".into()), name: "n".into(), args: vec![], dirs: vec![Dir { name: "include".into(), args: vec![("if".into(), "$flag".into())] }], sub: vec![] });
    }
    let named = !vars.is_empty() || g.r.chance(1, 3);
    let mut ops = vec![Op { name: named.then(|| "Main".to_string()), vars, sub: root }];
    let mut op_name = None;
    if named && g.r.chance(1, 3) {
        ops.push(Op { name: Some("Other".into()), vars: vec![], sub: vec![Sel::leaf("__typename")] });
        op_name = Some("Main".to_string());
    }
    let frags = std::mem::take(&mut g.frags);
    (Doc { ops, frags }, op_name)
}
