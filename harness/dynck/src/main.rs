//! vh-dynck: checks of the dynamic schema builder (C33) and of the request
//! checking work bound (C11). Dispatch on argv[1] = property id.

mod c11;
mod c33;

fn main() {
    let id = std::env::args().nth(1).unwrap_or_default();
    match id.as_str() {
        "C33" => c33::main(),
        "C11" => c11::main(),
        _ => {
            println!("INCONCLUSIVE property={id} reason=vh-dynck has no check for this property");
            std::process::exit(2);
        }
    }
}
