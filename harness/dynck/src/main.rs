fn main() {
    let id = std::env::args().nth(1).unwrap_or_default();
    println!("INCONCLUSIVE property={id} reason=vh-dynck has no check for this property yet");
    std::process::exit(2);
}
