//! Document-level rules that async-graphql's `parse_query` / `parse_schema`
//! enforce while parsing. They are validation rules of the specification
//! (§5.2.1.1 operation name uniqueness, §5.2.2.1 lone anonymous operation,
//! §5.5.1.1 fragment name uniqueness, §3.3 root operation types) plus the
//! implementation's nesting limit. Kept separate from the grammar.

use std::collections::BTreeSet;

use crate::ast::*;

#[derive(Clone, Debug, PartialEq, Eq)]
pub enum RuleViolation {
    /// no operation in an executable document
    NoOperation,
    /// an anonymous operation together with any other operation
    AnonymousNotAlone { pos: Pos },
    DuplicateOperation { name: String, pos: Pos },
    DuplicateFragment { name: String, pos: Pos },
    /// more than `limit` selection sets nested inside each other
    TooDeep { depth: usize, limit: usize },
    /// a schema definition (not an extension) without `query`
    MissingQueryRoot { pos: Pos },
    /// the same root operation type twice in one schema definition/extension
    DuplicateRootOperation { pos: Pos },
}

/// Number of selection sets nested inside each other (an operation's own
/// selection set is depth 1).
pub fn selection_depth(s: &SelectionSet) -> usize {
    let mut d = 0;
    for it in &s.items {
        let sub = match it {
            Selection::Field(f) => f.selection_set.as_ref().map(selection_depth).unwrap_or(0),
            Selection::FragmentSpread(_) => 0,
            Selection::InlineFragment(i) => selection_depth(&i.selection_set),
        };
        d = d.max(sub);
    }
    d + 1
}

/// Maximum selection depth over every operation and fragment of a document.
pub fn max_selection_depth(doc: &Document) -> usize {
    let a = doc.operations().map(|o| selection_depth(&o.selection_set)).max().unwrap_or(0);
    let b = doc.fragments().map(|o| selection_depth(&o.selection_set)).max().unwrap_or(0);
    a.max(b)
}

/// The rules of `parse_query`. `max_depth`: reject when more than this many
/// selection sets are nested (`None`: unlimited).
pub fn validate_executable(doc: &Document, max_depth: Option<usize>) -> Result<(), RuleViolation> {
    let mut names = BTreeSet::new();
    let mut anonymous: Option<Pos> = None;
    let mut n_ops = 0;
    for o in doc.operations() {
        n_ops += 1;
        match &o.name {
            None => {
                if anonymous.is_some() || n_ops > 1 {
                    return Err(RuleViolation::AnonymousNotAlone { pos: o.pos });
                }
                anonymous = Some(o.pos);
            }
            Some(n) => {
                if let Some(p) = anonymous {
                    return Err(RuleViolation::AnonymousNotAlone { pos: p });
                }
                if !names.insert(n.value.clone()) {
                    return Err(RuleViolation::DuplicateOperation { name: n.value.clone(), pos: o.pos });
                }
            }
        }
    }
    let mut frs = BTreeSet::new();
    for f in doc.fragments() {
        if !frs.insert(f.name.value.clone()) {
            return Err(RuleViolation::DuplicateFragment { name: f.name.value.clone(), pos: f.pos });
        }
    }
    if n_ops == 0 {
        return Err(RuleViolation::NoOperation);
    }
    if let Some(limit) = max_depth {
        let depth = max_selection_depth(doc);
        if depth > limit {
            return Err(RuleViolation::TooDeep { depth, limit });
        }
    }
    Ok(())
}

/// The rules of `parse_schema`.
pub fn validate_type_system(doc: &Document) -> Result<(), RuleViolation> {
    for s in doc.schema_definitions() {
        let mut seen = BTreeSet::new();
        for r in &s.root_operations {
            if !seen.insert(r.kind) {
                return Err(RuleViolation::DuplicateRootOperation { pos: r.pos });
            }
        }
        if !s.extend && !seen.contains(&OperationKind::Query) {
            return Err(RuleViolation::MissingQueryRoot { pos: s.pos });
        }
    }
    Ok(())
}
