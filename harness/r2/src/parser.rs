//! Recursive-descent parser for the October-2021 document grammar
//! (executable definitions, type-system definitions and extensions).

use std::collections::BTreeSet;

use crate::ast::*;
use crate::lexer::{ErrKind, Options, SyntaxError, Tok, Token, lex};

/// Which definitions a document may contain.
#[derive(Clone, Copy, Debug, PartialEq, Eq)]
pub enum DocClass {
    /// `Document`: anything
    Any,
    /// `ExecutableDocument`: operations and fragments only
    Executable,
    /// type-system definitions and extensions only
    TypeSystem,
}

/// A successfully parsed document plus the *constructs* the parser noticed in
/// it (tags such as `type_inner_whitespace`; see `FEATURE_TAGS`). A harness
/// uses the tags to attribute a disagreement to a known finding.
#[derive(Clone, Debug)]
pub struct Parsed {
    pub doc: Document,
    pub features: BTreeSet<&'static str>,
}

/// Every tag `Parsed::features` can contain.
pub const FEATURE_TAGS: [&str; 15] = [
    "type_inner_whitespace",          // `[ Int ! ]`: ignored tokens inside a type reference
    "comment_after_on",               // a comment between `on` and the type name of a type condition
    "variable_directives",            // a variable definition with directives
    "variable_default_and_directives", // ... with a default value as well
    "enum_keyword_prefix",            // an enum value whose name starts with true/false/null (`nullable`)
    "schema_description",             // description on a schema definition
    "extend_interface_implements_only", // `extend interface A implements B` with nothing else
    "block_string",                   // any block string
    "block_string_escaped_triple_quote", // `\"""` inside a block string
    "block_string_short_blank_line",  // a kept whitespace-only line shorter than the common indent
    "line_terminator_in_block_string_cr", // a lone CR inside a block string
    "negative_zero_int",              // the IntValue `-0`
    "int_beyond_u64",                 // an IntValue outside both the i64 and the u64 range
    "float_out_of_range",             // a FloatValue whose magnitude exceeds f64::MAX
    "directive_not_repeatable",       // a directive definition without `repeatable`
];

struct P<'a> {
    t: &'a [Token],
    i: usize,
    features: BTreeSet<&'static str>,
}

type R<T> = Result<T, SyntaxError>;

fn describe(t: &Tok) -> String {
    match t {
        Tok::Punct(p) => format!("'{p}'"),
        Tok::Name(n) => format!("name '{n}'"),
        Tok::Int(n) | Tok::Float(n) => format!("number {n}"),
        Tok::Str(_) => "string".to_string(),
        Tok::Eof => "end of input".to_string(),
    }
}

impl<'a> P<'a> {
    fn cur(&self) -> &'a Token {
        &self.t[self.i.min(self.t.len() - 1)]
    }
    fn bump(&mut self) -> &'a Token {
        let t = self.cur();
        if self.i < self.t.len() - 1 {
            self.i += 1;
        }
        t
    }
    fn err_at<T>(&self, t: &Token, kind: ErrKind, msg: String) -> R<T> {
        Err(SyntaxError { kind, pos: t.pos, char_offset: t.start, message: msg })
    }
    fn unexpected<T>(&self, expected: &str) -> R<T> {
        let t = self.cur();
        self.err_at(t, ErrKind::UnexpectedToken, format!("expected {expected}, found {}", describe(&t.tok)))
    }
    fn is_punct(&self, p: &str) -> bool {
        matches!(&self.cur().tok, Tok::Punct(q) if *q == p)
    }
    fn eat_punct(&mut self, p: &str) -> bool {
        if self.is_punct(p) {
            self.bump();
            true
        } else {
            false
        }
    }
    fn expect_punct(&mut self, p: &str) -> R<&'a Token> {
        if self.is_punct(p) { Ok(self.bump()) } else { self.unexpected(&format!("'{p}'")) }
    }
    fn is_kw(&self, kw: &str) -> bool {
        matches!(&self.cur().tok, Tok::Name(n) if n == kw)
    }
    fn expect_kw(&mut self, kw: &str) -> R<&'a Token> {
        if self.is_kw(kw) { Ok(self.bump()) } else { self.unexpected(&format!("'{kw}'")) }
    }
    fn name(&mut self) -> R<Name> {
        match &self.cur().tok {
            Tok::Name(n) => {
                let t = self.bump();
                Ok(Name { pos: t.pos, value: n.clone() })
            }
            _ => self.unexpected("a name"),
        }
    }

    // ------------------------------------------------------------- values

    fn string_features(&mut self, s: &StringValue) {
        if !s.block {
            return;
        }
        self.features.insert("block_string");
        let raw = s.raw.as_deref().unwrap_or("");
        if raw.contains("\\\"\"\"") {
            self.features.insert("block_string_escaped_triple_quote");
        }
        // lone CR
        let ch: Vec<char> = raw.chars().collect();
        for (i, c) in ch.iter().enumerate() {
            if *c == '\r' && ch.get(i + 1) != Some(&'\n') {
                self.features.insert("line_terminator_in_block_string_cr");
            }
        }
        // kept whitespace-only line shorter than the common indent
        let unescaped = raw.replace("\\\"\"\"", "\"\"\"");
        let lines: Vec<&str> = unescaped.split("\r\n").flat_map(|s| s.split(['\r', '\n'])).collect();
        let ws = |c: char| c == ' ' || c == '\t';
        let common = lines
            .iter()
            .skip(1)
            .filter(|l| !l.chars().all(ws))
            .map(|l| l.chars().take_while(|c| ws(*c)).count())
            .min()
            .unwrap_or(0);
        let first = lines.iter().position(|l| !l.chars().all(ws));
        let last = lines.iter().rposition(|l| !l.chars().all(ws));
        if let (Some(f), Some(l)) = (first, last) {
            for (i, line) in lines.iter().enumerate() {
                if i > f && i < l && i > 0 && !line.is_empty() && line.chars().count() < common {
                    self.features.insert("block_string_short_blank_line");
                }
            }
        }
    }

    fn value(&mut self, konst: bool) -> R<Value> {
        let t = self.cur();
        let pos = t.pos;
        let kind = match &t.tok {
            Tok::Punct("$") => {
                if konst {
                    return self.err_at(t, ErrKind::VariableInConst, "a variable is not a constant value".into());
                }
                self.bump();
                ValueKind::Variable(self.name()?.value)
            }
            Tok::Int(s) => {
                if s == "-0" {
                    self.features.insert("negative_zero_int");
                }
                if s.parse::<i64>().is_err() && s.parse::<u64>().is_err() {
                    self.features.insert("int_beyond_u64");
                }
                self.bump();
                ValueKind::Int(s.clone())
            }
            Tok::Float(s) => {
                if s.parse::<f64>().map(|f| f.is_infinite()).unwrap_or(true) {
                    self.features.insert("float_out_of_range");
                }
                self.bump();
                ValueKind::Float(s.clone())
            }
            Tok::Str(s) => {
                self.bump();
                self.string_features(s);
                ValueKind::String(s.clone())
            }
            Tok::Name(n) => {
                self.bump();
                match n.as_str() {
                    "true" => ValueKind::Boolean(true),
                    "false" => ValueKind::Boolean(false),
                    "null" => ValueKind::Null,
                    _ => {
                        self.enum_feature(n);
                        ValueKind::Enum(n.clone())
                    }
                }
            }
            Tok::Punct("[") => {
                self.bump();
                let mut xs = vec![];
                while !self.is_punct("]") {
                    xs.push(self.value(konst)?);
                }
                self.bump();
                ValueKind::List(xs)
            }
            Tok::Punct("{") => {
                self.bump();
                let mut fs = vec![];
                while !self.is_punct("}") {
                    let n = self.name()?;
                    self.expect_punct(":")?;
                    let v = self.value(konst)?;
                    fs.push((n, v));
                }
                self.bump();
                ValueKind::Object(fs)
            }
            _ => return self.unexpected("a value"),
        };
        Ok(Value { pos, kind })
    }

    fn enum_feature(&mut self, n: &str) {
        for kw in ["true", "false", "null"] {
            if n.len() > kw.len() && n.starts_with(kw) {
                self.features.insert("enum_keyword_prefix");
            }
        }
    }

    fn ty(&mut self) -> R<Type> {
        let first = self.i;
        let t = self.ty_inner()?;
        // ignored tokens between the tokens of one type reference
        for k in first + 1..self.i {
            if self.t[k].preceded_by_ignored {
                self.features.insert("type_inner_whitespace");
            }
        }
        Ok(t)
    }
    fn ty_inner(&mut self) -> R<Type> {
        let pos = self.cur().pos;
        let base = if self.eat_punct("[") {
            let inner = self.ty_inner()?;
            self.expect_punct("]")?;
            TypeBase::List(Box::new(inner))
        } else {
            match &self.cur().tok {
                Tok::Name(n) => {
                    self.bump();
                    TypeBase::Named(n.clone())
                }
                _ => return self.unexpected("a type"),
            }
        };
        let non_null = self.eat_punct("!");
        Ok(Type { pos, base, non_null })
    }

    fn arguments(&mut self, konst: bool) -> R<Vec<Argument>> {
        let mut out = vec![];
        if !self.eat_punct("(") {
            return Ok(out);
        }
        loop {
            let name = self.name()?; // at least one argument
            self.expect_punct(":")?;
            let value = self.value(konst)?;
            out.push(Argument { name, value });
            if self.eat_punct(")") {
                return Ok(out);
            }
        }
    }

    fn directives(&mut self, konst: bool) -> R<Vec<Directive>> {
        let mut out = vec![];
        while self.is_punct("@") {
            let pos = self.bump().pos;
            let name = self.name()?;
            let arguments = self.arguments(konst)?;
            out.push(Directive { pos, name, arguments });
        }
        Ok(out)
    }

    // --------------------------------------------------------- executable

    fn operation(&mut self) -> R<OperationDefinition> {
        let pos = self.cur().pos;
        if self.is_punct("{") {
            let selection_set = self.selection_set()?;
            return Ok(OperationDefinition {
                pos,
                kind: OperationKind::Query,
                shorthand: true,
                name: None,
                variables: vec![],
                directives: vec![],
                selection_set,
            });
        }
        let kind = match &self.bump().tok {
            Tok::Name(n) if n == "query" => OperationKind::Query,
            Tok::Name(n) if n == "mutation" => OperationKind::Mutation,
            Tok::Name(n) if n == "subscription" => OperationKind::Subscription,
            _ => unreachable!("caller checked the keyword"),
        };
        let name = if matches!(self.cur().tok, Tok::Name(_)) { Some(self.name()?) } else { None };
        let mut variables = vec![];
        if self.eat_punct("(") {
            loop {
                variables.push(self.variable_definition()?); // at least one
                if self.eat_punct(")") {
                    break;
                }
            }
        }
        let directives = self.directives(false)?;
        let selection_set = self.selection_set()?;
        Ok(OperationDefinition { pos, kind, shorthand: false, name, variables, directives, selection_set })
    }

    fn variable_definition(&mut self) -> R<VariableDefinition> {
        let pos = self.expect_punct("$")?.pos;
        let name = self.name()?;
        self.expect_punct(":")?;
        let ty = self.ty()?;
        let default_value = if self.eat_punct("=") { Some(self.value(true)?) } else { None };
        let directives = self.directives(true)?;
        if !directives.is_empty() {
            self.features.insert("variable_directives");
            if default_value.is_some() {
                self.features.insert("variable_default_and_directives");
            }
        }
        Ok(VariableDefinition { pos, name, ty, default_value, directives })
    }

    fn selection_set(&mut self) -> R<SelectionSet> {
        let pos = self.expect_punct("{")?.pos;
        let mut items = vec![];
        loop {
            items.push(self.selection()?); // at least one
            if self.eat_punct("}") {
                return Ok(SelectionSet { pos, items });
            }
        }
    }

    fn type_condition(&mut self) -> R<TypeCondition> {
        let pos = self.expect_kw("on")?.pos;
        if matches!(self.cur().tok, Tok::Name(_)) && self.cur().preceded_by_comment {
            self.features.insert("comment_after_on");
        }
        let name = self.name()?;
        Ok(TypeCondition { pos, name })
    }

    fn selection(&mut self) -> R<Selection> {
        if self.is_punct("...") {
            let pos = self.bump().pos;
            if self.is_kw("on") {
                let tc = self.type_condition()?;
                let directives = self.directives(false)?;
                let selection_set = self.selection_set()?;
                return Ok(Selection::InlineFragment(InlineFragment {
                    pos,
                    type_condition: Some(tc),
                    directives,
                    selection_set,
                }));
            }
            if matches!(self.cur().tok, Tok::Name(_)) {
                let name = self.name()?;
                let directives = self.directives(false)?;
                return Ok(Selection::FragmentSpread(FragmentSpread { pos, name, directives }));
            }
            let directives = self.directives(false)?;
            let selection_set = self.selection_set()?;
            return Ok(Selection::InlineFragment(InlineFragment {
                pos,
                type_condition: None,
                directives,
                selection_set,
            }));
        }
        if !matches!(self.cur().tok, Tok::Name(_)) {
            return self.unexpected("a selection");
        }
        let first = self.name()?;
        let pos = first.pos;
        let (alias, name) = if self.eat_punct(":") { (Some(first), self.name()?) } else { (None, first) };
        let arguments = self.arguments(false)?;
        let directives = self.directives(false)?;
        let selection_set = if self.is_punct("{") { Some(self.selection_set()?) } else { None };
        Ok(Selection::Field(Field { pos, alias, name, arguments, directives, selection_set }))
    }

    fn fragment(&mut self) -> R<FragmentDefinition> {
        let pos = self.expect_kw("fragment")?.pos;
        if self.is_kw("on") {
            let t = self.cur();
            return self.err_at(t, ErrKind::ReservedName, "a fragment may not be named 'on'".into());
        }
        let name = self.name()?;
        let type_condition = self.type_condition()?;
        let directives = self.directives(false)?;
        let selection_set = self.selection_set()?;
        Ok(FragmentDefinition { pos, name, type_condition, directives, selection_set })
    }

    // -------------------------------------------------------- type system

    fn description(&mut self) -> Option<Description> {
        if let Tok::Str(s) = &self.cur().tok {
            let pos = self.bump().pos;
            self.string_features(s);
            Some(Description { pos, value: s.clone() })
        } else {
            None
        }
    }

    fn root_operations(&mut self) -> R<Vec<RootOperation>> {
        self.expect_punct("{")?;
        let mut out = vec![];
        loop {
            let t = self.cur();
            let kind = match &t.tok {
                Tok::Name(n) if n == "query" => OperationKind::Query,
                Tok::Name(n) if n == "mutation" => OperationKind::Mutation,
                Tok::Name(n) if n == "subscription" => OperationKind::Subscription,
                _ => return self.unexpected("'query', 'mutation' or 'subscription'"),
            };
            self.bump();
            self.expect_punct(":")?;
            let type_name = self.name()?;
            out.push(RootOperation { pos: t.pos, kind, type_name });
            if self.eat_punct("}") {
                return Ok(out);
            }
        }
    }

    fn implements(&mut self) -> R<Vec<Name>> {
        let mut out = vec![];
        if !self.is_kw("implements") {
            return Ok(out);
        }
        self.bump();
        self.eat_punct("&");
        loop {
            out.push(self.name()?);
            if !self.eat_punct("&") {
                return Ok(out);
            }
        }
    }

    fn input_value(&mut self) -> R<InputValueDefinition> {
        let pos = self.cur().pos;
        let description = self.description();
        let name = self.name()?;
        self.expect_punct(":")?;
        let ty = self.ty()?;
        let default_value = if self.eat_punct("=") { Some(self.value(true)?) } else { None };
        let directives = self.directives(true)?;
        Ok(InputValueDefinition { pos, description, name, ty, default_value, directives })
    }

    fn arguments_definition(&mut self) -> R<Vec<InputValueDefinition>> {
        let mut out = vec![];
        if !self.eat_punct("(") {
            return Ok(out);
        }
        loop {
            out.push(self.input_value()?);
            if self.eat_punct(")") {
                return Ok(out);
            }
        }
    }

    fn fields_definition(&mut self) -> R<Vec<FieldDefinition>> {
        let mut out = vec![];
        if !self.eat_punct("{") {
            return Ok(out);
        }
        loop {
            let pos = self.cur().pos;
            let description = self.description();
            let name = self.name()?;
            let arguments = self.arguments_definition()?;
            self.expect_punct(":")?;
            let ty = self.ty()?;
            let directives = self.directives(true)?;
            out.push(FieldDefinition { pos, description, name, arguments, ty, directives });
            if self.eat_punct("}") {
                return Ok(out);
            }
        }
    }

    fn type_system_definition(&mut self) -> R<TypeSystemDefinition> {
        let pos = self.cur().pos;
        let description = self.description();
        let extend = if self.is_kw("extend") {
            if description.is_some() {
                return self.unexpected("a definition keyword after the description (extensions have no description)");
            }
            self.bump();
            true
        } else {
            false
        };
        let kw = match &self.cur().tok {
            Tok::Name(n) => n.as_str(),
            _ => return self.unexpected("a type-system definition keyword"),
        };
        match kw {
            "schema" => {
                self.bump();
                if description.is_some() {
                    self.features.insert("schema_description");
                }
                let directives = self.directives(true)?;
                let root_operations = if self.is_punct("{") {
                    self.root_operations()?
                } else if extend && !directives.is_empty() {
                    vec![]
                } else {
                    return self.unexpected("'{'");
                };
                Ok(TypeSystemDefinition::Schema(SchemaDefinition {
                    pos,
                    extend,
                    description,
                    directives,
                    root_operations,
                }))
            }
            "directive" => {
                if extend {
                    return self.unexpected("an extensible definition keyword ('directive' cannot be extended)");
                }
                self.bump();
                self.expect_punct("@")?;
                let name = self.name()?;
                let arguments = self.arguments_definition()?;
                let repeatable = if self.is_kw("repeatable") {
                    self.bump();
                    true
                } else {
                    self.features.insert("directive_not_repeatable");
                    false
                };
                self.expect_kw("on")?;
                self.eat_punct("|");
                let mut locations = vec![];
                loop {
                    let t = self.cur();
                    let n = self.name()?;
                    if !DIRECTIVE_LOCATIONS.contains(&n.value.as_str()) {
                        return self.err_at(
                            t,
                            ErrKind::UnknownDirectiveLocation,
                            format!("'{}' is not a directive location", n.value),
                        );
                    }
                    locations.push(n);
                    if !self.eat_punct("|") {
                        break;
                    }
                }
                Ok(TypeSystemDefinition::Directive(DirectiveDefinition {
                    pos,
                    description,
                    name,
                    arguments,
                    repeatable,
                    locations,
                }))
            }
            "scalar" | "type" | "interface" | "union" | "enum" | "input" => {
                self.bump();
                let name = self.name()?;
                let mut implements = vec![];
                if kw == "type" || kw == "interface" {
                    implements = self.implements()?;
                }
                let directives = self.directives(true)?;
                let mut has_body = false;
                let kind = match kw {
                    "scalar" => TypeDefKind::Scalar,
                    "type" | "interface" => {
                        has_body = self.is_punct("{");
                        let fields = self.fields_definition()?;
                        if kw == "type" {
                            TypeDefKind::Object { implements: implements.clone(), fields }
                        } else {
                            TypeDefKind::Interface { implements: implements.clone(), fields }
                        }
                    }
                    "union" => {
                        let mut members = vec![];
                        if self.eat_punct("=") {
                            has_body = true;
                            self.eat_punct("|");
                            loop {
                                members.push(self.name()?);
                                if !self.eat_punct("|") {
                                    break;
                                }
                            }
                        }
                        TypeDefKind::Union { members }
                    }
                    "enum" => {
                        let mut values = vec![];
                        if self.eat_punct("{") {
                            has_body = true;
                            loop {
                                let pos = self.cur().pos;
                                let description = self.description();
                                let t = self.cur();
                                let value = self.name()?;
                                if matches!(value.value.as_str(), "true" | "false" | "null") {
                                    return self.err_at(
                                        t,
                                        ErrKind::ReservedName,
                                        format!("'{}' cannot be an enum value", value.value),
                                    );
                                }
                                self.enum_feature(&value.value);
                                let directives = self.directives(true)?;
                                values.push(EnumValueDefinition { pos, description, value, directives });
                                if self.eat_punct("}") {
                                    break;
                                }
                            }
                        }
                        TypeDefKind::Enum { values }
                    }
                    _ => {
                        let mut fields = vec![];
                        if self.eat_punct("{") {
                            has_body = true;
                            loop {
                                fields.push(self.input_value()?);
                                if self.eat_punct("}") {
                                    break;
                                }
                            }
                        }
                        TypeDefKind::InputObject { fields }
                    }
                };
                if extend && !has_body && directives.is_empty() && implements.is_empty() {
                    return self.unexpected("directives or a body (an extension must add something)");
                }
                if extend && kw == "interface" && !has_body && directives.is_empty() {
                    self.features.insert("extend_interface_implements_only");
                }
                Ok(TypeSystemDefinition::Type(TypeDefinition { pos, extend, description, name, directives, kind }))
            }
            _ => self.unexpected("a type-system definition keyword"),
        }
    }

    fn document(&mut self, class: DocClass) -> R<Document> {
        let mut definitions = vec![];
        loop {
            let t = self.cur();
            let is_exec = match &t.tok {
                Tok::Eof => {
                    if definitions.is_empty() {
                        return self.err_at(t, ErrKind::NoDefinition, "a document needs at least one definition".into());
                    }
                    return Ok(Document { definitions });
                }
                Tok::Punct("{") => true,
                Tok::Name(n) => match n.as_str() {
                    "query" | "mutation" | "subscription" | "fragment" => true,
                    "schema" | "scalar" | "type" | "interface" | "union" | "enum" | "input" | "directive"
                    | "extend" => false,
                    _ => return self.unexpected("a definition"),
                },
                Tok::Str(_) => false,
                _ => return self.unexpected("a definition"),
            };
            if is_exec && class == DocClass::TypeSystem {
                return self.err_at(
                    t,
                    ErrKind::WrongDocumentClass,
                    "executable definition in a type-system document".into(),
                );
            }
            if !is_exec && class == DocClass::Executable {
                // a string cannot start anything in an executable document;
                // a keyword such as `type` is simply an unexpected name there
                return self.err_at(
                    t,
                    ErrKind::WrongDocumentClass,
                    "type-system definition in an executable document".into(),
                );
            }
            if is_exec {
                if self.is_kw("fragment") {
                    definitions.push(Definition::Fragment(self.fragment()?));
                } else {
                    definitions.push(Definition::Operation(self.operation()?));
                }
            } else {
                definitions.push(Definition::TypeSystem(self.type_system_definition()?));
            }
        }
    }
}

/// Parse a document of the given class.
pub fn parse(text: &str, class: DocClass, o: &Options) -> Result<Parsed, SyntaxError> {
    let toks = lex(text, o)?;
    let mut p = P { t: &toks, i: 0, features: BTreeSet::new() };
    let doc = p.document(class)?;
    Ok(Parsed { doc, features: p.features })
}
